"""C44 helper-assisted uploads are equivalent to direct uploads (caps, shares, resume, already-present)."""
META = {
    "level": "fault_enumeration",
    "technique": "differential runtime monitoring of the real upload Helper on the in-process grid (twin grid = direct upload oracle) with enumeration of every client-disconnect point of the ciphertext transfer and every file-system crash point (vf.fsx) of the helper's ciphertext spool, each followed by a resumed upload from a new client",
    "text": "The real allmydata.immutable.offloaded.Helper (constructed as client.init_helper does) is reached by the real Uploader/AssistedUploader of a client through a schedulable two-way wire (upload_chk, upload, and the helper's get_size/get_all_encoding_parameters/read_encrypted/close calls back to the client are wire messages).  For generated (size, k, happy, N, segment size, server count, fetch chunk size, convergence secret): (a) the read-cap and verify-cap of the helper upload equal those of a direct upload of the same data on a twin grid and every share's data region is byte-identical by share number, and the file reads back; (b) for EVERY index i of the helper's read_encrypted calls the client connection is cut at call i (before it is served / after it was served but before the answer arrives), a new client resumes, and cap and shares equal the uninterrupted ones; (c) for EVERY file-system operation of the helper (creat/write(2)/rename/unlink of CHK_incoming, CHK_encoding, as decided by CPython's real buffering) the helper process is killed there, its storage connections drop, a new Helper starts on the same directory, a new client resumes: same cap, same shares; (d) a second upload of a present file makes no allocate_buckets / write / close call to any storage server, fetches no ciphertext and reports 0 pushed shares with the same cap; (e) a second client joining an active upload, the first one vanishing (takeover); (f) history upload -> share files lost so that r distinct share numbers remain (r in {0,k-1,k,k+1,N-1,N}) -> upload again through the helper, against the same history with a direct second upload on the twin grid: same cap and the same set of complete share numbers afterwards ('already present' is only accepted when the direct upload pushes nothing either); (g) 2..3 clients uploading the same file with the same secret through one helper, started in the same turn and with the second one started at every scheduling point of the first one's already-in-grid check: every upload that reports success returns the direct upload's caps, the grid holds only genuine shares and the file reads back.",
    "note": "Trusts the in-process wire (stands in for foolscap), the virtual reactor and vf.fsx (validated against strace by C29).  The helper's fetch chunk size (a class constant, 50 KiB) is lowered in most cases so that small files have many chunk boundaries; the real value is used in others.",
}
LEVEL = "fault_enumeration"
BUDGET = {"quick": 40, "thorough": 240}
SHARDS = {"quick": 1, "thorough": 8}

from vf import env  # noqa  MUST be first
import os
import shutil

from twisted.internet import defer
from twisted.python.failure import Failure
from twisted.internet.error import ConnectionLost
from zope.interface import implementer
from foolscap.api import Referenceable, RemoteException, DeadReferenceError
from foolscap.ipb import IRemoteReference


# ------------------------------------------------------------------ the wire

class HChan(object):
    """One direction of the client<->helper connection (what vf.grid.Wire needs from a VServer)."""

    def __init__(self, grid, name):
        from vf.grid import Fault
        self._Fault = Fault
        self.grid = grid
        self.name = name
        self.connected = True
        self.faults = []
        self.calls = {}
        self.hung = []
        self.inflight = {}
        self.client_side_disconnect = {}
        self.server_side_disconnect = {}
        self.peer = None
        self.after_call = None       # fn(chan, methname, count) after a request was executed

    def add_fault(self, *a, **kw):
        f = self._Fault(*a, **kw)
        self.faults.append(f)
        return f

    def pick_fault(self, methname, is_root):
        for f in self.faults:
            if f.matches(methname, is_root):
                f.fired += 1
                return f.action, f
        return None, None

    def disconnect(self):
        """The TCP connection is gone: both directions, pending calls fail on both sides."""
        for ch in (self, self.peer):
            if ch is None or not ch.connected:
                continue
            ch.connected = False
            sched = ch.grid.sched
            sched.net = [m for m in sched.net if m.chan != ch.name]
            inflight, ch.inflight = ch.inflight, {}
            for callno in sorted(inflight):
                env.evq.append(inflight[callno].errback, (Failure(ConnectionLost("helper connection lost")),), {})
            cbs, ch.client_side_disconnect = ch.client_side_disconnect, {}
            for (f, a, kw) in cbs.values():
                env.evq.append(f, a, kw)


def make_channel(grid, tag):
    fwd, back = HChan(grid, "helper%s" % tag), HChan(grid, "hback%s" % tag)
    fwd.peer, back.peer = back, fwd
    return fwd


@implementer(IRemoteReference)
class HWire(object):
    """RemoteReference over an HChan: like vf.grid.Wire, plus asynchronous remote methods and
    Referenceable arguments (the client's RemoteEncryptedUploadable travels to the helper and is
    called back over the reverse direction)."""

    def __init__(self, chan, original, is_root=False):
        self.chan = chan
        self.original = original
        self.is_root = is_root

    def __repr__(self):
        return "<HWire %s %s>" % (self.chan.name, type(self.original).__name__)

    def notifyOnDisconnect(self, f, *a, **kw):
        m = object()
        self.chan.client_side_disconnect[m] = (f, a, kw)
        return m

    def dontNotifyOnDisconnect(self, m):
        self.chan.client_side_disconnect.pop(m, None)

    def callRemoteOnly(self, methname, *args, **kwargs):
        self.callRemote(methname, *args, **kwargs).addErrback(lambda f: None)

    def getPeer(self):
        return None

    def getRemoteTubID(self):
        return self.chan.name

    def _wrap(self, x, chan):
        from vf.grid import _copy
        x = _copy(x)
        if isinstance(x, Referenceable):
            return HWire(chan, x)
        if isinstance(x, tuple):
            return tuple(self._wrap(v, chan) for v in x)
        if isinstance(x, list):
            return [self._wrap(v, chan) for v in x]
        return x

    def callRemote(self, methname, *args, **kwargs):
        ch = self.chan
        grid, sched = ch.grid, ch.grid.sched
        if not ch.connected:
            return defer.fail(Failure(DeadReferenceError("connection to %s lost" % ch.name)))
        # objects passed as arguments are called back over the other direction
        args = tuple(self._wrap(a, ch.peer) for a in args)
        d = defer.Deferred()
        ch.calls[methname] = cnt = ch.calls.get(methname, 0) + 1
        callno = grid.next_callno()
        rec = {"n": callno, "server": ch.name, "method": methname, "args": args, "kwargs": kwargs,
               "t_call": sched.reactor.seconds(), "state": "sent", "result": None, "obj": self.original}
        if grid.keep_log:
            grid.calls.append(rec)
        ch.inflight[callno] = d

        def respond(res):
            def deliver_rsp():
                if ch.inflight.pop(callno, None) is None:
                    return
                rec["state"] = "answered"
                if isinstance(res, Failure):
                    d.errback(res)
                else:
                    d.callback(res)
            sched.post(ch.name, "rsp", "%s<%s#%d" % (ch.name, methname, cnt), deliver_rsp)

        def finish(res):
            if not ch.connected:
                return                        # nobody to answer to
            if isinstance(res, Failure):
                rec["result"] = "raise:" + res.type.__name__
                return respond(Failure(RemoteException(res)))
            rec["result"] = res
            respond(self._wrap(res, ch))

        def deliver_req():
            if not ch.connected:
                return
            rec["state"] = "delivered"
            action, _fault = ch.pick_fault(methname, self.is_root)
            if action == "disconnect":
                rec["result"] = "injected-disconnect"
                ch.disconnect()
                return
            try:
                res = getattr(self.original, "remote_" + methname)(*args, **kwargs)
            except Exception:
                return finish(Failure())
            if action == "lose-response":
                # the request was served, the connection dies before the answer travels
                if isinstance(res, defer.Deferred):
                    res.addBoth(lambda r: ch.disconnect())
                    res.addErrback(lambda f: None)
                else:
                    ch.disconnect()
                return
            if isinstance(res, defer.Deferred):
                res.addBoth(finish)
            else:
                finish(res)
            if ch.after_call is not None:
                ch.after_call(ch, methname, cnt)

        sched.post(ch.name, "req", "%s>%s#%d" % (ch.name, methname, cnt), deliver_req)
        return d


# ----------------------------------------------------------------- a helper node

class HelperNode(object):
    """An upload helper 'process': the real Helper on a directory, with the storage broker / secret
    holder / stats / history of a real client node (as client.init_helper wires it)."""

    def __init__(self, grid, basedir, params):
        from allmydata.immutable.offloaded import Helper
        self.grid = grid
        self.basedir = basedir
        # the helper node's own encoding defaults differ from every uploading client's
        self.node = grid.make_client(k=params["hk"], happy=1, n=params["hn"])
        self.start()

    def start(self):
        from allmydata.immutable.offloaded import Helper
        from allmydata.util import fileutil
        fileutil.make_dirs(self.basedir)
        n = self.node
        self.helper = Helper(self.basedir, n.storage_broker, n._secret_holder, n.stats_provider, n.history)
        self.channels = []

    def connect(self, client, tag):
        """Give `client`'s Uploader a helper connection; returns the channel."""
        ch = make_channel(self.grid, tag)
        self.channels.append(ch)
        wire = HWire(ch, self.helper, is_root=True)
        up = client.getServiceNamed("uploader")
        up._got_helper(wire)
        st = self.grid.sched.run(until=lambda: up._helper is not None, max_steps=20000, horizon=600)
        if up._helper is None:
            raise RuntimeError("client did not get its helper connection (%s)" % st)
        return ch

    def spool(self):
        out = {}
        for sub in ("CHK_incoming", "CHK_encoding"):
            d = os.path.join(self.basedir, sub)
            out[sub] = {f: os.path.getsize(os.path.join(d, f)) for f in sorted(os.listdir(d))} \
                if os.path.isdir(d) else None
        return out

    def die(self):
        """SIGKILL of the helper process: client connections and storage connections drop."""
        for ch in self.channels:
            ch.disconnect()
        for vs in self.grid.servers:
            vs.disconnect()                 # servers abort the helper's open buckets
        self.grid.sched.settle()
        for vs in self.grid.servers:
            vs.connected = True             # the servers are fine; new connections work
        self.helper = None


# ------------------------------------------------------------------ oracles

def shares_of(grid, si):
    """{shnum: data region} (must be the same on every server that holds the number)."""
    from vf.checks._storage import parse_immutable
    out, clash = {}, []
    for (_vs, shnum, path) in grid.find_shares(si):
        d = parse_immutable(path).data
        if shnum in out and out[shnum] != d:
            clash.append(shnum)
        out[shnum] = d
    return out, clash


def direct_reference(p, data, conv):
    """Twin grid: plain direct upload with the same parameters."""
    from vf.grid import VGrid
    from allmydata.immutable.upload import Data
    from allmydata import uri
    g = VGrid(nservers=p["nservers"], seed=p["seed"], profile="fifo", keep_log=False)
    try:
        c = g.make_client(k=p["k"], happy=p["happy"], n=p["n"], max_segment_size=p["segsize"])
        st, res = g.wait(c.upload(Data(data, convergence=conv)))
        if st != "ok":
            return None
        cap = res.get_uri()
        u = uri.from_string(cap)
        sh, _clash = shares_of(g, u.get_storage_index())
        return {"cap": cap, "vcap": u.get_verify_cap().to_string(), "si": u.get_storage_index(), "shares": sh}
    finally:
        g.close()


def gen_case(rng, tier):
    n = rng.choice([2, 3, 4, 5, 6, 10])
    k = rng.randint(1, n)
    nservers = rng.randint(max(2, n // 2), min(n + 2, 7))
    happy = rng.randint(1, min(n, nservers, 3))
    chunk = rng.choice([50 * 1024, 50 * 1024, 4096, 1000, 1000, 333, 4097])
    if chunk == 50 * 1024:
        size = rng.choice([56, 1000, 51199, 51200, 51201, 102400, 120000, 153601])
        segsize = rng.choice([4096, 16384, 131072])
    else:
        size = rng.choice([56, 57, chunk - 1, chunk, chunk + 1, 2 * chunk, 3 * chunk + 1, 5 * chunk - 1,
                           rng.randint(56, 9 * chunk)])
        size = max(56, size)
        segsize = rng.choice([64, 128, 1024, 4096, 131072])
    while size // max(1, min(segsize, size)) > 40:
        segsize *= 4
    hk = rng.choice([x for x in (1, 2, 3) if x != k] or [k + 1])
    hn = rng.choice([x for x in (3, 7, 10) if x != n and x >= hk])
    return dict(k=k, n=n, happy=happy, nservers=nservers, segsize=segsize, size=size, chunk=chunk,
                hk=hk, hn=hn, seed=rng.getrandbits(32), profile=rng.choice(["fifo", "per-server-fifo", "free"]))


class World(object):
    """helper grid for one case"""

    def __init__(self, p, tag=""):
        from vf.grid import VGrid
        from allmydata.immutable import offloaded
        self.p = p
        self.g = VGrid(nservers=p["nservers"], seed=p["seed"], profile=p["profile"], keep_log=True)
        self._old_chunk = offloaded.CHKCiphertextFetcher.CHUNK_SIZE
        offloaded.CHKCiphertextFetcher.CHUNK_SIZE = p["chunk"]
        self.nclients = 0
        try:
            self.hn = HelperNode(self.g, os.path.join(self.g.basedir, "helper-node", "helper"), p)
        except BaseException:
            self.close()
            raise

    def client(self):
        p = self.p
        self.nclients += 1
        c = self.g.make_client(k=p["k"], happy=p["happy"], n=p["n"], max_segment_size=p["segsize"])
        ch = self.hn.connect(c, "%d" % self.nclients)
        return c, ch

    def close(self):
        from allmydata.immutable import offloaded
        offloaded.CHKCiphertextFetcher.CHUNK_SIZE = self._old_chunk
        self.g.close()


def storage_writes(calls, since=0):
    return [(c["server"], c["method"]) for c in calls[since:]
            if c["method"] in ("allocate_buckets", "write", "close", "abort")
            and not c["server"].startswith(("helper", "hback"))]


def judge_upload(ck, tag, st, res, ref, w, desc, resumed=False):
    """cap + share equality against the direct reference.  Returns True when equal."""
    from allmydata import uri
    ck.mon("cap-equals-direct")
    if st != "ok":
        ck.violation("helper-upload-failed-where-direct-succeeds" if not resumed else "resumed-helper-upload-failed",
                     "%s: upload through the helper %s (%s) although the direct upload of the same data with the "
                     "same parameters succeeded" % (tag, st, _f(res)), desc)
        return False
    cap = res.get_uri()
    ok = True
    if cap != ref["cap"]:
        ck.violation("helper-readcap-differs-from-direct" if not resumed else "resumed-upload-cap-differs",
                     "%s: read-cap %r, direct upload gave %r" % (tag, cap, ref["cap"]), desc)
        ok = False
    try:
        vcap = uri.from_string(cap).get_verify_cap().to_string()
        rv = res.get_verifycapstr()
    except Exception as e:
        vcap = rv = "error %s" % e
    if vcap != ref["vcap"] or rv != ref["vcap"]:
        ck.violation("helper-verifycap-differs-from-direct" if not resumed else "resumed-upload-cap-differs",
                     "%s: verify-cap %r / results say %r, direct upload gave %r" % (tag, vcap, rv, ref["vcap"]), desc)
        ok = False
    ck.mon("shares-equal-direct")
    sh, clash = shares_of(w.g, ref["si"])
    if clash:
        ck.violation("share-number-with-two-contents", "%s: share numbers %r exist with different data" % (
            tag, clash), desc)
        ok = False
    if sh != ref["shares"]:
        missing = sorted(set(ref["shares"]) - set(sh))
        differ = sorted(s for s in sh if s in ref["shares"] and sh[s] != ref["shares"][s])
        extra = sorted(set(sh) - set(ref["shares"]))
        ck.violation("helper-shares-differ-from-direct" if not resumed else "resumed-upload-shares-differ",
                     "%s: shares on the grid differ from the uninterrupted/direct ones: missing %r, different data %r, "
                     "unexpected %r" % (tag, missing, differ, extra), desc)
        ok = False
    return ok


def _f(res):
    try:
        return "%s: %s" % (res.type.__name__, str(res.value)[:240])
    except Exception:
        return repr(res)[:240]


def upload_via(w, c, data, conv, until=None, horizon=3600.0):
    from allmydata.immutable.upload import Data
    d = c.upload(Data(data, convergence=conv))
    box = []
    d.addBoth(box.append)
    st = w.g.sched.run(until=(lambda: bool(box) or (until is not None and until())), max_steps=400000,
                       horizon=horizon)
    if box:
        r = box[0]
        return ("err", r) if isinstance(r, Failure) else ("ok", r)
    if until is not None and until():
        return ("stopped", None)
    return ("hang" if st == "quiescent" else "steps", None)


# ------------------------------------------------------------------ case families

def family_literal_boundary(ck):
    """Sizes at the literal-cap threshold (seeded/C44-9): a client that has a helper must return the same cap as a
    client that has none -- a literal cap, with no helper call and no storage write -- for 0..55 bytes, and 56 bytes is
    the first size that goes through the helper."""
    from vf import imm
    from vf.grid import VGrid
    from allmydata.immutable.upload import Data
    p = dict(k=2, n=3, happy=1, nservers=3, segsize=4096, size=55, chunk=1000, hk=1, hn=7, seed=44, profile="fifo")
    w = World(p)
    g2 = VGrid(nservers=3, seed=44, profile="fifo", keep_log=False)
    try:
        direct = g2.make_client(k=2, happy=1, n=3, max_segment_size=4096)
        for size in (0, 1, 54, 55, 56):
            data = imm.gen_data(ck.rng("lit", size), size)
            st0, r0 = g2.wait(direct.upload(Data(data, convergence=b"")))
            c, ch = w.client()
            mark = len(w.g.calls)
            st, res = upload_via(w, c, data, b"")
            ck.mon("cap-equals-direct")
            desc = dict(p, size=size)
            ck.case("literal-boundary", key=("lit", size), sample=desc)
            if st0 != "ok":
                ck.skip("direct-upload-fails-too")
                continue
            if st != "ok":
                ck.violation("helper-upload-failed-where-direct-succeeds",
                             "%d-byte upload by a client with a helper %s, direct succeeded" % (size, st), desc)
                continue
            if size <= 55:
                ck.hit("literal-size-upload-by-client-with-helper")
            if res.get_uri() != r0.get_uri():
                ck.violation("helper-readcap-differs-from-direct",
                             "%d bytes: the client with a helper returned %r, the direct upload %r"
                             % (size, res.get_uri()[:12], r0.get_uri()[:12]), desc)
            elif size <= 55 and (storage_writes(w.g.calls, mark) or sum(ch.peer.calls.values())):
                ck.violation("literal-file-sent-to-helper-or-grid",
                             "%d bytes: literal cap returned, but %d storage writes and helper calls %r were made"
                             % (size, len(storage_writes(w.g.calls, mark)), dict(ch.peer.calls)), desc)
    finally:
        g2.close()
        w.close()


def family_equivalence(ck, p, data, conv, ref, desc):
    """uninterrupted helper upload == direct; read back; second upload is 'already present'."""
    from vf import imm
    w = World(p)
    try:
        c, ch = w.client()
        st, res = upload_via(w, c, data, conv)
        ok = judge_upload(ck, "helper upload", st, res, ref, w, desc)
        n_chunks = ch.peer.calls.get("read_encrypted", 0)
        if st == "ok":
            ck.hit("helper-upload-completed")
            if n_chunks > 1:
                ck.hit("multi-chunk-fetch")
            if res.get_pushed_shares() != p["n"] or not res.get_ciphertext_fetched():
                ck.observe("first-upload-did-not-push-all-shares")
            sp = w.hn.spool()
            if any(sp.values()):
                ck.observe("helper-spool-not-empty-after-upload")
            # read back through a fresh client
            rc = w.g.make_client(k=1, happy=1, n=2)
            st2, _r2, cons = imm.read_all(w.g, rc.create_node_from_uri(res.get_uri()))
            ck.mon("helper-upload-reads-back")
            if st2 != "ok" or cons.value() != data:
                ck.violation("helper-upload-does-not-read-back", "download of the helper-uploaded file %s" % st2, desc)
            # (d) a second upload of the same file, from another client
            c2, ch2 = w.client()
            mark = len(w.g.calls)
            st3, res3 = upload_via(w, c2, data, conv)
            ck.mon("already-present")
            ok2 = judge_upload(ck, "second upload of a present file", st3, res3, ref, w, desc)
            sw = storage_writes(w.g.calls, mark)
            fetched = ch2.peer.calls.get("read_encrypted", 0)
            if st3 == "ok":
                ck.hit("second-upload-of-present-file")
                if sw or fetched:
                    ck.violation("present-file-uploaded-again",
                                 "second upload of a file whose %d shares are all on the grid made %d storage write "
                                 "calls %r and fetched %d ciphertext chunks" % (p["n"], len(sw), sw[:4], fetched), desc)
                if res3.get_pushed_shares() != 0 or res3.get_ciphertext_fetched():
                    ck.violation("present-file-not-reported-as-present",
                                 "second upload reports pushed_shares=%r ciphertext_fetched=%r preexisting=%r" % (
                                     res3.get_pushed_shares(), res3.get_ciphertext_fetched(),
                                     res3.get_preexisting_shares()), desc)
        return n_chunks if st == "ok" and ok else None
    finally:
        w.close()


def family_client_disconnect(ck, p, data, conv, ref, desc, n_chunks):
    """cut the client connection at every read_encrypted index, resume with a new client."""
    # index i = 1..n_chunks: the i-th request is not served ('disconnect') / served but its answer lost
    # ('lose-response'); i = n_chunks+1: after the last chunk (the trailing calls of the upload are cut)
    plans = []
    for i in range(1, n_chunks + 1):
        plans.append(("disconnect", "read_encrypted", i))
        plans.append(("lose-response", "read_encrypted", i))
    plans.append(("disconnect", "get_all_encoding_parameters", 1))
    plans.append(("disconnect", "get_size", 1))
    plans.append(("disconnect", "close", 1))
    for (action, meth, i) in plans:
        w = World(p)
        d2 = dict(desc, fault=(action, meth, i))
        try:
            with ck.watchdog(180, "client-disconnect %r" % (d2,)):
                c, ch = w.client()
                ch.peer.add_fault(action, method=meth, nth=i)
                st, res = upload_via(w, c, data, conv)
                w.g.sched.settle()
                if ch.connected:
                    # the fault point was not reached (e.g. no close call): nothing was interrupted
                    ck.skip("fault-point-not-reached")
                    if st == "ok":
                        judge_upload(ck, "uninterrupted (fault not reached)", st, res, ref, w, d2)
                    continue
                ck.hit("client-disconnected-mid-upload")
                if st == "ok":
                    ck.observe("upload-reported-ok-although-connection-was-cut")
                spool = w.hn.spool()
                have = sum((spool["CHK_incoming"] or {}).values())
                if have:
                    ck.hit("partial-ciphertext-kept-by-helper")
                # resume: a new client (new connection) uploads the same file
                c2, ch2 = w.client()
                st2, res2 = upload_via(w, c2, data, conv)
                ck.mon("resume-after-client-disconnect")
                ok = judge_upload(ck, "resumed after %s at %s #%d" % (action, meth, i), st2, res2, ref, w, d2,
                                  resumed=True)
                if ok and st2 == "ok":
                    refetched = res2.get_ciphertext_fetched() or 0
                    if have and refetched and refetched < len(data):
                        ck.hit("resume-fetched-only-the-rest")
                    if have and refetched + have != len(data) and refetched:
                        ck.observe("resume-refetched-different-amount")
                ck.case("client-disconnect", key=(p["size"], p["k"], p["n"], p["segsize"], p["chunk"], action, meth, i),
                        sample=d2)
        finally:
            w.close()


def family_helper_kill(ck, p, data, conv, ref, desc):
    """kill the helper at every file-system operation of its ciphertext spool; new helper, new client."""
    from vf import fsx
    fsx.install()
    # counting run
    w = World(p)
    try:
        c, ch = w.client()
        fx = fsx.Fsx(root=w.hn.basedir)
        with fx:
            st, res = upload_via(w, c, data, conv)
        ops = list(fx.ops)
        if st != "ok":
            ck.observe("helper-kill-family-skipped-upload-failed")
            return
    finally:
        w.close()
    ck.extra["helper_fs_ops_max"] = max(ck.extra.get("helper_fs_ops_max", 0), len(ops))
    for n in range(len(ops)):
        w = World(p)
        d2 = dict(desc, crash_index=n, n_ops=len(ops), next_op=ops[n], previous_op=ops[n - 1] if n else None)
        try:
            with ck.watchdog(180, "helper-kill %r" % (d2,)):
                c, ch = w.client()
                fx = fsx.Fsx(root=w.hn.basedir, crash_at=n)
                try:
                    with fx:
                        st, res = upload_via(w, c, data, conv, until=lambda: fx.crashed)
                except fsx.Crash:
                    st, res = "stopped", None
                if not fx.crashed:
                    ck.inconclusive_because("harness: helper fs op %d of %d not reached on re-execution" % (n, len(ops)))
                    continue
                if fx.ops != ops[:n]:
                    ck.observe("helper-op-log-differs-between-runs")
                ck.hit("helper-killed:" + ops[n][0])
                w.hn.die()
                w.g.sched.settle()
                spool = w.hn.spool()
                if (spool["CHK_incoming"] or {}) and sum(spool["CHK_incoming"].values()) > 0:
                    ck.hit("partial-ciphertext-survived-helper-kill")
                if spool["CHK_encoding"]:
                    ck.hit("complete-ciphertext-survived-helper-kill")
                w.hn.start()                                  # new process, same directory
                c2, ch2 = w.client()
                st2, res2 = upload_via(w, c2, data, conv)
                ck.mon("resume-after-helper-kill")
                judge_upload(ck, "resumed after helper kill before fs op %d %r" % (n, ops[n]), st2, res2, ref, w, d2,
                             resumed=True)
                if st2 == "ok" and any(w.hn.spool().values()):
                    ck.observe("helper-spool-not-empty-after-resumed-upload")
                ck.case("helper-kill", key=(p["size"], p["k"], p["n"], p["segsize"], p["chunk"], n), sample=d2)
        finally:
            w.close()


def _complete_numbers(grid, ref):
    """share numbers present on the grid whose data region is the genuine share (every copy)."""
    from vf.checks._storage import parse_immutable
    good, bad = set(), set()
    for (_vs, shnum, path) in grid.find_shares(ref["si"]):
        if parse_immutable(path).data == ref["shares"].get(shnum):
            good.add(shnum)
        else:
            bad.add(shnum)
    return good - bad, bad


def _drop_shares(grid, si, keep):
    n = 0
    for (_vs, shnum, path) in grid.find_shares(si):
        if shnum not in keep:
            os.remove(path)
            n += 1
    return n


def family_reupload_after_loss(ck, p, data, conv, ref, desc, rng):
    """History: the file is uploaded, share files disappear so that r distinct share numbers remain, the file
    is uploaded again -- through the helper on grid A, directly on the twin grid B with the same losses.
    Afterwards: same cap, and the same set of complete share numbers on A as on B ('already present, nothing
    pushed' is only right when the direct upload pushes nothing either)."""
    from vf.grid import VGrid
    from allmydata.immutable.upload import Data
    k, n = p["k"], p["n"]
    rs = sorted(set(r for r in (0, k - 1, k, k + 1, n - 1, n) if 0 <= r <= n))
    if ck.tier == "quick":
        mid = [r for r in rs if k <= r < n]
        pick = set(rng.sample(rs, min(2, len(rs))))
        if mid:
            pick.add(rng.choice(mid))           # enough to read the file, not all there
        rs = sorted(pick)
    for r in rs:
        keep = set(rng.sample(sorted(ref["shares"]), r))
        first_via = rng.choice(["helper", "direct"])
        d2 = dict(desc, remaining_share_numbers=sorted(keep), r=r, first_upload=first_via)
        with ck.watchdog(180, "reupload-after-loss %r" % (d2,)):
            # ---- twin grid B: direct, direct
            g = VGrid(nservers=p["nservers"], seed=p["seed"], profile="fifo", keep_log=False)
            try:
                c = g.make_client(k=k, happy=p["happy"], n=n, max_segment_size=p["segsize"])
                st, res = g.wait(c.upload(Data(data, convergence=conv)))
                if st != "ok":
                    ck.skip("direct-upload-fails-too")
                    continue
                _drop_shares(g, ref["si"], keep)
                c2 = g.make_client(k=k, happy=p["happy"], n=n, max_segment_size=p["segsize"])
                stB, resB = g.wait(c2.upload(Data(data, convergence=conv)))
                goodB, badB = _complete_numbers(g, ref)
                capB = resB.get_uri() if stB == "ok" else None
                pushedB = resB.get_pushed_shares() if stB == "ok" else None
            finally:
                g.close()
            if stB != "ok":
                ck.skip("direct-reupload-fails-too")
                continue
            # ---- grid A: same history, second upload through the helper
            w = World(p)
            try:
                if first_via == "helper":
                    c, _ch = w.client()
                    st, res = upload_via(w, c, data, conv)
                else:
                    c = w.g.make_client(k=k, happy=p["happy"], n=n, max_segment_size=p["segsize"])
                    st, res = w.g.wait(c.upload(Data(data, convergence=conv)))
                if st != "ok":
                    ck.observe("first-upload-of-loss-history-failed")
                    continue
                dropped = _drop_shares(w.g, ref["si"], keep)
                c2, ch2 = w.client()
                mark = len(w.g.calls)
                stA, resA = upload_via(w, c2, data, conv)
                ck.mon("reupload-after-share-loss")
                if stA != "ok":
                    ck.violation("helper-upload-failed-where-direct-succeeds",
                                 "re-upload through the helper with %d of %d share numbers left %s (%s); the direct "
                                 "re-upload on the twin grid succeeded" % (r, n, stA, _f(resA)), d2)
                    continue
                goodA, badA = _complete_numbers(w.g, ref)
                if resA.get_uri() != capB:
                    ck.violation("helper-readcap-differs-from-direct", "re-upload after share loss: cap %r, direct %r"
                                 % (resA.get_uri(), capB), d2)
                if badA:
                    ck.violation("helper-shares-differ-from-direct", "re-upload after share loss left share numbers "
                                 "%r with wrong data" % sorted(badA), d2)
                if goodA != goodB:
                    sw = storage_writes(w.g.calls, mark)
                    ck.violation("helper-does-not-restore-missing-shares",
                                 "%d of %d share numbers were left (k=%d); after the re-upload through the helper the "
                                 "grid holds complete shares %r, after the direct re-upload on the twin grid %r "
                                 "(direct pushed %r shares; helper reported pushed=%r fetched=%r preexisting=%r and made "
                                 "%d storage write calls)" % (
                                     r, n, k, sorted(goodA), sorted(goodB), pushedB, resA.get_pushed_shares(),
                                     resA.get_ciphertext_fetched(), resA.get_preexisting_shares(), len(sw)), d2)
                elif not resA.get_pushed_shares() and pushedB:
                    ck.violation("present-reported-although-direct-pushes",
                                 "helper reported nothing pushed, the direct re-upload pushed %r shares" % pushedB, d2)
                if dropped and k <= r < n:
                    ck.hit("reupload-with-readable-but-incomplete-share-set")
                if r == 0:
                    ck.hit("reupload-after-total-loss")
                if pushedB:
                    ck.hit("direct-reupload-restored-shares")
                ck.case("reupload-after-loss", key=(p["size"], k, n, p["nservers"], r, first_via, tuple(sorted(keep))),
                        sample=d2)
            finally:
                w.close()


def family_concurrent(ck, p, data, conv, ref, desc, rng):
    """2..3 clients upload the SAME file (same convergence secret) through one helper: all started in the same
    turn, and the second one started at every scheduling point of the first one's already-in-grid check (until
    the first client has been told to send its ciphertext).  Every upload that reports success returns the cap
    of the direct upload; afterwards the grid holds the genuine shares and the file reads back with that cap."""
    from vf import imm
    from allmydata.immutable.upload import Data

    def run_one(m, stagger, label):
        w = World(p)
        d2 = dict(desc, concurrent_clients=m, second_started_after_steps=stagger)
        try:
            with ck.watchdog(180, "concurrent %r" % (d2,)):
                clients = [w.client() for _ in range(m)]
                boxes = [[] for _ in range(m)]
                clients[0][0].upload(Data(data, convergence=conv)).addBoth(boxes[0].append)
                steps = 0
                if stagger is not None:
                    while steps < stagger and not boxes[0]:
                        if w.g.sched.step() is None:
                            break
                        steps += 1
                for i in range(1, m):
                    clients[i][0].upload(Data(data, convergence=conv)).addBoth(boxes[i].append)
                w.g.sched.run(until=lambda: all(boxes), max_steps=600000, horizon=7200)
                w.g.sched.settle()
                ck.mon("concurrent-same-file")
                if not all(boxes):
                    ck.violation("concurrent-helper-upload-hangs", "%s: %d of %d concurrent uploads of the same file "
                                 "never finished" % (label, sum(1 for b in boxes if not b), m), d2)
                    return None
                oks = [b[0] for b in boxes if not isinstance(b[0], Failure)]
                fails = [b[0] for b in boxes if isinstance(b[0], Failure)]
                if fails:
                    ck.observe("concurrent-upload-failed")
                both_asked = sum(1 for (_c, ch) in clients if ch.peer.calls.get("read_encrypted", 0)) > 1
                if both_asked:
                    ck.hit("two-clients-served-ciphertext")
                if sum(ch.calls.get("upload", 0) for (_c, ch) in clients) > 1:
                    ck.hit("two-clients-joined-one-upload")
                good = True
                for j, res in enumerate(oks):
                    if res.get_uri() != ref["cap"] or res.get_verifycapstr() != ref["vcap"]:
                        good = False
                        ck.violation("concurrent-helper-upload-cap-differs",
                                     "%s: an upload that reported success returned %r (verify-cap %r); the direct upload "
                                     "gives %r" % (label, res.get_uri(), res.get_verifycapstr(), ref["cap"]), d2)
                if not oks:
                    # nothing succeeded: the statement says nothing about that, but a repeated upload must work
                    c3, _ch3 = w.client()
                    st3, res3 = upload_via(w, c3, data, conv)
                    good = judge_upload(ck, label + ", all failed (%s), then repeated" % _f(fails[0]), st3, res3, ref, w,
                                        d2, resumed=True)
                else:
                    sh, clash = shares_of(w.g, ref["si"])
                    wrong = sorted(k for k in sh if sh[k] != ref["shares"].get(k))
                    if clash or wrong:
                        good = False
                        ck.violation("concurrent-helper-upload-leaves-bogus-shares",
                                     "%s: share numbers %r on the grid do not hold the genuine share data" % (
                                         label, sorted(set(wrong) | set(clash))), d2)
                    rc = w.g.make_client(k=1, happy=1, n=2)
                    st2, _r2, cons = imm.read_all(w.g, rc.create_node_from_uri(ref["cap"]))
                    ck.mon("concurrent-upload-reads-back")
                    if st2 != "ok" or cons.value() != data:
                        good = False
                        ck.violation("file-unreadable-after-concurrent-helper-uploads",
                                     "%s: download with the (correct) read-cap %s afterwards" % (label, st2), d2)
                if any((r.get_ciphertext_fetched() or 0) > len(data) for r in oks):
                    ck.observe("ciphertext-fetched-more-than-once")
                ck.case("concurrent", key=(p["size"], p["k"], p["n"], p["chunk"], p["nservers"], m, stagger), sample=d2)
                return steps
        finally:
            w.close()

    # how many scheduling points has the first client's check phase?  (counting run: until it is asked to upload)
    w = World(p)
    try:
        c, ch = w.client()
        box = []
        c.upload(Data(data, convergence=conv)).addBoth(box.append)
        J = 0
        while not box and ch.calls.get("upload", 0) == 0 and J < 400:
            if w.g.sched.step() is None:
                break
            J += 1
    finally:
        w.close()
    ck.extra["check_phase_steps_max"] = max(ck.extra.get("check_phase_steps_max", 0), J)
    for m in (2, 3):
        run_one(m, None, "%d uploads started in the same turn" % m)
    points = list(range(0, J + 3))
    if ck.tier == "quick" and len(points) > 16:
        points = sorted(set(points[:8] + rng.sample(points[8:], 8)))
    for j in points:
        run_one(2, j, "second upload started %d scheduling steps after the first" % j)
        ck.hit("staggered-start-in-check-phase")


def family_takeover(ck, p, data, conv, ref, desc, n_chunks, rng):
    """A second client joins the active upload; the first one vanishes after chunk j; the helper goes on with
    the second reader (skip-ahead hashing on its side)."""
    if n_chunks < 2:
        return
    j = rng.randint(1, n_chunks - 1)
    w = World(p)
    d2 = dict(desc, takeover_after_chunk=j)
    try:
        with ck.watchdog(180, "takeover %r" % (d2,)):
            from allmydata.immutable.upload import Data
            c1, ch1 = w.client()
            c2, ch2 = w.client()
            box1, box2 = [], []
            c1.upload(Data(data, convergence=conv)).addBoth(box1.append)
            # let the first upload fetch j chunks, then start the second and cut the first
            w.g.sched.run(until=lambda: ch1.peer.calls.get("read_encrypted", 0) >= j or box1, max_steps=400000)
            c2.upload(Data(data, convergence=conv)).addBoth(box2.append)

            def delivered():
                return any(r["server"] == ch2.name and r["method"] == "upload" and r["state"] != "sent"
                           for r in w.g.calls)
            w.g.sched.run(until=lambda: delivered() or box2 or box1, max_steps=400000)
            joined = delivered() and not box1 and not box2
            if not joined:
                ck.skip("takeover-not-arranged")     # the first upload finished before the second could join
                return
            ck.hit("second-client-joined-active-upload")
            ch1.disconnect()
            w.g.sched.run(until=lambda: bool(box2), max_steps=400000, horizon=3600)
            ck.mon("takeover")
            if not box2:
                ck.violation("takeover-upload-hangs", "second client's upload never finished after the first client "
                             "of the same active upload vanished", d2)
                return
            r = box2[0]
            st = "err" if isinstance(r, Failure) else "ok"
            judge_upload(ck, "second client of an active upload after the first client vanished", st, r, ref, w, d2,
                         resumed=True)
            ck.case("takeover", key=(p["size"], p["k"], p["n"], p["chunk"], j), sample=d2)
    finally:
        w.close()


# ------------------------------------------------------------------ run

def run(ck):
    from vf import imm
    ck.rule = ("case = (size,k,happy,N,segment size,server count,helper fetch chunk size,transport profile) x fault: none | "
               "client connection cut at read_encrypted call i (not served / answer lost), i over every call | helper "
               "killed before file-system operation n of its spool, n over every operation | takeover; distinct = "
               "distinct (parameters, fault); every case is compared with a direct upload on a twin grid")
    ck.assumptions.append("the helper's fetch chunk size constant is lowered in most cases (more chunk boundaries)")
    i = 0
    full = 0

    def one(i):
        nonlocal full
        crng = ck.rng("case", i)
        p = gen_case(crng, ck.tier)
        data = imm.gen_data(crng, p["size"])
        conv = crng.choice([b"", b"conv-%d" % crng.randrange(3)])
        desc = dict(p, convergence=conv)
        with ck.watchdog(120, "direct reference %r" % (p,)):
            ref = direct_reference(p, data, conv)
        if ref is None:
            ck.skip("direct-upload-fails-too")       # e.g. happiness not reachable: nothing to compare with
            return
        with ck.watchdog(180, "equivalence %r" % (p,)):
            n_chunks = family_equivalence(ck, p, data, conv, ref, desc)
        ck.case("equivalence", key=(p["size"], p["k"], p["n"], p["segsize"], p["nservers"], p["chunk"]), sample=desc)
        if n_chunks is None:
            return
        family_reupload_after_loss(ck, p, data, conv, ref, desc, crng)
        # the enumerations are run on every case whose transfer is small enough, at least on the first
        # two cases of a run
        cost = 2 * n_chunks + 5
        if cost <= (24 if ck.tier == "quick" else 60):
            family_client_disconnect(ck, p, data, conv, ref, desc, n_chunks)
            family_helper_kill(ck, p, data, conv, ref, desc)
            family_takeover(ck, p, data, conv, ref, desc, n_chunks, crng)
            if ck.tier != "quick" or full < 2:
                family_concurrent(ck, p, data, conv, ref, desc, crng)
            full += 1

    if ck.shard == 0:
        with ck.watchdog(120, "literal boundary"):
            family_literal_boundary(ck)
    if ck.tier == "quick":
        # fixed work: the same cases whatever the load of the machine
        while i < 60 and (i < 10 or full < 4):
            i += 1
            one(i)
    else:
        while i < 400 and ck.more(min_cases=120):
            i += 1
            if ck.mine(i):
                one(i)
    ck.extra["cases_with_full_enumeration"] = full
    ck.exhaustive = True     # within each enumerated case: every read_encrypted index, every helper fs operation
    ck.require_monitor("cap-equals-direct", "shares-equal-direct", "already-present",
                       "resume-after-client-disconnect", "resume-after-helper-kill", "helper-upload-reads-back",
                       "reupload-after-share-loss", "concurrent-same-file", "concurrent-upload-reads-back")
    ck.require_reach("helper-upload-completed", "multi-chunk-fetch", "second-upload-of-present-file",
                     "client-disconnected-mid-upload", "partial-ciphertext-kept-by-helper",
                     "partial-ciphertext-survived-helper-kill", "helper-killed:write", "helper-killed:rename",
                     "reupload-with-readable-but-incomplete-share-set", "direct-reupload-restored-shares",
                     "staggered-start-in-check-phase", "two-clients-joined-one-upload",
                     "literal-size-upload-by-client-with-helper")


# MUST_CATCH (selftest/breaks_c44.py), all caught by the quick tier:
#   c44-helper-own-segment-size / c44-helper-own-total-shares  helper encodes with parameters of its own
#                                                    -> helper-upload-failed-where-direct-succeeds (client-side assert)
#   c44-resume-offset-off-by-one / c44-resume-refetches-last-byte  CHKCiphertextFetcher resume offset +-1
#                                                    -> resumed-helper-upload-failed
#   c44-already-present-check-skipped                -> present-file-uploaded-again, present-file-not-reported-as-present
#   seeded/C44-5 (no second look at _active_uploads after the asynchronous check: two fetchers append to one spool file)
#                                                    -> concurrent-helper-upload-cap-differs / -leaves-bogus-shares / file-unreadable-...
#   seeded/C44-2 (already-present declared at k instead of N distinct shares) -> helper-does-not-restore-missing-shares
#   c44-client-skip-ahead-off-by-one                 RemoteEncryptedUploadable skip-ahead -> resumed-helper-upload-failed
# Not a break of C44 (stays green, rightly): ignoring a complete CHK_encoding spool file (re-fetch, same result).
