"""Shared harness for the mutable-file concurrency checks C12 and C13.

Nothing here re-implements the code under test.  It provides

* ``tag_client``: every ``callRemote`` of one client is labelled with that client's tag in the grid's wire
  log (the grid's servers are shared by all clients, so the log alone cannot tell the senders apart).  Done by
  overriding, on the client's own ``VBroker`` *instance*, the methods that hand out ``IServer`` objects.
* an independent parser of the mutable share container / SDMF+MDMF prefixes (typed from the layout comments of
  ``storage/mutable.py`` and ``mutable/layout.py``) used to read the PRE-state of a slot at delivery time;
* ``WireMon``: recorder of send / server-delivery / response-delivery events with a logical clock, per-client
  knowledge ("what did this client last observe for (server, shnum)") derived from the answers it received;
* ``Dfs``: stateless depth-first exploration of message-delivery orders by re-execution, with sleep sets and a
  visited set keyed on the per-process projections of the delivery history (Mazurkiewicz-trace normal form).
"""
import hashlib
import os
import struct

from vf import env

DATA_OFFSET = 468          # storage/mutable.py: header (32+20+32+8+8) + 4 lease slots of 92 bytes
DATA_LENGTH_OFFSET = 84
SDMF_CS = 57               # >B Q 32s 16s   version(0) seqnum roothash IV
MDMF_CS = 41               # >B Q 32s       version(1) seqnum roothash
WRITE = "slot_testv_and_readv_and_writev"
READ = "slot_readv"


class fast_tmp(object):
    """Scratch grids on tmpfs when there is one (mkdir/rmdir on the root disk cost 10x the code under test)."""

    def __enter__(self):
        import tempfile
        self._saved = tempfile.tempdir
        if not os.environ.get("TMPDIR") and os.path.isdir("/dev/shm") and os.access("/dev/shm", os.W_OK):
            tempfile.tempdir = "/dev/shm"
        return self

    def __exit__(self, *a):
        import tempfile
        tempfile.tempdir = self._saved
        return False


# ------------------------------------------------------------------ share parsing

def container_data(path):
    """Share data stored in a mutable container file; None if there is no file."""
    try:
        with open(path, "rb") as f:
            raw = f.read()
    except (FileNotFoundError, IsADirectoryError):
        return None
    if len(raw) < 100:
        return b""
    (dl,) = struct.unpack(">Q", raw[DATA_LENGTH_OFFSET:DATA_LENGTH_OFFSET + 8])
    return raw[DATA_OFFSET:DATA_OFFSET + dl]


def parse_cs(data):
    """(fmt, seqnum, roothash, salt, checkstring bytes) from the first bytes of a share; None for no/empty share,
    ("?", ...) for something unparseable."""
    if not data:
        return None
    v = data[0]
    if v == 0 and len(data) >= SDMF_CS:
        seqnum, roothash, salt = struct.unpack(">Q32s16s", data[1:SDMF_CS])
        return ("SDMF", seqnum, roothash, salt, bytes(data[:SDMF_CS]))
    if v == 1 and len(data) >= MDMF_CS:
        seqnum, roothash = struct.unpack(">Q32s", data[1:MDMF_CS])
        return ("MDMF", seqnum, roothash, None, bytes(data[:MDMF_CS]))
    return ("?", -1, b"", None, bytes(data[:SDMF_CS]))


def parse_prefix(data):
    """Signed prefix: dict(fmt, seqnum, roothash, k, n, segsize, datalen, cs, prefix) or None."""
    c = parse_cs(data)
    if c is None or c[0] == "?":
        return None
    if c[0] == "SDMF":
        if len(data) < 75:
            return None
        k, n, segsize, datalen = struct.unpack(">BBQQ", data[57:75])
        prefix = bytes(data[:75])
    else:
        if len(data) < 59:
            return None
        k, n, segsize, datalen = struct.unpack(">BBQQ", data[41:59])
        prefix = bytes(data[:59])
    return dict(fmt=c[0], seqnum=c[1], roothash=c[2], k=k, n=n, segsize=segsize, datalen=datalen, cs=c[4],
                prefix=prefix)


def csid(cs):
    """Short printable id of a checkstring."""
    if cs is None:
        return None
    c = parse_cs(cs)
    if c is None:
        return None
    return "%s#%d:%s" % (c[0], c[1], c[2][:4].hex())


def disk_versions(g, si):
    """Independent scan: {prefix bytes: dict(info, shnums=set, slots=[(server, shnum)])}."""
    out = {}
    for (vs, shnum, path) in g.find_shares(si):
        p = parse_prefix(container_data(path) or b"")
        key = p["prefix"] if p else b"?"
        e = out.setdefault(key, dict(info=p, shnums=set(), slots=[]))
        e["shnums"].add(shnum)
        e["slots"].append((vs.name, shnum))
    return out


def apply_head(pre, datav, upto=128):
    """First `upto` bytes of the share after applying write vectors to `pre` (bytes or None)."""
    buf = bytearray((pre or b"")[:upto])
    for (off, data) in datav:
        if off >= upto:
            continue
        end = min(upto, off + len(data))
        if len(buf) < end:
            buf.extend(b"\x00" * (end - len(buf)))
        buf[off:end] = data[:end - off]
    return bytes(buf)


# ------------------------------------------------------------------ client tagging

class _TaggedWire(object):
    def __init__(self, vserver, tag, mon):
        self._vs, self._tag, self._mon = vserver, tag, mon

    def __getattr__(self, name):
        return getattr(self._vs.wire, name)

    def callRemote(self, methname, *args, **kwargs):
        from twisted.internet import defer
        from twisted.python.failure import Failure
        g = self._vs.grid
        # client-side transport failures: the attempt itself fails with a bare exception (what the HTTP storage
        # client produces: ConnectionRefusedError, TimeoutError, ...), nothing reaches the server
        for f in getattr(g, "vf_client_faults", ()):
            if (f["tag"] in (None, self._tag) and f["server"] == self._vs.name and f["method"] in (None, methname)
                    and (f.get("pred") is None or f["pred"](args))):
                f["seen"] += 1
                if f["nth"] is None or f["seen"] == f["nth"]:
                    f["fired"] += 1
                    d = defer.Deferred()
                    from foolscap.eventual import eventually
                    eventually(d.errback, Failure(f["exc"]("injected: %s to %s" % (methname, self._vs.name))))
                    return d
        # requests held back on their way out (a slow path between this client and that server)
        holds = getattr(g, "vf_holds", None)
        if holds:
            for key, queue in holds.items():
                (t, srv, meth) = key
                if t == self._tag and srv in (None, self._vs.name) and meth in (None, methname):
                    d = defer.Deferred()
                    queue.append((self, methname, args, kwargs, d))
                    return d
        return self._send(methname, args, kwargs)

    def _send(self, methname, args, kwargs):
        g = self._vs.grid
        n0 = len(g.calls)
        d = self._vs.wire.callRemote(methname, *args, **kwargs)
        mon = self._mon[0]
        for rec in g.calls[n0:]:
            rec["client"] = self._tag
            rec["label"] = "%s>%s#%d" % (self._vs.name, methname, self._vs.calls.get(methname, 0))
            if mon is not None:
                mon.on_send(rec)
                d.addBoth(mon.on_rsp, rec)
        return d

    def callRemoteOnly(self, methname, *args, **kwargs):
        d = self.callRemote(methname, *args, **kwargs)
        d.addErrback(lambda f: None)
        return None


def hold(g, tag, server=None, method=None):
    """Hold back the matching requests of one client until release()."""
    if not hasattr(g, "vf_holds"):
        g.vf_holds = {}
    g.vf_holds.setdefault((tag, server, method), [])
    return (tag, server, method)


def held(g, key):
    return len(getattr(g, "vf_holds", {}).get(key, ()))


def release(g, key):
    queue = getattr(g, "vf_holds", {}).pop(key, [])
    for (tw, methname, args, kwargs, d) in queue:
        tw._send(methname, args, kwargs).chainDeferred(d)
    return len(queue)


def client_fault(g, server, exc, method=None, nth=None, tag=None, pred=None):
    """The nth matching request of a client to `server` fails on the client side with a bare exc(...).
    pred(args) narrows the match (e.g. only reads of named share numbers = block fetches, not map-update queries)."""
    if not hasattr(g, "vf_client_faults"):
        g.vf_client_faults = []
    f = dict(server=server, exc=exc, method=method, nth=nth, tag=tag, seen=0, fired=0, pred=pred)
    g.vf_client_faults.append(f)
    return f


def tag_client(g, c, tag, monbox, hidden=()):
    """Label every wire request of client `c` with `tag`; `hidden` = server names this client does not see.
    `monbox` is a one-element list holding the WireMon (or None)."""
    from vf.grid import VIServer
    from allmydata.storage_client import _StorageServer

    class TaggedIServer(VIServer):
        def __init__(self, vserver):
            VIServer.__init__(self, vserver)
            self._tw = _TaggedWire(vserver, tag, monbox)

        def __repr__(self):
            return "<IServer %s for %s>" % (self.vserver.name, tag)

        def get_rref(self):
            return self._tw

        def get_storage_server(self):
            return _StorageServer(lambda: self._tw)

    broker = c.get_storage_broker()
    cache = {}
    hidden = set(hidden)

    def wrap(vs):
        if vs.name not in cache:
            cache[vs.name] = TaggedIServer(vs)
        return cache[vs.name]

    def get_connected_servers():
        return [wrap(vs) for vs in g.servers
                if (vs.connected or vs.zombie) and not vs.hidden and vs.name not in hidden]

    def get_known_servers():
        return [wrap(vs) for vs in g.servers]

    def get_server_for_id(serverid):
        for vs in g.servers:
            if vs.serverid == serverid:
                return wrap(vs)
        return None

    broker.get_connected_servers = get_connected_servers
    broker.get_known_servers = get_known_servers
    broker.get_server_for_id = get_server_for_id
    broker.get_stub_server = get_server_for_id
    broker.vf_tag = tag
    broker.vf_hidden = hidden
    return broker


# ------------------------------------------------------------------ wire monitor

class WireMon(object):
    """Logical-clock recorder for one storage index."""

    def __init__(self, g, si):
        self.g, self.si = g, si
        self.tick = 0
        self.obs = {}        # client -> {(server, shnum): (tick, cs-bytes-or-None)}
        self.scan = {}       # client -> {server: tick of the last all-shares read answered}
        self.seen = {}       # client -> {cs: tick at which the client was first shown that version}
        self.writes = []     # one dict per (write request, shnum)
        self.reads = []
        self.alarms = []     # (key, what, witness)
        self.lenient = 0
        self.by_label = {}
        self._ml_pos = 0
        self._proc = {}
        self.owner = {}      # cs -> tag of the client that first wrote it ("init" for pre-existing)
        g.pre_delivery = self._pre
        g.post_delivery = self._post

    # -- knowledge
    def known(self, client, server, shnum):
        """('cs', bytes) | ('nothing',) | ('never-looked',)"""
        e = self.obs.get(client, {}).get((server, shnum))
        s = self.scan.get(client, {}).get(server)
        if e is not None and (s is None or e[0] >= s):
            return ("cs", e[1]) if e[1] is not None else ("nothing",)
        if s is not None:
            return ("nothing",)
        return ("never-looked",)

    def snapshot(self, client):
        """What `client` has been shown so far (to be compared later with known_in)."""
        return (dict(self.obs.get(client, {})), dict(self.scan.get(client, {})))

    @staticmethod
    def known_in(snap, server, shnum):
        obs, scan = snap
        e, sc = obs.get((server, shnum)), scan.get(server)
        if e is not None and (sc is None or e[0] >= sc):
            return ("cs", e[1]) if e[1] is not None else ("nothing",)
        if sc is not None:
            return ("nothing",)
        return ("never-looked",)

    def _observe(self, client, server, shnum, cs):
        self.obs.setdefault(client, {})[(server, shnum)] = (self.tick, cs)
        if cs is not None:
            self.seen.setdefault(client, {}).setdefault(cs, self.tick)

    def _mine(self, rec):
        return rec["args"] and rec["args"][0] == self.si and rec["method"] in (READ, WRITE)

    # -- events
    def on_send(self, rec):
        self.tick += 1
        rec["tick_send"] = self.tick
        self.by_label[rec["label"]] = rec
        if not self._mine(rec):
            return
        if rec["method"] == WRITE:
            tw = rec["args"][2]
            rec["vf_expected"] = {sh: self.known(rec["client"], rec["server"], sh) for sh in tw}

    def _pre(self, vs, meth, args, rec):
        self.tick += 1
        rec["tick_srv"] = self.tick
        if meth != WRITE or not args or args[0] != self.si:
            return
        paths = vs.shares_of(self.si)
        pre = {}
        for sh in args[2]:
            pre[sh] = container_data(paths[sh]) if sh in paths else None
        rec["vf_pre"] = pre
        # ground truth about the whole slot on this server (other share numbers included), independent of what the
        # server chooses to tell the client in its answer
        allcs = {}
        for sh, p in paths.items():
            c = parse_cs(container_data(p) or b"")
            allcs[sh] = c[4] if c else None
        rec["vf_pre_all"] = allcs

    def _post(self, vs, meth, args, rec):
        if "client" not in rec or not args or args[0] != self.si:
            return
        client = rec["client"]
        if meth == READ:
            self.reads.append(rec)
            return
        if meth != WRITE or "vf_pre" not in rec:
            return
        res = rec.get("result")
        ok = isinstance(res, tuple) and len(res) == 2
        wrote = bool(res[0]) if ok else None
        paths = vs.shares_of(self.si)
        for sh, (testv, datav, newlen) in args[2].items():
            pre = rec["vf_pre"][sh]
            pre_c = parse_cs(pre) if pre else None
            pre_cs = pre_c[4] if pre_c else None
            if pre_cs is not None:
                self.owner.setdefault(pre_cs, "init")
            new_c = parse_cs(apply_head(pre if wrote is not False else None, datav))
            new_cs = new_c[4] if new_c else None
            if wrote:
                post = container_data(paths[sh]) if sh in paths else None
                post_c = parse_cs(post) if post else None
                if post_c:
                    new_cs = post_c[4]
            if new_cs is not None:
                self.owner.setdefault(new_cs, client)
            exp = rec.get("vf_expected", {}).get(sh, ("never-looked",))
            w = dict(client=client, server=vs.name, shnum=sh, wrote=wrote, pre=pre_cs, new=new_cs,
                     expected=exp, testv=testv, rec=rec, tick=rec["tick_srv"], raised=not ok)
            self.writes.append(w)
            if wrote:
                exp_cs = exp[1] if exp[0] == "cs" else None
                demands_empty = any(off == 0 and ln >= 1 and spec == b"" for (off, ln, _op, spec) in testv)
                if pre_cs is None and exp_cs is not None and demands_empty:
                    # the slot is empty and the request was conditional on exactly that ("does not exist yet"); the
                    # version this client was once shown there came in an answer its survey no longer waited for
                    self.lenient += 1
                elif pre_cs != exp_cs:
                    if pre_cs is not None and exp[0] != "cs":
                        key = "write-applied-over-share-the-publisher-never-saw"
                        what = ("server %s applied %s's write to sh%d although the slot held %s and %s had observed %s there"
                                % (vs.name, client, sh, csid(pre_cs), client, exp[0]))
                    else:
                        key = "write-applied-over-version-changed-since-survey"
                        what = ("server %s applied %s's write to sh%d over %s (written by %s) although %s last observed %s there"
                                % (vs.name, client, sh, csid(pre_cs), self.owner.get(pre_cs), client, csid(exp_cs)))
                    self.alarms.append((key, what, self.describe_write(w)))

    def on_rsp(self, res, rec):
        self.tick += 1
        rec["tick_rsp"] = self.tick
        if not self._mine(rec):
            return res
        client, server = rec["client"], rec["server"]
        from twisted.python.failure import Failure
        if isinstance(res, Failure):
            rec["vf_failed"] = True
            return res
        try:
            if rec["method"] == READ:
                shares, readv = rec["args"][1], rec["args"][2]
                covers = any(off == 0 and ln >= MDMF_CS for (off, ln) in readv)
                if covers:
                    idx = [i for i, (off, ln) in enumerate(readv) if off == 0 and ln >= MDMF_CS][0]
                    if not shares:
                        self.scan.setdefault(client, {})[server] = self.tick
                    for sh, datav in res.items():
                        c = parse_cs(datav[idx])
                        self._observe(client, server, sh, c[4] if c else None)
                    for sh in (shares or []):
                        if sh not in res:
                            self._observe(client, server, sh, None)
            else:
                wrote, read_data = res
                tw = rec["args"][2]
                for sh, datav in read_data.items():
                    if sh in tw and wrote:
                        continue
                    c = parse_cs(datav[0]) if datav else None
                    self._observe(client, server, sh, c[4] if c else None)
                if wrote:
                    for w in self.writes:
                        if w["rec"] is rec:
                            self._observe(client, server, w["shnum"], w["new"])
        except Exception as e:  # the monitor must never disturb the run
            rec["vf_mon_error"] = repr(e)
        return res

    def describe_write(self, w):
        rec = w["rec"]
        return dict(client=w["client"], server=w["server"], shnum=w["shnum"], wrote=w["wrote"],
                    pre=csid(w["pre"]), pre_written_by=self.owner.get(w["pre"]), new=csid(w["new"]),
                    publisher_last_observed=(csid(w["expected"][1]) if w["expected"][0] == "cs" else w["expected"][0]),
                    testv=[(o, l, op, csid(s) or s.hex()) for (o, l, op, s) in w["testv"]],
                    label=rec.get("label"), sent_tick=rec.get("tick_send"), delivered_tick=rec.get("tick_srv"))

    # -- canonical key of the delivery history (per-process projections)
    def state_key(self):
        ml = self.g.sched.msglog
        while self._ml_pos < len(ml):
            _, label = ml[self._ml_pos]
            self._ml_pos += 1
            if ">" in label:
                rec = self.by_label.get(label)
                proc = "S" + label.split(">", 1)[0]
                extra = ""
                if rec is not None:
                    r = rec.get("result")
                    extra = "%s/%s" % (rec.get("client"), r[0] if (rec["method"] == WRITE and isinstance(r, tuple)) else "")
                item = label + "|" + extra
            else:
                rec = self.by_label.get(label.replace("<", ">", 1))
                proc = "C" + str(rec.get("client") if rec else "?")
                item = label
            h = self._proc.get(proc)
            if h is None:
                h = self._proc[proc] = hashlib.blake2b(digest_size=8)
            h.update(item.encode() + b";")
        top = hashlib.blake2b(digest_size=10)
        for p in sorted(self._proc):
            top.update(p.encode() + self._proc[p].digest())
        return top.digest()

    def heads(self, labels):
        """Per-connection FIFO on top of the 'free' transport profile: of the deliverable messages keep, for every
        (client, server, direction), the one that was posted first."""
        best = {}
        for l in labels:
            if not is_net(l):
                continue
            if ">" in l:
                rec = self.by_label.get(l)
                server, d = l.split(">", 1)[0], "req"
                order = rec["n"] if rec else 0
            else:
                rec = self.by_label.get(l.replace("<", ">", 1))
                server, d = l.split("<", 1)[0], "rsp"
                order = rec.get("tick_srv", 0) if rec else 0
            key = (rec.get("client") if rec else "?", server, d)
            if key not in best or order < best[key][0]:
                best[key] = (order, l)
        return sorted(l for (_, l) in best.values())

    def log_tail(self, n=40):
        out = []
        for rec in self.g.calls:
            if "client" in rec and self._mine(rec):
                r = rec.get("result")
                out.append("%s %s %s send@%s srv@%s rsp@%s %s" % (
                    rec["client"], rec["label"], sorted(rec["args"][2]) if rec["method"] == WRITE else rec["args"][1],
                    rec.get("tick_send"), rec.get("tick_srv"), rec.get("tick_rsp"),
                    ("wrote=%s" % (r[0],)) if (rec["method"] == WRITE and isinstance(r, tuple)) else ""))
        return out[-n:]


# ------------------------------------------------------------------ systematic exploration

class Prune(Exception):
    """Raised by the chooser to abandon a run whose state was already explored (or is sleep-set blocked)."""


def _parse_label(label):
    if ">" in label:
        s, rest = label.split(">", 1)
        return s, "req"
    s, rest = label.split("<", 1)
    return s, "rsp"


def independent(a, b):
    """Conservative independence of two enabled net events (see module docstring of c12)."""
    sa, da = _parse_label(a)
    sb, db = _parse_label(b)
    if da == "req" and db == "req":
        return sa != sb
    if da != db:
        return True
    return False       # two responses: may race for the order of follow-up requests on one channel


def is_net(label):
    return label not in ("ev", "now") and not label.startswith("thr")


class DfsChooser(object):
    """Chooser for one run.  Local steps (eventual queue, thread completions, due timers) are taken greedily
    in a fixed order; only message deliveries are choice points.  `heads(labels)` restricts the deliverable
    messages (per-connection FIFO).  `visited` maps state key -> sleep set the state was explored with."""

    def __init__(self, prefix, sleep, visited, keyfn, heads=None):
        self.prefix = list(prefix)
        self.sleep0 = set(sleep)            # sleep set valid right after the last prefix choice
        self.sleep = set() if prefix else set(sleep)
        self.visited = visited
        self.keyfn = keyfn
        self.heads = heads
        self.points = []       # (allowed labels, chosen label, sleep set before choosing)
        self.active = False
        self.diverged = False
        self.pruned = None

    def __call__(self, labels):
        if "ev" in labels:
            return labels.index("ev")
        for i, l in enumerate(labels):
            if l.startswith("thr"):
                return i
        if "now" in labels:
            return labels.index("now")
        if not self.active:
            return 0
        allowed = self.heads(labels) if self.heads is not None else list(labels)
        if len(allowed) == 1:
            # forced move: never a choice point (same rule while replaying a prefix and while exploring)
            only = allowed[0]
            if len(self.points) >= len(self.prefix) and only in self.sleep:
                self.pruned = "sleep"
                raise Prune("sleep-blocked")
            self.sleep = set(x for x in self.sleep if independent(x, only))
            return labels.index(only)
        pos = len(self.points)
        if pos < len(self.prefix):
            want = self.prefix[pos]
            if want not in allowed:
                self.diverged = True
                raise Prune("diverged")
            self.points.append((tuple(allowed), want, None))
            if pos + 1 == len(self.prefix):
                self.sleep = set(self.sleep0)
            return labels.index(want)
        key = self.keyfn()
        zp = frozenset(self.sleep)
        z = self.visited.get(key)
        if z is not None:
            if z <= zp:
                self.pruned = "visited"
                raise Prune("visited")
            # reached before with transitions asleep that are awake now: explore exactly those
            self.visited[key] = z & zp
            self.sleep = set(zp) | (set(allowed) - set(z))
        else:
            self.visited[key] = zp
        cands = [l for l in allowed if l not in self.sleep]
        if not cands:
            self.pruned = "sleep"
            raise Prune("sleep-blocked")
        choice = cands[0]
        self.points.append((tuple(allowed), choice, frozenset(self.sleep)))
        self.sleep = set(x for x in self.sleep if independent(x, choice))
        return labels.index(choice)


class Dfs(object):
    """Stateless DFS by re-execution.  run_fn(chooser) executes one case from scratch and returns anything;
    it must install `chooser` as g.sched.chooser and set chooser.active=True when the explored phase begins."""

    def __init__(self, run_fn, keyfn_box, heads_box=None):
        self.run_fn = run_fn
        self.keyfn_box = keyfn_box
        self.heads_box = heads_box
        self.visited = {}
        self.todo = [([], frozenset())]
        self.runs = 0
        self.complete = 0
        self.pruned_visited = 0
        self.pruned_sleep = 0
        self.diverged = 0
        self.schedules = set()

    def finished(self):
        return not self.todo

    def step(self):
        """One run.  Returns (chooser, result-or-None)."""
        prefix, sleep = self.todo.pop()
        heads = (lambda labels: self.heads_box[0](labels)) if self.heads_box is not None else None
        ch = DfsChooser(prefix, sleep, self.visited, lambda: self.keyfn_box[0](), heads)
        self.runs += 1
        res = self.run_fn(ch)
        if ch.diverged:
            self.diverged += 1
        elif ch.pruned == "visited":
            self.pruned_visited += 1
        elif ch.pruned == "sleep":
            self.pruned_sleep += 1
        else:
            self.complete += 1
        # push unexplored alternatives of the choice points discovered beyond the prefix (deepest last => DFS)
        new = []
        chosen = [p[1] for p in ch.points]
        for i in range(len(prefix), len(ch.points)):
            labels, choice, sleep_before = ch.points[i]
            sl = set(sleep_before)
            done = [choice]
            for alt in labels:
                if alt == choice or alt in sleep_before or not is_net(alt):
                    continue
                alt_sleep = frozenset(x for x in (sl | set(done)) if independent(x, alt))
                new.append((chosen[:i] + [alt], alt_sleep))
                done.append(alt)
        self.todo.extend(new)
        return ch, res
