"""C17 helper: lease secrets and write enablers that reach a storage server over the HTTP storage protocol.

    real client-side code (Tahoe2ServerSelector.get_shareholders, immutable Checker(add_lease), MutableFileNode
    create_with_keys / overwrite: servermap update + publish)
      -> real _HTTPStorageServer -> real StorageClient -> in-memory HTTP (treq StubTreq) -> real HTTPServer
      -> real StorageServer on a temp directory                                   (vf/http.py HttpStorage)

Decided on what the server STORED: every lease record of the share (StorageServer.get_leases / get_slot_leases)
must answer is_renew_secret / is_cancel_secret for the secrets this module derives with hashlib from
(client lease secret, storage index, server lease seed) -- docs/specifications/lease.rst and
derive_renewal_secret.py -- and the mutable container must accept the independently derived write enabler.
"""
import hashlib


def http_workload(ck):
    from vf import env
    from vf.http import HttpStorage
    from vf.grid import KEYPOOL
    from vf.checks.c17 import Ref, b32
    from allmydata.storage_client import NativeStorageServer
    from allmydata.client import SecretHolder, _valid_config
    from allmydata.node import config_from_string
    from allmydata.immutable import upload
    from allmydata.immutable.checker import Checker
    from allmydata.monitor import Monitor
    from allmydata.mutable.filenode import MutableFileNode
    from allmydata.mutable.publish import MutableData
    from allmydata.interfaces import SDMF_VERSION, MDMF_VERSION, BadWriteEnablerError
    from allmydata import uri

    rng = ck.rng("http")
    cfg = config_from_string("/nonexistent-vf-c17", "", "[client]\n", _valid_config())
    ncases = 3 if ck.tier == "quick" else 12
    for case in range(ncases):
        if not ck.mine(case):
            continue
        if ck.out_of_time() and case >= 1:
            break
        KEYPOOL.rewind()
        tubid = rng.randbytes(20)
        h = HttpStorage(nodeid=tubid, swissnum=b"c17-" + rng.randbytes(8).hex().encode())
        try:
            def drive(d, what):
                st, res = h.drive(d)
                if st != "ok":
                    raise RuntimeError("%s: %s %s" % (what, st, getattr(res, "value", res)))
                return res

            ver = drive(h.istorage.get_version(), "get_version")
            furl = "pb://%s@tcp:127.0.0.1:1/%s" % (b32(tubid), b32(rng.randbytes(10)))
            server = NativeStorageServer(b"v0-" + b32(hashlib.sha256(b"sid" + tubid).digest()).encode("ascii"),
                                         {"anonymous-storage-FURL": furl, "nickname": "http",
                                          "permutation-seed-base32": b32(hashlib.sha1(b"pseed" + tubid).digest())},
                                         None, {}, cfg)
            server.get_storage_server = lambda: h.istorage          # the real HTTP IStorageServer adapter
            server.get_version = lambda: ver
            server.is_connected = lambda: True
            if server.get_lease_seed() != tubid or server.get_permutation_seed() == tubid:
                ck.inconclusive_because("HTTP test server does not separate lease seed and permutation seed")

            class Broker(object):
                def get_servers_for_psi(self, si, for_upload=False):
                    return [server]

                def get_connected_servers(self):
                    return frozenset([server])

                def get_known_servers(self):
                    return frozenset([server])

                def get_all_serverids(self):
                    return frozenset([server.get_serverid()])

                def get_nickname_for_serverid(self, sid):
                    return "http"

                def get_server_for_id(self, sid):
                    return server

            def judge_leases(leases, lease_secrets, si, what):
                """every stored lease must belong to exactly one of the clients, under the specified derivation."""
                leases = list(leases)
                ck.mon("http-lease-oracle")
                ck.hit("http-leases:" + what)
                wit = {"op": what, "storage_index": si, "tubid": tubid, "leases": len(leases)}
                if len(leases) != len(lease_secrets):
                    ck.violation("http-lease-count:" + what, "%d lease records stored for %d distinct clients (a renewal "
                                 "with the same secrets must not add a record)" % (len(leases), len(lease_secrets)), wit)
                for ls in lease_secrets:
                    want_r = Ref.renewal_secret(ls, si, tubid)
                    want_c = Ref.cancel_secret(ls, si, tubid)
                    if not any(L.is_renew_secret(want_r) for L in leases):
                        swapped = any(L.is_renew_secret(want_c) for L in leases)
                        ck.violation("http-stored-renew-secret:" + what,
                                     "no lease stored by the server over HTTP answers to the renewal secret derived as "
                                     "specified from (client lease secret, storage index, server lease seed) "
                                     "(docs/specifications/lease.rst)%s" % (" -- a lease answers to the specified CANCEL "
                                                                            "secret as its renewal secret" if swapped else ""),
                                     dict(wit, lease_secret=ls))
                    if not any(L.is_cancel_secret(want_c) for L in leases):
                        ck.violation("http-stored-cancel-secret:" + what,
                                     "no lease stored by the server over HTTP answers to the cancel secret derived as "
                                     "specified (docs/specifications/lease.rst, 'Cancel Secrets')", dict(wit, lease_secret=ls))

            ls_a, ls_b = rng.randbytes(32), rng.randbytes(32)
            sh_a, sh_b = SecretHolder(ls_a, b"C" * 32), SecretHolder(ls_b, b"C" * 32)

            # ---------- immutable: the upload's allocate_buckets, then add_lease from the checker (same and other client)
            si = rng.randbytes(16)
            sel = upload.Tahoe2ServerSelector("c17-http", upload_status=upload.UploadStatus(), reactor=env.reactor)
            trackers, _already = drive(sel.get_shareholders(Broker(), sh_a, si, 100, 100, 1, 1, 1, 1, 50), "get_shareholders")
            for t in trackers:
                for shnum, bp in sorted(t.buckets.items()):
                    # finish the share so that the server files it (the lease was fixed by allocate_buckets)
                    drive(bp._rref.callRemote("write", 0, rng.randbytes(t.allocated_size)), "bucket write")
                    drive(bp._rref.callRemote("close"), "bucket close")
            judge_leases(h.ss.get_leases(si), [ls_a], si, "upload.allocate_buckets")
            vcap = uri.CHKFileVerifierURI(si, b"U" * 32, 1, 1, 100)
            drive(Checker(vcap, [server], False, True, sh_a, Monitor()).start(), "check --add-lease (same client)")
            h.settle()
            judge_leases(h.ss.get_leases(si), [ls_a], si, "checker.add_lease-renewal")
            drive(Checker(vcap, [server], False, True, sh_b, Monitor()).start(), "check --add-lease (other client)")
            h.settle()
            judge_leases(h.ss.get_leases(si), [ls_a, ls_b], si, "checker.add_lease-second-client")
            ck.case("http-immutable", key=(case, si, ls_a, ls_b), nontrivial=True,
                    sample={"storage_index": si, "tubid": tubid, "leases": 2} if case == 0 else None)

            # ---------- mutable: create (publish), overwrite (servermap + publish), both formats
            for version, vname in ((SDMF_VERSION, "sdmf"), (MDMF_VERSION, "mdmf")):
                node = MutableFileNode(Broker(), sh_a, {"k": 1, "n": 1, "happy": 1}, None)
                priv, pub = KEYPOOL.next()
                drive(node.create_with_keys((pub, priv), MutableData(rng.randbytes(rng.randint(1, 300))), version=version),
                      "create mutable " + vname)
                msi = node.get_storage_index()
                writekey = uri.from_string(node.get_uri()).writekey
                judge_leases(h.ss.get_slot_leases(msi), [ls_a], msi, "mutable-create-" + vname)
                drive(node.overwrite(MutableData(rng.randbytes(rng.randint(1, 300)))), "overwrite " + vname)
                judge_leases(h.ss.get_slot_leases(msi), [ls_a], msi, "mutable-overwrite-" + vname)
                # the write enabler the container stored: an empty write with independently derived secrets
                ck.mon("http-write-enabler-oracle")
                want_we = Ref.ssk_write_enabler_hash(writekey, tubid)
                try:
                    h.ss.slot_testv_and_readv_and_writev(
                        msi, (want_we, Ref.renewal_secret(ls_a, msi, tubid), Ref.cancel_secret(ls_a, msi, tubid)), {}, [])
                except BadWriteEnablerError:
                    ck.violation("http-stored-write-enabler:" + vname,
                                 "the mutable container created over HTTP does not accept the write enabler derived as "
                                 "specified from (writekey, server nodeid) (docs/specifications/mutable.rst)",
                                 {"writekey": writekey, "tubid": tubid})
                judge_leases(h.ss.get_slot_leases(msi), [ls_a], msi, "mutable-after-reference-write-" + vname)
                ck.case("http-mutable-" + vname, key=(case, msi, ls_a), nontrivial=True)
        except RuntimeError as e:
            ck.inconclusive_because("HTTP workload operation did not succeed on an honest server (case %d): %s" % (case, e))
        finally:
            h.close()
