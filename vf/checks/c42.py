"""C42 backup database reuses caps only for unchanged content."""
META = {
    "level": "exploration",
    "technique": "history oracle beside the real BackupDB_v2 on a real sqlite file: seeded histories of stat changes, uploads, checks, directory snapshots and db reopen, with backupdb's os.stat / time / random substituted by harness-controlled shims",
    "text": "Runs the real allmydata.scripts.backupdb (get_backupdb, check_file, FileResult.did_upload / should_check / did_check_healthy, check_directory, DirectoryResult.did_create / did_check_healthy, v1->v2 schema upgrade) on a temporary sqlite file through histories of <=40 steps over <=5 absolute paths (plus path aliases) and, in 60% of the histories, up to 4 more files in two real directories that take turns as working directory and $HOME (relative and '~' spellings, chdir / HOME changes between operations): size-only / mtime-only / ctime-only changes, touching back to earlier values, renames, uploads, re-uploads with a different or a shared cap, stale FileResults completed late, use_timestamps=False, health checks at virtual ages around the 1- and 2-month thresholds, db close/reopen, directory snapshots with near-miss mutations (one name, one cap, an added/removed entry, two caps swapped or three rotated among unchanged names, shifted name/cap boundary, unicode normalisation). Oracle map: was_uploaded() is a cap only if the most recent did_upload for that path recorded exactly the current (size, mtime, ctime), timestamps are trusted, and it is that record's cap; was_created() is a dircap only for an identical name->cap mapping and it is a dircap recorded for exactly that mapping. Sampled.",
    "note": "Reuse is judged in the safe direction only (the statement says 'only when'); that reuse happens at all is a required reach counter. stat values are integers as os.stat()[ST_*] delivers them.",
}
LEVEL = "exploration"
BUDGET = {"quick": 40, "thorough": 240}
SHARDS = {"quick": 1, "thorough": 8}

import os
import shutil
import tempfile
import unicodedata

from vf import env  # noqa

BASE = u"/vf-virtual/backup-root"
DAY = 24 * 60 * 60
MONTH = 30 * DAY


def tob(x):
    return x.encode("utf-8") if isinstance(x, str) else x


def run(ck):
    from allmydata.scripts import backupdb

    ck.rule = ("history = <=40 steps over <=5 paths (+aliases) on one sqlite file: stat mutations (size/mtime/ctime only, "
               "all, touch-back, rename), check_file(use_timestamps T/F) with immediate / late / no did_upload (new, same or "
               "shared cap), did_check_healthy, clock jumps (seconds..months), reopen, v1->v2 upgrade, directory snapshot "
               "checks with near-miss mutations; distinct = full step list; non-trivial = history contains a reuse and a refusal")
    rng = ck.rng("c42")

    class Clock(object):
        now = 1_700_000_000.0
        def time(self):
            return self.now
    clock = Clock()

    class Rand(object):
        def random(self):
            return rng.random()

    class OsShim(object):
        """backupdb sees this instead of the os module: stat() is answered from a table"""
        def __init__(self):
            self.table = {}
            self.calls = 0
        def stat(self, path):
            self.calls += 1
            self.last = path
            try:
                size, mtime, ctime = self.table[path]
            except KeyError:
                raise FileNotFoundError(2, "No such file or directory", path)
            return os.stat_result((0o100644, 1, 1, 1, 0, 0, size, mtime, mtime, ctime))
        def __getattr__(self, name):
            return getattr(os, name)
    shim = OsShim()
    saved = (backupdb.os, backupdb.time, backupdb.random)
    backupdb.os, backupdb.time, backupdb.random = shim, clock, Rand()

    capno = [0]

    def newcap(prefix=b"URI:CHK:"):
        capno[0] += 1
        c = prefix + b"k%06d:h%06d:3:10:%d" % (capno[0], rng.randrange(10 ** 6), rng.randrange(10 ** 6))
        return c if rng.random() < .85 else c.decode("ascii")

    def spelled(path):
        d, f = os.path.split(path)
        # a file in the current working directory is mostly named relatively, one in $HOME mostly with "~"
        if d == os.getcwd() and rng.random() < .8:
            ck.hit("relative-spelling")
            return rng.choice([f, f, u"./" + f, u"sub/../" + f])
        if d == os.environ.get("HOME") and rng.random() < .8:
            ck.hit("tilde-spelling")
            return rng.choice([u"~/" + f, u"~/./" + f])
        return rng.choice([path, path, d + u"/./" + f, d + u"/sub/../" + f, d + u"//" + f])

    saved_cwd, saved_home = os.getcwd(), os.environ.get("HOME")

    nhist = 300 if ck.tier == "quick" else 2500
    tmp = os.path.realpath(tempfile.mkdtemp(prefix="vf-"))
    # two real directories to stand in for working directories / home directories (the files in them are virtual:
    # stat() is answered by the shim); the same relative name means a different file in each
    places = [os.path.join(tmp, d) for d in (u"place-a", u"place-b")]
    for d in places:
        os.mkdir(d)
    try:
        # Directed family (seeded C42-9: COLLATE NOCASE on local_files.path): two distinct paths that are equal ignoring
        # ASCII letter case (in the file name or in an ancestor directory) and look alike to stat() (same size, mtime,
        # ctime). "path ... match the record of its most recent upload" means the path itself: a record written for
        # Report.txt says nothing about report.txt. Judged in the reuse direction only.
        trng = ck.rng("c42-case-twins")
        for h in range(12 if ck.tier == "quick" else 60):
            dbfile = os.path.join(tmp, "backupdb-twins-%d.sqlite" % h)
            bdb = backupdb.get_backupdb(dbfile)
            where = trng.choice(["file-name", "file-name", "ancestor-directory", "extension"])
            if where == "file-name":
                a, b = BASE + u"/Report.txt", BASE + u"/report.txt"
            elif where == "extension":
                a, b = BASE + u"/photo.JPG", BASE + u"/photo.jpg"
            else:
                a, b = BASE + u"/Docs/notes.txt", BASE + u"/docs/notes.txt"
            if trng.random() < .5:
                a, b = b, a
            st = (trng.choice([0, 4, 1000, 2 ** 31]), 1_500_000_000 + trng.randrange(10 ** 6), 1_500_000_000 + trng.randrange(10 ** 6))
            shim.table.clear()
            shim.table[a] = shim.table[b] = st
            twin_records = {}
            tsteps = []

            def twin_check(p):
                got = bdb.check_file(p).was_uploaded()
                ck.mon("file-reuse-oracle")
                ck.hit("case-twin-paths-checked")
                tsteps.append(("check", p, got))
                rec = twin_records.get(p)
                if got is not False and (rec is None or tob(got) != tob(rec)):
                    other = [q for q in (a, b) if q != p][0]
                    ck.violation("reuses-cap-recorded-for-path-differing-only-in-letter-case",
                                 "check_file(%r) offered %s although the most recent upload of that path is %s (case differs in the %s)"
                                 % (p, "the cap recorded for %r" % other if tob(got) == tob(twin_records.get(other)) else "a foreign cap",
                                    "another cap" if rec is not None else "none at all", where),
                                 {"path": p, "twin": other, "stat_of_both": st, "returned": got, "own_record": rec,
                                  "twin_record": twin_records.get(other), "steps": tsteps[-8:]})
                return got

            def twin_upload(p):
                r = bdb.check_file(p)
                cap = newcap()
                r.did_upload(cap)
                twin_records[p] = cap
                tsteps.append(("upload", p, cap))

            twin_upload(a)
            twin_check(a)
            twin_check(b)                 # never uploaded: nothing to reuse
            if trng.random() < .7:
                twin_upload(b)
                twin_check(a)             # a's most recent upload is still its own
                twin_check(b)
                if trng.random() < .5:
                    twin_upload(a)
                    twin_check(b)
                    twin_check(a)
            bdb.connection.close()
            os.unlink(dbfile)
            ck.case("case-twin-history", key=(where, a, st, len(tsteps)), nontrivial=True,
                    sample={"where": where, "steps": [s[0] for s in tsteps]})

        for h in range(nhist):
            if ck.out_of_time():
                break
            dbfile = os.path.join(tmp, "backupdb-%d.sqlite" % h)
            start_v1 = rng.random() < .15
            if start_v1:
                bdb = backupdb.get_backupdb(dbfile, create_version=(backupdb.SCHEMA_v1, 1), just_create=True)
                ck.hit("started-on-v1-schema")
            else:
                bdb = backupdb.get_backupdb(dbfile)
            on_v1 = start_v1
            names = rng.sample([u"f0", u"f1", u"fé", u"with space", u"f4.txt"], rng.randint(1, 5))
            paths = [BASE + u"/" + n for n in names]
            moving = rng.random() < .6       # history with cwd / HOME changes and relative / "~" spellings
            if moving:
                paths += [d + u"/" + n for d in places for n in rng.sample([u"data.bin", u"f0", u"notes é.txt"], 2)][:4]
                os.chdir(rng.choice(places)); os.environ["HOME"] = rng.choice(places)
            shim.table.clear()
            for p in paths:
                shim.table[p] = (rng.choice([0, 1, 1000, 2 ** 31, 2 ** 40]), 1_600_000_000 + rng.randrange(10 ** 6),
                                 1_600_000_000 + rng.randrange(10 ** 6))
            records = {}        # path -> (size, mtime, ctime, cap)   most recent did_upload
            seen_stats = {p: [shim.table[p]] for p in paths}
            pending = []        # FileResults not yet completed: (path, stat_at_check, result)
            dir_records = {}    # frozenset(items) -> [dircaps recorded with did_create, oldest first]
            last_caps = {}      # path -> last cap we stored (for directory snapshots)
            steps = []
            flags = set()

            def do_check(p, use_ts=True):
                st = shim.table[p]
                sp = spelled(p)
                shim.last = None
                try:
                    r = bdb.check_file(sp, use_timestamps=use_ts)
                except FileNotFoundError:
                    r = None
                ck.mon("file-identity-oracle")
                if shim.last != p:
                    # observed at the stat() boundary: the database looked at (and would key its record by) another file
                    ck.violation("check-file-resolves-name-to-a-different-file",
                                 "check_file(%r) with cwd=%s HOME=%s examined %r, not %r" % (
                                     sp, os.path.basename(os.getcwd()), os.path.basename(os.environ.get("HOME", "")), shim.last, p),
                                 {"spelled": sp, "cwd": os.getcwd(), "home": os.environ.get("HOME"), "stat_called_on": shim.last,
                                  "expected": p, "steps": steps[-12:]})
                if r is None:
                    return None, st, False
                got = r.was_uploaded()
                ck.mon("file-reuse-oracle")
                rec = records.get(p)
                if got is not False:
                    flags.add("reuse")
                    ck.hit("file-cap-reused")
                    wit = {"path": p, "spelled": sp, "stat_now": st, "record": rec, "use_timestamps": use_ts,
                           "returned": got, "steps": steps[-12:]}
                    if rec is None:
                        ck.violation("reuses-cap-without-upload-record",
                                     "check_file offered a cap for a path with no recorded upload", wit)
                    elif not use_ts:
                        ck.violation("reuses-cap-although-timestamps-untrusted",
                                     "check_file(use_timestamps=False) offered a cap", wit)
                    elif rec[:3] != st:
                        fields = [n for n, a, b in zip(("size", "mtime", "ctime"), rec[:3], st) if a != b]
                        ck.violation("reuses-cap-despite-changed-" + "+".join(fields),
                                     "check_file offered the old cap although %s differ(s) from the most recent upload record"
                                     % ", ".join(fields), wit)
                    elif tob(got) != tob(rec[3]):
                        ck.violation("reuses-wrong-cap", "check_file offered a cap other than the most recent upload's", wit)
                else:
                    flags.add("refuse")
                    if rec is not None and use_ts and rec[:3] == st:
                        ck.observe("no-reuse-although-record-matches")   # allowed: earlier check invalidated the row
                    if rec is not None and rec[:3] != st:
                        for n, a, b in zip(("size", "mtime", "ctime"), rec[:3], st):
                            if a != b and sum(1 for x, y in zip(rec[:3], st) if x != y) == 1:
                                ck.hit("refused-because-only-%s-changed" % n)
                    if not use_ts and rec is not None and rec[:3] == st:
                        ck.hit("refused-because-timestamps-untrusted")
                return r, st, got

            for stepno in range(rng.randint(8, 40)):
                p = rng.choice(paths)
                op = rng.choice(["size", "mtime", "ctime", "all", "touch-back", "rename",
                                 "check", "check", "check", "check+upload", "check+upload", "check+upload",
                                 "check-no-ts", "late-upload", "healthy", "clock", "clock-big", "reopen",
                                 "dir", "dir", "dir-mutant"] + (["chdir", "chdir", "sethome", "twin-check+upload",
                                                                 "twin-check+upload"] if moving else []))
                if op == "chdir":
                    os.chdir([d for d in places if d != os.getcwd()][0])
                    ck.hit("cwd-changed")
                    steps.append((op, os.path.basename(os.getcwd())))
                    continue
                if op == "sethome":
                    os.environ["HOME"] = [d for d in places if d != os.environ["HOME"]][0]
                    ck.hit("home-changed")
                    steps.append((op, os.path.basename(os.environ["HOME"])))
                    continue
                if op == "twin-check+upload":
                    # same relative name, looked at from the place where we are now
                    here = rng.choice([os.getcwd(), os.environ["HOME"]])
                    cands = [x for x in paths if os.path.dirname(x) == here]
                    if not cands:
                        continue
                    p = rng.choice(cands)
                    op = "check+upload"
                steps.append((op, os.path.basename(p)))
                if op in ("size", "mtime", "ctime", "all"):
                    s, m, c = shim.table[p]
                    d = rng.choice([1, -1, 2, 1000, 10 ** 9])
                    if op == "size":
                        s = max(0, s + d)
                        if s == shim.table[p][0]:
                            s += 1
                    elif op == "mtime":
                        m += d
                    elif op == "ctime":
                        c += d
                    else:
                        s, m, c = s + 1, m + d, c + d
                    shim.table[p] = (s, m, c)
                    seen_stats[p].append(shim.table[p])
                    ck.hit("stat-change:" + op)
                elif op == "touch-back":
                    shim.table[p] = rng.choice(seen_stats[p])
                    ck.hit("stat-change:touch-back")
                elif op == "rename" and len(paths) > 1:
                    q = rng.choice([x for x in paths if x != p])
                    shim.table[q] = shim.table[p]          # q now looks exactly like p (mv p q)
                    seen_stats[q].append(shim.table[q])
                    ck.hit("stat-change:rename")
                elif op in ("check", "check-no-ts"):
                    r, st, got = do_check(p, use_ts=(op == "check"))
                    if r is None:
                        continue
                    if rng.random() < .4:
                        pending.append((p, st, r))
                elif op == "check+upload":
                    r, st, got = do_check(p)
                    if r is None:
                        continue
                    if got is False or rng.random() < .3:
                        kind = rng.choice(["new", "new", "new", "same-as-before", "shared-with-other-path"])
                        cap = newcap()
                        if kind == "same-as-before" and p in last_caps:
                            cap = last_caps[p]
                        elif kind == "shared-with-other-path" and last_caps:
                            cap = last_caps[rng.choice(sorted(last_caps))]
                        r.did_upload(cap)
                        records[p] = st + (cap,)
                        last_caps[p] = cap
                        ck.hit("upload:" + kind)
                        if rng.random() < .5:
                            # unchanged file right after its upload: the one situation where reuse is the point
                            do_check(p)
                elif op == "late-upload" and pending:
                    q, st, r = pending.pop(rng.randrange(len(pending)))
                    cap = newcap()
                    r.did_upload(cap)                       # FileResult carries the stat seen at its check_file
                    records[q] = st + (cap,)
                    last_caps[q] = cap
                    ck.hit("upload:late-stale-result")
                elif op == "healthy":
                    r, st, got = do_check(p)
                    if r is None:
                        continue
                    if got is not False:
                        sc = r.should_check()
                        ck.hit("should_check:%s" % sc)
                        if sc:
                            r.did_check_healthy({"results": {"healthy": True}})
                            ck.hit("did_check_healthy")
                elif op == "clock":
                    clock.now += rng.choice([1, 60, DAY, 20 * DAY])
                elif op == "clock-big":
                    clock.now += rng.choice([MONTH - 1, MONTH + 1, MONTH + MONTH // 2, 2 * MONTH - 1, 2 * MONTH + 1, 6 * MONTH])
                elif op == "reopen":
                    bdb.connection.close()
                    del pending[:]            # FileResults of the closed connection die with it
                    bdb = backupdb.get_backupdb(dbfile)
                    if on_v1:
                        on_v1 = False
                        ck.hit("upgraded-v1-to-v2")
                    ck.hit("reopen")
                elif op in ("dir", "dir-mutant") and not on_v1:
                    contents = {os.path.basename(q): tob(c) for q, c in last_caps.items()}
                    if rng.random() < .3 or not contents:
                        contents[rng.choice([u"1:a,", u"a", u"ab", u"é", u"é", u""])] = tob(newcap(rng.choice([b"URI:CHK:", b"1:b,", b""])))
                    mutation = "none"
                    if op == "dir-mutant" and dir_records:
                        mutation = rng.choice(["one-cap", "one-name", "add", "remove", "shift-boundary", "normalise",
                                               "swap-caps", "swap-caps", "rotate-caps", "none"])
                        cands = sorted(dir_records, key=repr)
                        if mutation in ("swap-caps", "rotate-caps"):
                            # same names, same multiset of caps, different assignment: needs >=2 (3) distinct caps
                            need = 2 if mutation == "swap-caps" else 3
                            good = [k for k in cands if len(set(v for _, v in k)) >= need]
                            if not good:
                                fresh = {u"n%d" % i: tob(newcap()) for i in range(need)}
                                r0 = bdb.check_directory(dict(fresh))
                                if r0.was_created() is False:
                                    dc0 = newcap(b"URI:DIR2-CHK:")
                                    r0.did_create(dc0)
                                    dir_records.setdefault(frozenset(fresh.items()), []).append(tob(dc0))
                                good = [frozenset(fresh.items())]
                            cands = good
                        base = dict(rng.choice(cands))
                        contents = dict(base)
                        ks = sorted(contents)
                        if mutation == "one-cap" and ks:
                            contents[rng.choice(ks)] = tob(newcap())
                        elif mutation == "one-name" and ks:
                            k = rng.choice(ks)
                            contents[k + u"x"] = contents.pop(k)
                        elif mutation == "add":
                            contents[u"extra%d" % stepno] = tob(newcap())
                        elif mutation == "remove" and ks:
                            contents.pop(rng.choice(ks))
                        elif mutation == "shift-boundary" and ks:
                            k = rng.choice(ks)
                            v = contents.pop(k)
                            if len(k) > 1:
                                contents[k[:-1]] = k[-1:].encode("utf-8") + v        # "ab"->"c"  vs  "a"->"bc"
                            else:
                                contents[k + v[:1].decode("latin-1")] = v[1:]
                        elif mutation == "normalise" and ks:
                            k = rng.choice(ks)
                            alt = unicodedata.normalize("NFD", k)
                            if alt == k:
                                alt = unicodedata.normalize("NFC", k)
                            if alt != k:
                                contents[alt] = contents.pop(k)
                        elif mutation == "swap-caps":
                            a, b = rng.sample(ks, 2)
                            while contents[a] == contents[b]:
                                a, b = rng.sample(ks, 2)
                            contents[a], contents[b] = contents[b], contents[a]
                        elif mutation == "rotate-caps":
                            distinct = []
                            for k in ks:
                                if contents[k] not in [contents[d] for d in distinct]:
                                    distinct.append(k)
                            a, b, c3 = distinct[:3]
                            contents[a], contents[b], contents[c3] = contents[b], contents[c3], contents[a]
                        ck.hit("dir-mutation:" + mutation)
                    key = frozenset(contents.items())
                    r = bdb.check_directory(dict(contents))
                    got = r.was_created()
                    ck.mon("directory-reuse-oracle")
                    if got is not False:
                        flags.add("dir-reuse")
                        ck.hit("dircap-reused")
                        want = dir_records.get(key)
                        wit = {"contents": sorted(contents.items()), "returned": got, "mutation": mutation,
                               "known_dirs": [sorted(k) for k in list(dir_records)[:5]]}
                        if want is None:
                            ck.violation("reuses-dircap-for-different-contents",
                                         "check_directory offered a dircap for a name->cap mapping that was never recorded "
                                         "(mutation %s)" % mutation, wit)
                        elif tob(got) not in want:
                            ck.violation("reuses-wrong-dircap", "check_directory offered a dircap that was never recorded for these contents", wit)
                        elif tob(got) != want[-1]:
                            ck.observe("dircap-reused-is-not-the-most-recent")     # same contents either way: not judged
                        if r.should_check():
                            ck.hit("dir-should_check:True")
                            r.did_check_healthy({})
                    else:
                        flags.add("dir-refuse")
                        if key in dir_records:
                            ck.observe("dir-not-reused-although-recorded")      # safe direction; not judged
                    if got is False or rng.random() < .2:
                        dc = newcap(b"URI:DIR2-CHK:")
                        r.did_create(dc)
                        dir_records.setdefault(key, []).append(tob(dc))
                        ck.hit("did_create_directory")
            # final sweep: every path, both timestamp modes
            for p in paths:
                do_check(p, use_ts=True)
            bdb.connection.close()
            os.unlink(dbfile)
            ck.case("history", key=tuple(steps) + (tuple(sorted(shim.table.items())),),
                    nontrivial=("reuse" in flags and "refuse" in flags),
                    sample={"paths": len(paths), "steps": [s[0] for s in steps][:40], "flags": sorted(flags)})
    finally:
        os.chdir(saved_cwd)
        if saved_home is None:
            os.environ.pop("HOME", None)
        else:
            os.environ["HOME"] = saved_home
        backupdb.os, backupdb.time, backupdb.random = saved
        shutil.rmtree(tmp, ignore_errors=True)

    ck.extra["stat_calls_answered_by_shim"] = shim.calls
    ck.require_monitor("file-reuse-oracle", "file-identity-oracle", "directory-reuse-oracle")
    ck.require_reach("file-cap-reused", "dircap-reused", "refused-because-only-size-changed",
                     "refused-because-only-mtime-changed", "refused-because-only-ctime-changed",
                     "refused-because-timestamps-untrusted", "upload:late-stale-result", "reopen",
                     "stat-change:touch-back", "dir-mutation:one-cap", "dir-mutation:one-name", "dir-mutation:swap-caps", "dir-mutation:rotate-caps",
                     "relative-spelling", "tilde-spelling", "cwd-changed", "home-changed", "case-twin-paths-checked")
    ck.exhaustive = False


# MUST_CATCH -- planted in scripts/backupdb.py of a scratch copy (VF_REPO=/var/tmp/auth_st/... ./check C42), removed afterwards.
#   ctime dropped from the comparison ............................ caught: reuses-cap-despite-changed-ctime
#   mtime dropped ................................................ caught: reuses-cap-despite-changed-mtime
#   size dropped ................................................. caught: reuses-cap-despite-changed-size
#   `last_mtime != mtime` -> `last_mtime < mtime` ................ caught: reuses-cap-despite-changed-mtime
#   `or not use_timestamps` removed .............................. caught: reuses-cap-although-timestamps-untrusted
#   changed-file clause AND-ed with `not row2` ................... caught: reuses-cap-despite-changed-* (all 7 combinations), ...-timestamps-untrusted
#   re-upload UPDATE keeps the old size/mtime/ctime .............. caught: reuses-cap-despite-changed-size
#   cap looked up by a constant fileid ........................... caught: reuses-wrong-cap
#   dirhash over names only ...................................... caught: reuses-dircap-for-different-contents, reuses-wrong-dircap
#   dirhash over caps only ....................................... caught: reuses-dircap-for-different-contents, reuses-wrong-dircap
#   dirhash over undelimited name+cap ............................ caught: reuses-dircap-for-different-contents (shift-boundary mutant)

# Round 3: seeded C42-5 / selftest c42-abspath-memoised (lru_cache on abspath_expanduser_unicode) and
#   c42-path-not-made-absolute ............ caught: check-file-resolves-name-to-a-different-file (+ reuses-cap-without-upload-record)
#   seeded C42-2 / c42-dirhash-names-and-caps-sorted-separately ... caught: reuses-dircap-for-different-contents (swap-caps / rotate-caps)
# The list lives in selftest/breaks_c42.py (14/14 caught); seeded C42-1..6: 6/6 caught.
