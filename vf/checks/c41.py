"""C41 web API never exceeds the authority of the capability used."""
META = {
    "level": "exploration",
    "technique": "runtime monitoring of the real web API on an in-process grid: byte-level before/after snapshots of every mutable share file on every server around each modifying request made with read-only authority, plus a write-secret scan of every response obtained with read-only authority",
    "text": "Builds random directory trees with mixed authority (SDMF/MDMF directories and files, CHK/LIT files, immutable directories; children linked read-write and read-only, the same object reachable both ways) through a real client, mounts the real web API and issues every modifying form of web/directory.py and web/filenode.py (PUT file/?t=uri/?t=mkdir, POST t=mkdir/mkdir-with-children/mkdir-immutable/upload/uri/unlink/delete/rename/relink/set_children, replace=..., offset=, DELETE, intermediate-directory creation, relink INTO a read-only directory) (a) with a read-only dircap, read-only filecap, verify-cap or immutable dircap as the URL's capability and (b) through paths of a writeable root that cross a read-only directory entry. Oracle: every mutable share file that existed before the request and is not write-derivable from the capabilities the requester presented must be byte-identical afterwards (share data and header always; lease area too unless add-lease was asked for) and the response must be 4xx/5xx; a refused request must not leave new immutable share files on any server either (uploads use fresh bodies > 55 bytes; control: the same upload through a write cap stores shares). Every response obtained with read-only authority (t=json, t=info, HTML listing, t=uri, t=readonly-uri, rename-form, manifests, deep-stats/size, check results, error pages) is searched for the base32 write key of every mutable object the harness created (excluding secrets the request itself supplied). A request answered with an error must moreover leave EVERY pre-existing mutable object unchanged, including a writeable destination named in to_dir= (no half-performed moves). Before the read-only requests the harness walks the tree with the write cap through the same client and keeps the resulting child nodes alive (as a running manifest/deep-check would), so a node cache that confuses authorities is exposed. Each modifying form is also issued with a write cap on a twin directory/file and must change the grid there, so the workload is not vacuous; a form is judged for its status only after it has been shown effective.",
    "note": "Trusts vf.web, the in-process grid, the harness's own model of which capabilities are write-derivable from which, and the 10-line mutable-container parser (header 100 bytes, 4 lease slots, data at 468). New unlinked objects left behind by a refused request are reported as observations, not violations (creating unlinked objects needs no authority).",
}
LEVEL = "exploration"
BUDGET = {"quick": 40, "thorough": 300}
SHARDS = {"quick": 1, "thorough": 8}

import json
import os
import struct
from vf import env  # noqa

MUT_MAGIC = b"Tahoe mutable container v"


# ----------------------------------------------------------------- grid snapshot (independent of the code under test)
def snapshot(g):
    """{(server, si_b32, shnum): (full_bytes, content_bytes|None)}; content is None for immutable shares."""
    out = {}
    for vs in g.servers:
        root = os.path.join(vs.storedir, "shares")
        try:
            prefixes = os.listdir(root)
        except OSError:
            continue
        for prefix in prefixes:
            if prefix == "incoming":
                continue
            pd = os.path.join(root, prefix)
            for si in os.listdir(pd):
                sd = os.path.join(pd, si)
                for fn in os.listdir(sd):
                    try:
                        with open(os.path.join(sd, fn), "rb") as f:
                            b = f.read()
                    except OSError:
                        continue
                    content = None
                    if b.startswith(MUT_MAGIC) and len(b) >= 100:
                        (dlen,) = struct.unpack(">Q", b[84:92])
                        content = b[:100] + b[468:468 + dlen]
                    out[(vs.name, si, fn)] = (b, content)
    return out


def writekey_of(cap):
    """base32 write key of a write cap (URI:SSK / URI:MDMF / URI:DIR2 / URI:DIR2-MDMF: field 2)."""
    parts = cap.split(b":")
    assert parts[1] in (b"SSK", b"MDMF", b"DIR2", b"DIR2-MDMF"), cap
    return parts[2]


class Obj(object):
    def __init__(self, oid, kind, node, fmt=None, data=None):
        from allmydata.util import base32
        self.oid, self.kind, self.node, self.fmt, self.data = oid, kind, node, fmt, data
        self.mutable = kind in ("dir", "mfile")
        self.cap = node.get_uri()                       # strongest cap the harness holds
        self.ro = node.get_readonly_uri()
        vc = node.get_verify_cap()
        self.verify = vc.to_string() if vc else None
        si = node.get_storage_index()
        self.si = base32.b2a(si).decode("ascii") if si else None
        self.wk = writekey_of(self.cap) if self.mutable else None
        if self.mutable and (self.wk in self.ro or self.wk in (self.verify or b"")):
            raise RuntimeError("harness precondition: read-only/verify cap contains the write key")
        self.children = {}                              # name -> (Obj, "rw"|"ro")
        self.scratch = False                            # twin objects: removed from the grid after use


class Tree(object):
    """The harness's model of what it built: objects, edges and their authority."""

    def __init__(self):
        self.objs = []

    def add(self, *a, **kw):
        o = Obj(len(self.objs), *a, **kw)
        self.objs.append(o)
        return o

    def pin(self, client):
        """A long-lived gateway holds writeable node objects for days (ophandle monitors, open uploads): keep the
        client's own cached node for every write cap alive, so that read-only requests meet a warm node cache."""
        for o in self.objs:
            if o.mutable and not o.scratch and getattr(o, "pinned", None) is None:
                o.pinned = client.create_node_from_uri(o.cap)

    def derivable(self, caps):
        """Storage indexes of the mutable objects a holder of `caps` may legitimately modify."""
        out = set()
        todo = []
        for cap in caps:
            for o in self.objs:
                if o.mutable and not o.scratch and cap == o.cap:
                    todo.append(o)
        while todo:
            o = todo.pop()
            if o.si in out:
                continue
            out.add(o.si)
            if o.kind == "dir":
                for (ch, mode) in o.children.values():
                    if ch.mutable and mode == "rw":
                        todo.append(ch)
        return out

    def mutable_sis(self):
        return set(o.si for o in self.objs if o.mutable and not o.scratch)

    def secrets(self):
        return [(o.wk, o.oid) for o in self.objs if o.mutable and not o.scratch]


# ----------------------------------------------------------------- the check
def run(ck):
    ck.rule = ("case = one random mixed-authority tree on a fresh grid; within it every (access scenario, modifying form) "
               "pair: scenarios = read-only dircap, read-only root + child, writeable root crossing a read-only entry "
               "(1 and 2 levels), read-only dir reached object that is writeable elsewhere, verify-cap, immutable dircap, "
               "read-only filecap, read-only file entry; distinct = distinct (scenario, form, directory format, child kinds); "
               "non-trivial = the form was shown to modify the grid when issued with a write cap in the same run")
    ck.assumptions.append("a refused request may leave new unlinked objects behind (observation only)")
    ck.assumptions.append("DELETE / PUT on a read-only FILE entry of a writeable directory may legitimately change that "
                          "directory: only the file's own slot is protected there and the status is not judged")
    i = 0
    ncases = 5 if ck.tier == "quick" else 400
    while i < ncases and not ck.out_of_time():
        if ck.mine(i):
            with ck.watchdog(240, "case %d" % i):
                _one_case(ck, i)
        i += 1
    ck.require_monitor("protected-slots-unchanged", "refused-status", "refused-request-changes-nothing", "refused-request-stores-nothing",
                       "write-secret-scan")
    ck.require_reach("form-effective-with-writecap", "refused-by-readonly-dircap", "refused-crossing-readonly-entry",
                     "refused-by-readonly-filecap", "refused-by-verifycap", "refused-by-immutable-dircap",
                     "refused-relink-into-readonly", "refused-by-readcap-after-writecap-walk",
                     "immutable-upload-through-writecap-stores-shares", "refused-immutable-upload-stored-nothing",
                     "readcap-json-while-writecap-walk-holds-the-node", "writecap-visible-through-writecap", "manifest-through-readcap",
                     "same-object-rw-and-ro", "mdmf-directory", "sdmf-directory")
    ck.exhaustive = False


def _one_case(ck, ci):
    from vf.grid import VGrid, KEYPOOL
    from vf import web
    rng = ck.rng("case", ci)
    KEYPOOL.rewind()
    k = rng.choice([1, 1, 2])
    g = VGrid(nservers=rng.choice([2, 3, 4]), seed=rng.getrandbits(32),
              profile=rng.choice(["fifo", "per-server-fifo", "free"]), keep_log=False)
    try:
        c = g.make_client(k=k, happy=1, n=rng.choice([k, k + 1]), max_segment_size=rng.choice([64, 128, 1024]),
                          mutable_format=rng.choice([None, "MDMF"]))
        stub = web.mount(g, c)
        case = Case(ck, g, c, stub, web, rng, ci)
        case.build()
        case.run()
    finally:
        g.close()


class Case(object):
    def __init__(self, ck, g, c, stub, web, rng, ci):
        self.ck, self.g, self.c, self.stub, self.web, self.rng, self.ci = ck, g, c, stub, web, rng, ci
        self.tree = Tree()
        self.effective = set()
        self.stores_shares = set()
        self.nhandle = 0
        u = rng.random() < .5
        sfx = "é中" if u else ""
        self.N = dict(file="f%d.chk%s" % (rng.randrange(100), sfx), mfile="m%d.mut" % rng.randrange(100),
                      sub="sub%d%s" % (rng.randrange(100), sfx), lit="tiny", new="new%d%s" % (rng.randrange(100), sfx))

    # ---- construction through the client API
    def W(self, d):
        st, r = self.g.wait(d)
        if st != "ok":
            raise RuntimeError("tree construction failed: %s %r" % (st, r))
        return r

    def mk_dir(self, children=None, fmt=None):
        from allmydata.interfaces import SDMF_VERSION, MDMF_VERSION
        fmt = fmt or self.rng.choice(["SDMF", "MDMF"])
        self.ck.hit("mdmf-directory" if fmt == "MDMF" else "sdmf-directory")
        init = {}
        edges = {}
        for name, (ch, mode) in (children or {}).items():
            if ch.mutable and mode == "rw":
                init[name] = (self.c.create_node_from_uri(ch.cap, ch.ro), {})
            else:
                init[name] = (self.c.create_node_from_uri(None, ch.ro if ch.mutable else ch.cap), {})
                mode = "ro" if ch.mutable else "rw"
            edges[name] = (ch, mode)
        n = self.W(self.c.create_dirnode(initial_children=init, version=MDMF_VERSION if fmt == "MDMF" else SDMF_VERSION))
        o = self.tree.add("dir", n, fmt=fmt)
        o.children.update(edges)
        return o

    def discard(self, objs):
        """Scratch objects of a twin run: forget them and remove their shares, so later snapshots stay small."""
        import shutil
        for o in objs:
            o.scratch = True
            si = o.node.get_storage_index()
            if si:
                for vs in self.g.servers:
                    shutil.rmtree(vs.sharedir(si), ignore_errors=True)

    def mk_mfile(self, size=None):
        from allmydata.interfaces import SDMF_VERSION, MDMF_VERSION
        from allmydata.mutable.publish import MutableData
        fmt = self.rng.choice(["SDMF", "MDMF"])
        data = bytes(self.rng.getrandbits(8) for _ in range(self.rng.choice([0, 1, 60, 200]) if size is None else size))
        n = self.W(self.c.create_mutable_file(MutableData(data), version=MDMF_VERSION if fmt == "MDMF" else SDMF_VERSION))
        return self.tree.add("mfile", n, fmt=fmt, data=data)

    def mk_imm(self, size):
        from allmydata.immutable.upload import Data
        data = bytes(self.rng.getrandbits(8) for _ in range(size))
        r = self.W(self.c.upload(Data(data, convergence=b"c41")))
        n = self.c.create_node_from_uri(r.get_uri())
        return self.tree.add("lit" if size <= 55 else "chk", n, data=data)

    def mk_immdir(self, kids):
        n = self.W(self.c.create_immutable_dirnode({name: (o.node, {}) for name, o in kids.items()}))
        o = self.tree.add("immdir", n)
        for name, ch in kids.items():
            o.children[name] = (ch, "ro")
        return o

    def link(self, parent, name, child, mode):
        if child.mutable and mode == "rw":
            self.W(parent.node.set_uri(name, child.cap, child.ro))
        else:
            self.W(parent.node.set_uri(name, None, child.ro if child.mutable else child.cap))
            mode = "ro" if child.mutable else "rw"
        parent.children[name] = (child, mode)

    def std_children(self, with_sub=True):
        N = self.N
        kids = {N["file"]: (self.mk_imm(self.rng.choice([56, 100, 300])), "rw"),
                N["lit"]: (self.lit, "rw"),
                N["mfile"]: (self.mk_mfile(), "rw")}
        if with_sub:
            kids[N["sub"]] = (self.mk_dir({N["file"]: (self.chk_shared, "rw")}), "rw")
        return kids

    def build(self):
        rng, N = self.rng, self.N
        self.lit = self.mk_imm(rng.choice([0, 5, 55]))
        self.chk_shared = self.mk_imm(80)
        # D: directory two levels below a read-only entry
        self.D = self.mk_dir(self.std_children(with_sub=False))
        # A: writeable from the root, also linked (rw edge) inside the read-only-linked B
        self.A = self.mk_dir(self.std_children())
        # B: linked read-only from the root
        kb = self.std_children(with_sub=False)
        kb[N["sub"]] = (self.D, "rw")
        kb["alias-a"] = (self.A, "rw")
        self.B = self.mk_dir(kb)
        self.mf_ro = self.mk_mfile(size=rng.choice([0, 10, 120]))
        self.imm = self.mk_immdir({N["file"]: self.chk_shared, N["lit"]: self.lit})
        self.root = self.mk_dir({"rw-a": (self.A, "rw"), "ro-b": (self.B, "ro"), "rofile": (self.mf_ro, "ro"),
                                 "imm": (self.imm, "rw"), N["lit"]: (self.lit, "rw")})
        # an unrelated object whose WRITE cap the requester owns and offers in request bodies
        self.own = self.mk_mfile(size=20)
        self.ck.hit("same-object-rw-and-ro")
        # extra random links to vary shapes
        for _ in range(rng.randrange(3)):
            p = rng.choice([self.A, self.D, self.B])
            ch = rng.choice([self.mf_ro, self.chk_shared, self.own])
            self.link(p, "x%d" % rng.randrange(1000), ch, rng.choice(["rw", "ro"]))

    # ---- a gateway that has just walked the tree with the WRITE cap and still holds the child nodes
    def warm_walk(self):
        """List every directory reachable read-write from the root through the client's own API (exactly what a
        t=stream-manifest / deep-check / in-flight listing does) and keep the resulting child node objects alive for the
        rest of the case: read-only requests issued afterwards must not be served by those writeable nodes."""
        from allmydata.interfaces import IDirectoryNode
        self.held = []
        seen = set()
        todo = [self.c.create_node_from_uri(self.root.cap)]
        while todo:
            dn = todo.pop()
            if dn.get_uri() in seen:
                continue
            seen.add(dn.get_uri())
            kids = self.W(dn.list())
            self.held.append((dn, kids))
            for name, (child, md) in kids.items():
                if IDirectoryNode.providedBy(child) and child.is_mutable() and not child.is_readonly():
                    todo.append(child)
        self.held_writeable = set()
        for dn, kids in self.held:
            for name, (child, md) in kids.items():
                if child.is_mutable() and not child.is_readonly():
                    self.held_writeable.add(child.get_readonly_uri())
        self._snap = None

    # ---- scenarios
    def scenarios(self):
        q, N = self.web.q, self.N
        root, A, B, D = self.root, self.A, self.B, self.D
        S = []
        # (name, class, base url, target obj, caps presented by the URL)
        S.append(("ro-dircap", "refused-by-readonly-dircap", "/uri/" + q(B.ro), B, [B.ro]))
        S.append(("ro-root/child", "refused-by-readonly-dircap", "/uri/%s/rw-a" % q(root.ro), A, [root.ro]))
        S.append(("rw-root/ro-entry", "refused-crossing-readonly-entry", "/uri/%s/ro-b" % q(root.cap), B, [root.cap]))
        S.append(("rw-root/ro-entry/sub", "refused-crossing-readonly-entry", "/uri/%s/ro-b/%s" % (q(root.cap), q(N["sub"])), D, [root.cap]))
        S.append(("ro-dircap/alias-of-writeable", "refused-by-readonly-dircap", "/uri/%s/alias-a" % q(B.ro), A, [B.ro]))
        S.append(("rw-root/ro-entry/alias-of-writeable", "refused-crossing-readonly-entry", "/uri/%s/ro-b/alias-a" % q(root.cap), A, [root.cap]))
        # objects the warm walk reached read-write, now named by their own read cap / through the parent's read cap
        subA = A.children[N["sub"]][0]
        S.append(("child-readcap-after-writecap-walk", "refused-by-readcap-after-writecap-walk", "/uri/" + q(A.ro), A, [A.ro]))
        S.append(("parent-readcap/child-after-writecap-walk", "refused-by-readcap-after-writecap-walk",
                  "/uri/%s/%s" % (q(A.ro), q(N["sub"])), subA, [A.ro]))
        S.append(("verify-dircap", "refused-by-verifycap", "/uri/" + q(B.verify), B, [B.verify]))
        S.append(("immutable-dircap", "refused-by-immutable-dircap", "/uri/" + q(self.imm.cap), self.imm, [self.imm.cap]))
        S.append(("rw-root/immutable-entry", "refused-by-immutable-dircap", "/uri/%s/imm" % q(root.cap), self.imm, [root.cap]))
        return S

    def file_scenarios(self):
        q, N = self.web.q, self.N
        root, B = self.root, self.B
        mfB = B.children[N["mfile"]][0]
        F = []
        # (name, class, base url, target, caps, parent_protected)
        F.append(("ro-filecap", "refused-by-readonly-filecap", "/uri/" + q(self.mf_ro.ro), self.mf_ro, [self.mf_ro.ro], None))
        F.append(("verify-filecap", "refused-by-verifycap", "/uri/" + q(self.mf_ro.verify), self.mf_ro, [self.mf_ro.verify], None))
        F.append(("rw-root/ro-file-entry", "refused-by-readonly-filecap", "/uri/%s/rofile" % q(root.cap), self.mf_ro, [root.cap], False))
        F.append(("rw-root/ro-entry/file", "refused-crossing-readonly-entry", "/uri/%s/ro-b/%s" % (q(root.cap), q(N["mfile"])), mfB, [root.cap], True))
        mfA = self.A.children[N["mfile"]][0]
        F.append(("child-readcap-after-writecap-walk", "refused-by-readcap-after-writecap-walk", "/uri/" + q(mfA.ro), mfA, [mfA.ro], None))
        F.append(("parent-readcap/file-after-writecap-walk", "refused-by-readcap-after-writecap-walk",
                  "/uri/%s/%s" % (q(self.A.ro), q(N["mfile"])), mfA, [self.A.ro], True))
        F.append(("ro-dircap/file", "refused-by-readonly-dircap", "/uri/%s/%s" % (q(B.ro), q(N["mfile"])), mfB, [B.ro], True))
        return F

    # ---- the modifying forms.  Each returns (method, url, kwargs for web.http, caps supplied in the body/query)
    def kids_json(self, immutable=False):
        d = {"k1": ["filenode", {"ro_uri": self.lit.cap.decode("ascii"), "metadata": {}}],
             "k2": ["filenode", {"ro_uri": self.chk_shared.cap.decode("ascii")}]}
        if not immutable:
            d["k3"] = ["filenode", {"rw_uri": self.own.cap.decode("ascii"), "ro_uri": self.own.ro.decode("ascii")}]
        return json.dumps(d).encode("utf-8")

    def dir_forms(self, base, sandbox_cap):
        q, N, rng = self.web.q, self.N, self.rng
        new, f, m, sub = q(N["new"]), q(N["file"]), q(N["mfile"]), q(N["sub"])
        # fresh per request and > 55 bytes: an immutable upload of it is a CHK file whose shares are not yet on the grid
        data = b"payload-%d-%d-" % (self.ci, rng.randrange(10 ** 9)) + bytes(rng.getrandbits(8) for _ in range(rng.choice([45, 70, 150, 300])))
        own, lit = self.own.cap, self.lit.cap
        sep = "&" if "?" in base else "?"
        F = {}

        def add(name, method, url, caps=(), **kw):
            F[name] = (method, url, kw, list(caps))
        add("POST-mkdir-name", "POST", base + "?t=mkdir&name=" + new)
        add("POST-mkdir-name-mdmf", "POST", base + "?t=mkdir&format=mdmf&name=" + new)
        add("POST-mkdir-with-children-name", "POST", base + "?t=mkdir-with-children&name=" + new, [own], body=self.kids_json())
        add("POST-mkdir-immutable-name", "POST", base + "?t=mkdir-immutable&name=" + new, body=self.kids_json(True))
        add("POST-upload-new", "POST", base + "?t=upload", form={"file": ("up.bin", data), "name": N["new"]})
        add("POST-upload-new-filename-only", "POST", base + "?t=upload", form={"file": ("viafilename.bin", data)})
        add("POST-upload-new-sdmf", "POST", base + "?t=upload&format=sdmf", form={"file": ("up.bin", data), "name": N["new"]})
        add("POST-upload-new-mdmf", "POST", base + "?t=upload&format=mdmf", form={"file": ("up.bin", data), "name": N["new"]})
        add("POST-upload-replace-file", "POST", base + "?t=upload", form={"file": ("up.bin", data), "name": N["file"], "replace": "true"})
        add("POST-upload-replace-file-queryarg", "POST", base + "?t=upload&replace=true&name=" + f, form={"file": ("up.bin", data)})
        add("POST-upload-new-replace-false", "POST", base + "?t=upload&replace=false", form={"file": ("up.bin", data), "name": N["new"]})
        add("PUT-new-file-replace-false", "PUT", base + "/" + new + "?replace=false", body=data)
        add("PUT-new-file-chk-explicit", "PUT", base + "/" + new + "?format=chk", body=data)
        add("POST-upload-onto-mutable-child", "POST", base + "?t=upload", form={"file": ("up.bin", data), "name": N["mfile"]})
        add("POST-uri-new", "POST", base + "?t=uri&name=%s&uri=%s" % (new, q(lit)))
        add("POST-uri-new-writecap", "POST", base + "?t=uri&name=%s&uri=%s" % (new, q(own)), [own])
        add("POST-uri-replace", "POST", base + "?t=uri&replace=true&name=%s&uri=%s" % (f, q(lit)))
        add("POST-unlink", "POST", base + "?t=unlink&name=" + f)
        add("POST-delete-dir", "POST", base + "?t=delete&name=" + sub)
        add("POST-unlink-form", "POST", base, form={"t": "unlink", "name": N["mfile"]})
        add("POST-rename", "POST", base + "?t=rename&from_name=%s&to_name=%s" % (f, new))
        add("POST-rename-onto-existing", "POST", base + "?t=rename&replace=true&from_name=%s&to_name=%s" % (f, q(N["lit"])))
        add("POST-relink-same-dir", "POST", base + "?t=relink&from_name=%s&to_name=%s" % (m, new))
        add("POST-relink-out-to-writeable", "POST", base + "?t=relink&from_name=%s&to_dir=%s&to_name=moved" % (f, q(sandbox_cap)),
            [sandbox_cap])
        add("POST-relink-dir-out-to-writeable", "POST", base + "?t=relink&from_name=%s&to_dir=%s" % (sub, q(sandbox_cap)), [sandbox_cap])
        add("POST-relink-mutable-out-to-writeable-path", "POST", base + "?t=relink&replace=true&from_name=%s&to_dir=%s&to_name=%s" % (
            m, q(sandbox_cap + b"/d"), new), [sandbox_cap])
        add("POST-relink-out-replace-only-files", "POST", base + "?t=relink&replace=only-files&from_name=%s&to_dir=%s&to_name=d2" % (
            q(N["lit"]), q(sandbox_cap)), [sandbox_cap])
        add("POST-relink-form-out-to-writeable", "POST", base, [sandbox_cap],
            form={"t": "relink", "from_name": N["file"], "to_dir": sandbox_cap.decode("ascii"), "to_name": "viaform"})
        add("POST-set_children", "POST", base + "?t=set_children", [own], body=json.dumps({
            N["new"]: ["filenode", {"ro_uri": lit.decode("ascii")}],
            "own": ["filenode", {"rw_uri": own.decode("ascii"), "ro_uri": self.own.ro.decode("ascii")}]}).encode("utf-8"))
        add("POST-set-children-replace", "POST", base + "?t=set-children&replace=true", body=json.dumps({
            N["file"]: ["filenode", {"ro_uri": lit.decode("ascii"), "metadata": {"x": 1}}]}).encode("utf-8"))
        add("PUT-new-file", "PUT", base + "/" + new, body=data)
        add("PUT-new-file-sdmf", "PUT", base + "/" + new + "?format=sdmf", body=data)
        add("PUT-new-file-mdmf", "PUT", base + "/" + new + "?format=mdmf", body=data)
        add("PUT-new-uri", "PUT", base + "/" + new + "?t=uri", body=lit)
        add("PUT-new-uri-writecap", "PUT", base + "/" + new + "?t=uri", [own], body=own)
        add("PUT-new-mkdir", "PUT", base + "/" + new + "?t=mkdir")
        add("POST-new-mkdir", "POST", base + "/" + new + "?t=mkdir")
        add("POST-new-mkdir-with-children", "POST", base + "/" + new + "?t=mkdir-with-children", [own], body=self.kids_json())
        add("POST-new-mkdir-immutable", "POST", base + "/" + new + "?t=mkdir-immutable", body=self.kids_json(True))
        add("PUT-replace-file", "PUT", base + "/" + f, body=data)
        add("PUT-replace-file-only-files", "PUT", base + "/" + f + "?replace=only-files", body=data)
        add("PUT-replace-file-as-mutable", "PUT", base + "/" + q(N["lit"]) + "?format=mdmf", body=data)
        add("PUT-replace-uri", "PUT", base + "/" + f + "?t=uri&replace=true", body=lit)
        add("PUT-replace-dir-uri", "PUT", base + "/" + sub + "?t=uri&replace=true", body=lit)
        add("DELETE-file", "DELETE", base + "/" + f)
        add("DELETE-dir", "DELETE", base + "/" + sub)
        add("DELETE-mutable-file", "DELETE", base + "/" + m)
        add("PUT-intermediate-dirs", "PUT", base + "/mid1/mid2/" + new, body=data)
        add("POST-intermediate-mkdir", "POST", base + "/mid1/" + new + "?t=mkdir")
        add("PUT-mutable-child-contents", "PUT", base + "/" + m, body=data)
        add("PUT-mutable-child-offset", "PUT", base + "/" + m + "?offset=0", body=b"%06d" % rng.randrange(10 ** 6))
        add("POST-upload-at-child-url", "POST", base + "/" + f + "?t=upload", form={"file": ("up.bin", data)})
        add("POST-upload-at-mutable-child-url", "POST", base + "/" + m + "?t=upload", form={"file": ("up.bin", data)})
        add("PUT-into-subdir", "PUT", base + "/" + sub + "/" + new, body=data)
        add("POST-unlink-in-subdir", "POST", base + "/" + sub + "?t=unlink&name=" + f)
        return F

    def file_forms(self, base, size, with_parent):
        rng = self.rng
        data = b"newcontents-%d-" % rng.randrange(10 ** 6) + bytes(rng.getrandbits(8) for _ in range(rng.choice([0, 9, 150])))
        F = {}

        def add(name, method, url, caps=(), **kw):
            F[name] = (method, url, kw, list(caps))
        add("PUT-mutable-contents", "PUT", base, body=data)
        add("PUT-mutable-offset0", "PUT", base + "?offset=0", body=b"%06d" % rng.randrange(10 ** 6))
        add("PUT-mutable-append", "PUT", base + "?offset=%d" % size, body=b"tail" + data[:4])
        add("POST-mutable-upload", "POST", base + "?t=upload", form={"file": ("up.bin", data)})
        if with_parent:
            add("DELETE-entry", "DELETE", base)
            add("PUT-entry-uri", "PUT", base + "?t=uri&replace=true", body=self.lit.cap)
        return F

    # ---- driving one request with the oracle around it
    def request(self, form, spec, scen, cls, caps, judge_status=True, target=None):
        """Issue one request made with read-only authority over its target; judge grid invariance, status, secrets."""
        ck, g, web = self.ck, self.g, self.web
        method, url, kw, body_caps = spec
        all_caps = list(caps) + list(body_caps)
        before = self.snap()
        st, hd, body = web.http(g, self.stub, method, url, **kw)
        g.sched.settle()
        after = self.snap(fresh=True)
        known = self.tree.mutable_sis()
        derivable = self.tree.derivable(all_caps)
        protected = known - derivable
        wit = dict(scenario=scen, form=form, method=method, url=url[:200], status=st, body=body[:160],
                   target_kind=target.kind if target else None, target_fmt=target.fmt if target else None)
        addlease = "add-lease=true" in url
        changed_protected, changed_other, touched = [], [], []
        for key, (full, content) in before.items():
            if content is None:
                continue
            now = after.get(key)
            if now is not None and now[0] == full:
                continue
            really = now is None or now[1] != content
            if key[1] in protected:
                (changed_protected if really else touched).append(key)
            elif key[1] in known and (really or not addlease):
                changed_other.append(key)
        old_sis = set(k[1] for k in before)
        new_slots = set(k[1] for k in after if after[k][1] is not None and k[1] not in old_sis)

        def V(key, what):
            ck.violation(key, "%s via %s [%s]: %s" % (form, scen, cls, what), wit)

        ck.mon("protected-slots-unchanged")
        if changed_protected:
            V("readonly-authority-modified-grid", "%d share file(s) of mutable object(s) %s, which the requester cannot write, "
              "were changed (status %s)" % (len(changed_protected), sorted(set(k[1] for k in changed_protected))[:3], st))
        if touched and not addlease:
            V("readonly-authority-touched-share-file", "share file bytes outside the data changed for %s (status %s)" % (
                sorted(set(k[1] for k in touched))[:3], st))
        if judge_status and form in self.effective:
            ck.mon("refused-status")
            if st == "err":
                # The request is not carried out and nothing changed (judged above); what comes back is a bare
                # "Processing Failed" page without a status line (web/common.py _getChild_failed builds
                # ErrorPage(None, ...) for NotWriteableError).  That is a refusal, so C41 holds; the malformed
                # response is reported as an observation only (lead's decision).
                ck.observe("refusal-is-not-a-valid-http-response")
            elif not isinstance(st, int):
                V("request-never-completes", "no response (%s)" % st)
            elif st < 400:
                V("modifying-request-not-refused", "status %s although the target may not be written with the capabilities "
                  "presented (protected shares changed: %s)" % (st, bool(changed_protected)))
            else:
                ck.hit(cls)
        elif judge_status:
            ck.skip("status-not-judged-form-not-shown-effective")
        # "refused and changes nothing on the grid": a request whose target the presented capabilities cannot write and
        # that is answered with an error must leave EVERY mutable object alone, also a writeable destination it named
        # (to_dir=) or a writeable directory on its path - a half-performed operation is a modification made through
        # the read-only capability.
        if judge_status:
            ck.mon("refused-request-changes-nothing")
            if changed_other and not (isinstance(st, int) and st < 400):
                V("refused-request-changed-grid", "answered %s, yet %d share file(s) of mutable object(s) %s (writeable by other "
                  "capabilities named in the request) were changed: the operation was half performed" % (
                      st, len(changed_other), sorted(set(k[1] for k in changed_other))[:3]))
        elif changed_other and isinstance(st, int) and st >= 400:
            ck.observe("maintenance-request-with-error-status-changed-a-writeable-object")
        # ... and nothing else on the grid either: every share file on every server, immutable ones and new storage
        # indexes included.  A refused upload that has already stored its shares lets a read-cap holder fill the grid.
        imm_changed = [k for k, v in before.items() if v[1] is None and (k not in after or after[k][0] != v[0])]
        new_imm = sorted(set(k[1] for k in after if after[k][1] is None and k not in before))
        if judge_status:
            ck.mon("refused-request-stores-nothing")
            refused = not (isinstance(st, int) and st < 400)
            if refused and new_imm:
                V("refused-request-stored-new-shares", "answered %s, yet %d new immutable share file(s) for storage index(es) %s "
                  "were written to the storage servers" % (st, len([k for k in after if k not in before and after[k][1] is None]), new_imm[:3]))
            if refused and imm_changed:
                V("refused-request-changed-grid", "answered %s, yet %d existing immutable share file(s) were changed or removed" % (
                    st, len(imm_changed)))
            if refused and form in self.stores_shares and not new_imm:
                ck.hit("refused-immutable-upload-stored-nothing")
        if new_slots:
            # web/filenode.py replace_me_with_a_child / replace_me_with_a_formpost used to create the new MUTABLE file
            # (format=sdmf|mdmf) before trying to link it, so a refused request left an unlinked slot behind
            # (repaired in /repo, see known_findings.json).
            if judge_status and not (isinstance(st, int) and st < 400):
                V("refused-request-created-new-mutable-object", "answered %s, yet %d new mutable object(s) %s were created on "
                  "the storage servers" % (st, len(new_slots), sorted(new_slots)[:3]))
            else:
                ck.observe("request-left-new-mutable-object")
        self.scan(form, scen, cls, method, url, kw, st, hd, body, derivable)
        return st, hd, body, before

    def snap(self, fresh=False):
        """Snapshot with a one-entry cache: the harness invalidates it whenever it touches the grid itself."""
        if fresh or self._snap is None:
            self._snap = snapshot(self.g)
        return self._snap

    def scan(self, form, scen, cls, method, url, kw, st, hd, body, derivable=()):
        """No write secret of any harness object may appear in a response obtained with read-only authority
        (secrets the request itself supplied, or that are write-derivable from what it supplied, do not count)."""
        from urllib.parse import unquote_to_bytes
        ck = self.ck
        sent = url.encode("utf-8") + b"\n" + (kw.get("body") or b"") + b"\n" + unquote_to_bytes(url)
        for v in (kw.get("form") or {}).values():
            sent += b"\n" + (v[1] if isinstance(v, tuple) else (v.encode("utf-8") if isinstance(v, str) else v))
        hay = body + b"\n" + "\n".join("%s: %s" % kv for kv in sorted(hd.items())).encode("latin-1", "replace")
        hay += b"\n" + unquote_to_bytes(hay)
        ck.mon("write-secret-scan")
        for wk, oid in self.tree.secrets():
            o = self.tree.objs[oid]
            if wk in sent or o.si in derivable:
                continue
            if wk in hay:
                ck.violation("write-cap-in-readonly-response", "%s via %s [%s]: response (status %s) contains the write key of "
                             "a %s %s the requester holds no write authority for" % (form, scen, cls, st, o.fmt, o.kind),
                             dict(scenario=scen, form=form, url=url[:200], status=st, leaked_object=o.kind,
                                  context=hay[max(0, hay.find(wk) - 60):hay.find(wk) + 40]))

    # ---- twin: the same form with a write cap must change the grid
    def twin_dir(self, form_names):
        N = self.N
        mark = len(self.tree.objs)
        kids = self.std_children()
        S2 = self.mk_dir({"d": (self.mk_dir({}), "rw")})
        for form in form_names:
            S = self.mk_dir(kids, fmt=self.rng.choice(["SDMF", "MDMF"]))
            spec = self.dir_forms("/uri/" + self.web.q(S.cap), S2.cap)[form]
            before = snapshot(self.g)
            st, hd, body = self.web.http(self.g, self.stub, spec[0], spec[1], **spec[2])
            self.g.sched.settle()
            after = snapshot(self.g)
            watch = set([S.si] + [ch.si for ch, _ in S.children.values() if ch.mutable])
            if "relink" in form and "out" in form:
                watch = {S2.si, S2.children["d"][0].si}          # a move is shown effective by what arrives at the destination
            changed = any(k[1] in watch and (k not in after or after[k][1] != v[1]) for k, v in before.items() if v[1] is not None)
            if isinstance(st, int) and st < 400 and changed:
                self.effective.add(form)
                self.ck.hit("form-effective-with-writecap")
                if any(v[1] is None and k not in before for k, v in after.items()):
                    self.stores_shares.add(form)           # control: through a writeable path this upload stores CHK shares
                    self.ck.hit("immutable-upload-through-writecap-stores-shares")
            else:
                self.ck.observe("form-not-effective-with-writecap:" + form)
            self.discard([S])
        self.discard(self.tree.objs[mark:])
        self._snap = None

    def twin_file(self, form_names):
        mark = len(self.tree.objs)
        for form in form_names:
            parent = self.mk_dir({})
            mf = self.mk_mfile(size=30)
            self.link(parent, "tw", mf, "rw")
            with_parent = form in ("DELETE-entry", "PUT-entry-uri")
            base = "/uri/%s/tw" % self.web.q(parent.cap) if with_parent else "/uri/" + self.web.q(mf.cap)
            spec = self.file_forms(base, 30, True)[form]
            before = snapshot(self.g)
            st, hd, body = self.web.http(self.g, self.stub, spec[0], spec[1], **spec[2])
            self.g.sched.settle()
            after = snapshot(self.g)
            watch = {mf.si, parent.si}
            changed = any(k[1] in watch and (k not in after or after[k][1] != v[1]) for k, v in before.items() if v[1] is not None)
            if isinstance(st, int) and st < 400 and changed:
                self.effective.add("file:" + form)
                self.ck.hit("form-effective-with-writecap")
            else:
                self.ck.observe("form-not-effective-with-writecap:file:" + form)
        self.discard(self.tree.objs[mark:])
        self._snap = None

    # ---- reads through read-only authority
    def reads(self, scen, cls, base, target, caps, is_dir):
        web, g, ck, N, q = self.web, self.g, self.ck, self.N, self.web.q
        derivable = self.tree.derivable(caps)
        R = []
        R.append(("GET-json", "GET", base + "?t=json"))
        R.append(("GET-info", "GET", base + "?t=info"))
        R.append(("GET-uri", "GET", base + "?t=uri"))
        R.append(("GET-readonly-uri", "GET", base + "?t=readonly-uri"))
        R.append(("GET-plain", "GET", base))
        if is_dir:
            R.append(("GET-html-slash", "GET", base + "/"))
            R.append(("GET-rename-form", "GET", base + "?t=rename-form&name=" + q(N["file"])))
            for nm in (N["file"], N["mfile"], N["sub"], "alias-a"):
                R.append(("GET-child-json", "GET", base + "/" + q(nm) + "?t=json"))
                R.append(("GET-child-info", "GET", base + "/" + q(nm) + "?t=info"))
            R.append(("POST-stream-manifest", "POST", base + "?t=stream-manifest"))
            R.append(("POST-stream-deep-check", "POST", base + "?t=stream-deep-check"))
            R.append(("POST-check-json", "POST", base + "?t=check&output=json"))
            R.append(("POST-check-html", "POST", base + "?t=check"))
            for t in ("start-manifest", "start-deep-stats", "start-deep-size", "start-deep-check"):
                self.nhandle += 1
                h = "h%d" % self.nhandle
                R.append(("POST-" + t, "POST", base + "?t=%s&ophandle=%s" % (t, h)))
                for out in ("json", "html", "text"):
                    R.append(("GET-operations-%s-%s" % (t, out), "GET", "/operations/%s?output=%s" % (h, out)))
        else:
            R.append(("POST-check-json", "POST", base + "?t=check&output=json"))
            R.append(("POST-check-verify", "POST", base + "?t=check&verify=true"))
        for (name, method, url) in R:
            if ck.out_of_time():
                ck.observe("case-truncated-by-budget")
                return
            if name.startswith("GET-operations") and name.endswith("-json"):
                g.sched.run(until=lambda: False, max_steps=5000, horizon=30.0)     # let the background walk finish
            st, hd, body = web.http(g, self.stub, method, url)
            self.scan(name, scen, cls, method, url, {}, st, hd, body, derivable)
            if name == "GET-json" and st == 200 and target.mutable and target.ro in getattr(self, "held_writeable", ()):
                ck.hit("readcap-json-while-writecap-walk-holds-the-node")
            if name == "GET-operations-start-manifest-json" and st == 200 and b'"finished": true' in body:
                ck.hit("manifest-through-readcap")
            ck.case("read/" + name, key=(scen, name, target.fmt), nontrivial=isinstance(st, int) and st < 400,
                    sample=dict(scenario=scen, form=name, status=st))
        # maintenance forms: not modifications of content; leases may change, share data may not
        M = [("POST-check-repair-addlease", "POST", base + "?t=check&repair=true&add-lease=true")]
        if is_dir:
            self.nhandle += 1
            M.append(("POST-start-deep-check-repair-addlease", "POST",
                      base + "?t=start-deep-check&repair=true&add-lease=true&ophandle=m%d" % self.nhandle))
            M.append(("POST-stream-deep-check-repair-addlease", "POST", base + "?t=stream-deep-check&repair=true&add-lease=true"))
        for (name, method, url) in M:
            st, hd, body, before = self.request(name, (method, url, {}, []), scen, cls, caps, judge_status=False, target=target)
            g.sched.run(until=lambda: False, max_steps=5000, horizon=30.0)
            after2 = self.snap(fresh=True)
            prot = self.tree.mutable_sis() - derivable
            bad = [k for k, v in before.items() if v[1] is not None and k[1] in prot and (k not in after2 or after2[k][1] != v[1])]
            ck.mon("protected-slots-unchanged")
            if bad:
                ck.violation("readonly-authority-modified-grid", "%s via %s: share data of %s changed" % (
                    name, scen, sorted(set(k[1] for k in bad))[:3]), dict(scenario=scen, form=name, status=st))
            if any(k in after2 and after2[k][0] != v[0] for k, v in before.items()):
                ck.hit("lease-added-through-readcap")
            ck.case("maintenance/" + name, key=(scen, name, target.fmt), nontrivial=True, sample=dict(scenario=scen, form=name, status=st))

    # ---- the case
    def run(self):
        from urllib.parse import unquote
        ck, rng, web, g, q, N = self.ck, self.rng, self.web, self.g, self.web.q, self.N
        thorough = ck.tier == "thorough"
        self._snap = None
        scratch = self.mk_dir({"d": (self.mk_dir({}), "rw")})
        self.tree.pin(self.c)
        self.warm_walk()
        all_dir_forms = sorted(self.dir_forms("/uri/x", scratch.cap))
        all_file_forms = sorted(self.file_forms("/uri/x", 0, True))
        # 1. every form is shown effective (or not) with a write cap on a twin
        first = self.ci == 0 or thorough
        self.twin_dir(all_dir_forms if first else rng.sample(all_dir_forms, 18))
        self.twin_file(all_file_forms)
        if "POST-relink-out-to-writeable" in self.effective:
            self.effective.add("POST-relink-into-readonly")          # same form (t=relink&to_dir=), other direction
        # non-vacuity of the secret scan: write keys ARE visible when a write cap is presented
        st, hd, body = web.http(g, self.stub, "GET", "/uri/%s?t=json" % q(self.root.cap))
        if st == 200 and self.root.wk in body and self.A.wk in body and self.B.wk not in body:
            ck.hit("writecap-visible-through-writecap")
        # 2. directory scenarios
        scens = self.scenarios()
        for si_, (scen, cls, base, target, caps) in enumerate(scens):
            if ck.out_of_time():
                return
            names = [f for f in all_dir_forms if f in self.effective]
            rest = [f for f in all_dir_forms if f not in self.effective]
            if not thorough:
                names = rng.sample(names, min(len(names), 14))
                rest = rest[:2]
            for form in names + rest:
                if ck.out_of_time():
                    ck.observe("case-truncated-by-budget")
                    return
                spec = self.dir_forms(base, scratch.cap)[form]
                st, hd, body, _ = self.request(form, spec, scen, cls, caps, target=target)
                ck.case("modify/" + cls, key=(scen, form, target.fmt), nontrivial=form in self.effective,
                        sample=dict(scenario=scen, form=form, status=st, body=body[:80]))
            if thorough or (si_ + self.ci) % 2 == 0 or "after-writecap-walk" in scen:
                self.reads(scen, cls, base, target, caps, True)
        # 3. relink INTO a read-only directory from a writeable one
        src = self.mk_dir({N["file"]: (self.chk_shared, "rw")})
        self._snap = None
        for (scen, cls, base, target, caps) in scens:
            to_dir = unquote(base[len("/uri/"):])                          # "<cap>/<path>", the form to_dir= accepts
            spec = ("POST", "/uri/%s?t=relink&from_name=%s&to_dir=%s&to_name=%s" % (q(src.cap), q(N["file"]), q(to_dir), q(N["new"])), {}, [])
            st, hd, body, _ = self.request("POST-relink-into-readonly", spec, "relink-into:" + scen, "refused-relink-into-readonly",
                                           [src.cap] + list(caps), target=target)
            ck.case("modify/relink-into-readonly", key=(scen, target.fmt), nontrivial=True, sample=dict(scenario=scen, status=st, body=body[:80]))
        # 4. file scenarios
        order = ["PUT-mutable-contents", "PUT-mutable-offset0", "PUT-mutable-append", "POST-mutable-upload", "PUT-entry-uri", "DELETE-entry"]
        for (scen, cls, base, target, caps, parent_protected) in self.file_scenarios():
            if ck.out_of_time():
                return
            forms = self.file_forms(base, len(target.data), parent_protected is not None)
            for form in [f for f in order if f in forms]:
                entry_form = form in ("DELETE-entry", "PUT-entry-uri")
                if ("file:" + form) in self.effective:
                    self.effective.add(form)
                st, hd, body, _ = self.request(form, forms[form], scen, cls, caps, target=target,
                                               judge_status=not (entry_form and parent_protected is False))
                ck.case("modify-file/" + cls, key=(scen, form, target.fmt), nontrivial=True,
                        sample=dict(scenario=scen, form=form, status=st, body=body[:80]))
                if entry_form and parent_protected is False and isinstance(st, int) and st < 400:
                    ck.hit("entry-of-writeable-parent-replaced")
                    self.link(self.root, "rofile", self.mf_ro, "ro")      # put it back for what follows
                    self._snap = None
            self.reads(scen, cls, base, target, caps, False)
            # the file must still read back unchanged through its read cap
            st, hd, body = web.http(g, self.stub, "GET", "/uri/" + q(target.ro))
            ck.mon("protected-slots-unchanged")
            if st != 200 or body != target.data:
                ck.violation("readonly-authority-modified-grid", "after the refused requests via %s the file reads back differently "
                             "(status %s, %d bytes, expected %d)" % (scen, st, len(body), len(target.data)), dict(scenario=scen))


# MUST_CATCH (selftest/breaks_c41.py):
#   c41-nodecache-ignores-authority                   node cache keyed without the cap's authority: read-only caps get the cached
#                                                     writeable node -> readonly-authority-modified-grid, modifying-request-not-refused,
#                                                     write-cap-in-readonly-response      (covers "PUT ?t=uri&replace=true into a read-only
#                                                     dir succeeds", "unlink/rename through a read-cap", "t=json through a read-cap leaks rw_uri")
#   c41-urihandler-upgrades-to-cached-writeable-node  same, planted in web/root.py only    -> same three keys
#   c41-notwriteable-reported-as-200                  refusal rendered with a success code -> modifying-request-not-refused
#   c41-readonly-put-check-inverted                   PUT on a read-only mutable file says 200 -> modifying-request-not-refused
# NOT property breaks (second layer keeps the property true: MutableFileVersion asserts it is writeable, no write key / write
# enabler exists for a node made from a read cap); the check correctly stays silent:
#   c41-dirnode-delete-unchecked, c41-dirnode-set_node-unchecked, c41-filenode-put-readonly-check-removed
# Caught since the every-mutable-slot rule for refused requests and the write-cap-walk ordering were added:
#   c41-dirnode-move-unchecked, seeded/C41-1   relink from a read-only source into a writeable to_dir is answered 500 but the
#                                              destination gained the link                   -> refused-request-changed-grid
#   seeded/C41-4                               add_file uploads before set_node refuses: PUT/POST t=upload of a fresh CHK body through a
#                                              read-only directory is answered 500 but its shares are stored -> refused-request-stored-new-shares
#   seeded/C41-2                               node cache keyed by the read cap: after a write-cap walk whose child nodes are
#                                              still alive, read-cap requests are served by writeable nodes
#                                              -> modifying-request-not-refused, readonly-authority-modified-grid, write-cap-in-readonly-response
