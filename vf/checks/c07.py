"""C07 share_placement: complete, respects read-only servers, maximal spread."""
META = {
    "level": 'exploration',
    "technique": 'runtime oracle on the real share_placement() (exhaustive small layouts + seeded random, judged by an independent Kuhn matching) and on real uploads through Tahoe2ServerSelector against writable / read-only / full / room-for-one-share servers with pre-existing shares',
    "text": 'Executes the real share_placement on every layout with <=4 servers x <=5 shares (thorough, complete; quick samples it) and on random layouts up to 20x30; an independent augmenting-path matching decides completeness, read-only respect and optimal spread. Upload level (last sentence of the statement): 250 (quick) real uploads on an in-process grid whose servers are writable, read-only, full, have room for exactly one share (available space = the allocation size, +1, -1) or refuse every allocation, with pre-existing shares of the same file, all inside the 2N-server survey window; the same matching decides whether a happy layout was reachable, and an upload declared unhappy although it was is a violation. Exhaustive on the small placement bound, sampled beyond it and at upload level.',
    "note": 'Trusts the 15-line Kuhn matching model (self-tested) and that placement inputs are shaped as PeerSelector produces them (rw/ro disjoint, >=1 rw). Two upload-level classes fail on the unchanged tree and are known findings (retry loop after refused allocations).',
}
import itertools
from vf import env  # noqa
from vf.models import max_matching

BUDGET = {"quick": 35, "thorough": 300}


def classify(peers, ro, shares, held, result):
    """Return list of (key, what) violations of the statement."""
    out = []
    missing = [s for s in shares if s not in result or result[s] is None]
    if missing:
        out.append(("share-unassigned", "shares %r got no server" % (sorted(missing),)))
    for s, p in result.items():
        if p in ro and s not in held.get(p, ()):
            out.append(("ro-assigned-unheld",
                        "read-only server %r assigned share %r which it does not hold" % (p, s)))
            break
    for s, p in result.items():
        if p is not None and p not in ro and p not in peers:
            out.append(("assigned-to-unknown-server", "share %r -> %r (neither rw nor ro)" % (s, p)))
            break
    if not out:
        # optimum: RW servers accept anything; RO servers only what they hold
        nu = max_matching({p: [s for s in held.get(p, ()) if s in shares] for p in ro})
        best = min(len(shares), len(peers) + nu)
        used = len(set(result.values()))
        if used < best:
            out.append(("suboptimal-spread",
                        "placement uses %d distinct servers, %d achievable" % (used, best)))
    return out


SERVER_KINDS = ["rw", "rw", "rw", "ro", "full", "fits-one", "fits-one-plus-1", "allocate-always-fails",
                "every-request-fails"]


def upload_part(ck):
    """Upload level (last sentence of the statement): real Uploader / Tahoe2ServerSelector / share_placement / Encoder
    against real storage servers that are writable, read-only, full, or have room for exactly one share, with
    pre-existing shares of the same file; no server misbehaves except the kind that refuses every allocation.  Ground
    truth: a happy layout is reachable iff the maximum matching (writable server - any share; other servers - the
    shares they hold) reaches the threshold."""
    import os
    from vf.grid import VGrid
    from vf import imm
    from allmydata import uri
    from allmydata.interfaces import UploadUnhappinessError, NoServersError
    want = 340 if ck.tier == "quick" else 800
    j = 0
    done = 0
    import time as _time
    t_start = _time.time()
    half = 0.5 * BUDGET[ck.tier]      # leave the other half of the budget to the placement enumeration below
    while done < want and not (done >= 60 and (_time.time() - t_start > half or ck.out_of_time())):
        j += 1
        if not ck.mine(j):
            continue
        rng = ck.rng("upload", j)
        k = rng.randint(1, 3)
        n = rng.randint(k, min(k + 3, 6))
        # the selector surveys at most 2*N servers (by design); keep every server inside that window so that
        # "reachable" means reachable with the servers the uploader looks at
        nservers = rng.randint(1, min(6, 2 * n))
        happy = rng.randint(1, min(n, nservers))
        segsize = rng.choice([64, 128])
        data = imm.gen_data(rng, rng.choice([100, 200, 333]))
        key = rng.randbytes(16)
        # scratch upload: the share files of this (data, key, k, N) and the size the selector asks servers to reserve
        g0 = VGrid(nservers=n, seed=rng.getrandbits(32), profile="fifo", keep_log=True)
        try:
            c0 = g0.make_client(k=k, happy=1, n=n, max_segment_size=segsize)
            st0, res0 = g0.wait(c0.upload(imm.FixedKeyData(data, key)))
            if st0 != "ok":
                ck.observe("scratch-upload-failed")
                continue
            cap = res0.get_uri()
            si = uri.from_string(cap).get_storage_index()
            S = [r["args"][4] for r in g0.calls if r["method"] == "allocate_buckets"][0]
            shares = {}
            for (_vs, shnum, path) in g0.find_shares(si):
                with open(path, "rb") as f:
                    shares[shnum] = f.read()
        finally:
            g0.close()
        kinds = [rng.choice(SERVER_KINDS) for _ in range(nservers)]
        mode = rng.random()
        if mode < .55:
            # directed: exactly `happy` (or one fewer) usable servers, the others unusable
            usable = set(rng.sample(range(nservers), happy if mode < .4 else happy - 1))
            kinds = [rng.choice(["rw", "fits-one", "fits-one-plus-1"]) if s in usable
                     else rng.choice(["ro", "full", "allocate-always-fails", "every-request-fails"]) for s in range(nservers)]
        if os.environ.get("VF_C07_ONLY_RW_AND_REFUSING"):
            kinds = [("allocate-always-fails" if kk == "allocate-always-fails" else "rw") for kk in kinds]
            if "allocate-always-fails" not in kinds and len(kinds) > 1:
                kinds[rng.randrange(len(kinds))] = "allocate-always-fails"
        elif rng.random() < .3:
            # refusing servers next to unlimited ones only
            kinds = [("rw" if kk.startswith("fits-one") else kk) for kk in kinds]
            if "allocate-always-fails" not in kinds and "every-request-fails" not in kinds and len(kinds) > 1:
                kinds[rng.randrange(len(kinds))] = rng.choice(["allocate-always-fails", "every-request-fails"])
            while kinds.count("allocate-always-fails") + kinds.count("every-request-fails") > 1 and rng.random() < .7:
                # mostly exactly one misbehaving server (two or more is the known-finding class)
                j2 = [x for x, kk in enumerate(kinds) if kk in ("allocate-always-fails", "every-request-fails")][0]
                kinds[j2] = "rw"
        dens = rng.choice([0, 0, .2, .5])
        held = {s: sorted(h for h in range(n) if rng.random() < dens) for s in range(nservers)}
        g = VGrid(nservers=nservers, seed=rng.getrandbits(32), profile=rng.choice(["fifo", "per-server-fifo", "free"]),
                  keep_log=bool(os.environ.get("VF_C07_DEBUG")), readonly={s for s in range(nservers) if kinds[s] == "ro"})
        try:
            with ck.watchdog(180, "upload case %d" % j):
                for s in range(nservers):
                    vs = g.servers[s]
                    for h in held[s]:
                        d = vs.sharedir(si)
                        os.makedirs(d, exist_ok=True)
                        with open(os.path.join(d, "%d" % h), "wb") as f:
                            f.write(shares[h])
                    if kinds[s] == "full":
                        vs.set_available_space(S - 1)
                    elif kinds[s] == "fits-one":
                        vs.set_available_space(S)
                    elif kinds[s] == "fits-one-plus-1":
                        vs.set_available_space(S + 1)
                    elif kinds[s] == "allocate-always-fails":
                        vs.add_fault("raise", method="allocate_buckets")
                    elif kinds[s] == "every-request-fails":
                        vs.add_fault("raise")
                c = g.make_client(k=k, happy=happy, n=n, max_segment_size=segsize)
                st, res = g.wait(c.upload(imm.FixedKeyData(data, key)))
                writable = [s for s in range(nservers) if kinds[s] in ("rw", "fits-one", "fits-one-plus-1")]
                # lower bound (must not be declared unhappy): a misbehaving server contributes nothing;
                # upper bound (must not succeed beyond it): a server that only refuses allocations still shows the
                # shares it holds to the survey
                edges = {s: (list(range(n)) if s in writable else
                             [] if kinds[s] in ("allocate-always-fails", "every-request-fails") else held[s])
                         for s in range(nservers)}
                reachable = max_matching(edges)
                edges_hi = {s: (list(range(n)) if s in writable else
                                [] if kinds[s] == "every-request-fails" else held[s]) for s in range(nservers)}
                reachable_hi = max_matching(edges_hi)
                w = dict(case=j, k=k, n=n, happy=happy, kinds=kinds, held=held, allocated_size=S, reachable_happiness=reachable,
                         status=st, error=(res.type.__name__ + ": " + str(res.value)[:300]) if st == "err" else None)
                ck.mon("upload-happy-when-reachable")
                if reachable >= happy:
                    ck.hit("happy-layout-reachable")
                    if any(kinds[s] in ("fits-one", "fits-one-plus-1") for s in writable):
                        ck.hit("reachable-with-a-server-that-fits-exactly-one-share")
                    limited = any(kk.startswith("fits-one") for kk in kinds)
                    nref = kinds.count("allocate-always-fails") + kinds.count("every-request-fails")
                    if st == "err" and res.check(UploadUnhappinessError, NoServersError):
                        feat = ("two-or-more-servers-refuse-every-allocation" if nref >= 2 else
                                "one-server-fails-every-request" if nref == 1 and not limited
                                and "every-request-fails" in kinds else
                                "one-refusing-server-next-to-servers-with-room-for-one-share" if nref == 1 and limited else
                                "one-server-refuses-every-allocation" if nref == 1 else
                                "servers-with-room-for-exactly-one-share" if limited else "plain")
                        if os.environ.get("VF_C07_DEBUG"):
                            print("CASE", j, w)
                            for r in g.calls:
                                if r["method"] in ("allocate_buckets", "get_buckets"):
                                    print("   ", r["server"], r["method"], r["args"][3] if r["method"] == "allocate_buckets"
                                          else "", str(r["result"])[:120])
                        ck.violation("upload-declared-unhappy-although-a-happy-layout-was-reachable/" + feat,
                                     "happy=%d is reachable (maximum matching %d over servers %s, pre-existing shares %s) yet the "
                                     "upload failed: %s" % (happy, reachable, kinds, held, w["error"]), w)
                    elif st == "err" and nref == 1 and not limited and "every-request-fails" in kinds:
                        # a server that fails every request is dropped at the survey; nothing else can go wrong here
                        ck.violation("upload-failed-although-a-happy-layout-was-reachable/one-server-fails-every-request",
                                     "happy=%d is reachable with the servers that work (%s), one server fails every request, "
                                     "yet the upload failed: %s" % (happy, kinds, w["error"]), w)
                    elif st == "err":
                        ck.observe("upload-failed-otherwise-although-reachable:" + res.type.__name__)
                    elif st != "ok":
                        ck.observe("upload-did-not-complete:" + st)
                    else:
                        ck.hit("upload-succeeded")
                        # (what ends up stored may be fewer than N share numbers: the uploader proceeds once the
                        # threshold is met; the statement's completeness clause is about the planned placement)
                        if nref == 1 and not limited:
                            ck.hit("upload-succeeded-around-one-refusing-server")
                        if limited and not nref:
                            ck.hit("upload-succeeded-with-servers-that-fit-exactly-one-share")
                elif reachable_hi >= happy:
                    ck.skip("reachable-only-with-shares-held-by-a-server-that-refuses-allocations")
                else:
                    ck.hit("happy-layout-unreachable")
                    if st == "ok":
                        ck.violation("upload-succeeded-although-threshold-unreachable",
                                     "happy=%d, maximum matching %d, yet the upload reported success" % (happy, reachable), w)
                ck.case("upload", key=repr((k, n, happy, kinds, held)), nontrivial=any(kk != "rw" for kk in kinds) or any(
                    held.values()), sample=w)
                done += 1
        finally:
            g.close()
    ck.require_monitor("upload-happy-when-reachable")
    ck.require_reach("happy-layout-reachable", "happy-layout-unreachable", "upload-succeeded",
                     "upload-succeeded-around-one-refusing-server",
                     "upload-succeeded-with-servers-that-fit-exactly-one-share")


def run(ck):
    from allmydata.immutable.happiness_upload import share_placement
    upload_part(ck)
    ck.rule = ("inputs (rw peers>=1, ro peers, share set, peer->held shares) shaped like PeerSelector's; "
               "small layouts enumerated (<=3 rw+ro servers x <=4 shares quick, <=4 x <=5 thorough, sharded), "
               "plus seeded random up to 20 servers x 30 shares; distinct = distinct input tuple; "
               "non-trivial = at least one pre-existing share or one read-only server")
    rng = ck.rng("c07")

    def one(peers, ro, shares, held, cls):
        peers_in = set(peers); ro_in = set(ro); shares_in = set(shares)
        held_in = {p: set(v) for p, v in held.items()}
        try:
            res = share_placement(peers_in, ro_in, shares_in, held_in)
        except Exception as e:
            ck.violation("placement-raises", "share_placement raised %s: %s" % (type(e).__name__, e),
                         {"peers": sorted(peers), "ro": sorted(ro), "shares": sorted(shares),
                          "held": {p: sorted(v) for p, v in held.items()}})
            ck.case(cls, key=(tuple(sorted(peers)), tuple(sorted(ro)), tuple(sorted(shares)),
                              tuple(sorted((p, tuple(sorted(v))) for p, v in held.items()))))
            return
        ck.mon("placement-oracle")
        for key, what in classify(set(peers), set(ro), set(shares), held, res):
            ck.violation(key, what, {"peers": sorted(peers), "ro": sorted(ro), "shares": sorted(shares),
                                     "held": {p: sorted(v) for p, v in held.items()},
                                     "result": {s: res[s] for s in sorted(res)}})
        ck.case(cls, key=(tuple(sorted(peers)), tuple(sorted(ro)), tuple(sorted(shares)),
                          tuple(sorted((p, tuple(sorted(v))) for p, v in held.items()))),
                nontrivial=bool(ro) or any(held.values()),
                sample={"rw": sorted(peers), "ro": sorted(ro), "shares": sorted(shares),
                        "held": {p: sorted(v) for p, v in held.items()},
                        "placement": {str(s): res[s] for s in sorted(res)}})

    # ---- enumeration of small layouts
    maxsrv, maxsh = (3, 4) if ck.tier == "quick" else (4, 5)
    idx = 0
    complete = True
    names = ["a", "b", "c", "d"]
    for nsrv in range(1, maxsrv + 1):
        for nrw in range(1, nsrv + 1):
            rw = names[:nrw]; ro = names[nrw:nsrv]
            for nsh in range(1, maxsh + 1):
                shares = list(range(nsh))
                cells = [(p, s) for p in rw + ro for s in shares]
                for mask in range(1 << len(cells)):
                    idx += 1
                    if not ck.mine(idx):
                        continue
                    if ck.tier == "quick" and len(cells) > 8 and (mask * 2654435761 + ck.seed) % 23:
                        continue
                    if ck.out_of_time():
                        complete = False
                        break
                    held = {}
                    for i, (p, s) in enumerate(cells):
                        if mask >> i & 1:
                            held.setdefault(p, set()).add(s)
                    one(rw, ro, shares, held, "enum")
    ck.extra["enumeration_complete"] = complete and ck.tier == "thorough"
    ck.extra["enumeration_bounds"] = {"servers": maxsrv, "shares": maxsh}
    # ---- random larger
    n = 1500 if ck.tier == "quick" else 12000
    for i in range(n):
        if ck.out_of_time():
            break
        nsrv = rng.randint(1, 20)
        nrw = rng.randint(1, nsrv)
        srv = ["s%02d" % j for j in range(nsrv)]
        rng.shuffle(srv)
        rw, ro = srv[:nrw], srv[nrw:]
        nsh = rng.randint(1, 30)
        shares = list(range(nsh))
        dens = rng.choice([0, .05, .1, .3, .6])
        held = {}
        for p in srv:
            hs = set(s for s in shares if rng.random() < dens)
            if rng.random() < .1:
                hs |= {nsh + rng.randint(0, 3)}   # a share number outside the requested set
            if hs:
                held[p] = hs
        one(rw, ro, shares, held, "random")
    ck.require_monitor("placement-oracle")
