"""C07 share_placement: complete, respects read-only servers, maximal spread."""
META = {
    "level": 'exploration',
    "technique": 'runtime oracle on the real share_placement(): exhaustive enumeration of small layouts + seeded random layouts, judged by an independent Kuhn matching',
    "text": 'Executes the real share_placement on every layout with <=4 servers x <=5 shares (thorough, complete; quick samples it) and on random layouts up to 20x30; an independent augmenting-path matching decides completeness, read-only respect and optimal spread. Exhaustive on the small bound, sampled beyond it.',
    "note": 'Trusts the 15-line Kuhn matching model (self-tested) and that inputs are shaped as PeerSelector produces them (rw/ro disjoint, >=1 rw).',
}
import itertools
from vf import env  # noqa
from vf.models import max_matching

BUDGET = {"quick": 35, "thorough": 300}


def classify(peers, ro, shares, held, result):
    """Return list of (key, what) violations of the statement."""
    out = []
    missing = [s for s in shares if s not in result or result[s] is None]
    if missing:
        out.append(("share-unassigned", "shares %r got no server" % (sorted(missing),)))
    for s, p in result.items():
        if p in ro and s not in held.get(p, ()):
            out.append(("ro-assigned-unheld",
                        "read-only server %r assigned share %r which it does not hold" % (p, s)))
            break
    for s, p in result.items():
        if p is not None and p not in ro and p not in peers:
            out.append(("assigned-to-unknown-server", "share %r -> %r (neither rw nor ro)" % (s, p)))
            break
    if not out:
        # optimum: RW servers accept anything; RO servers only what they hold
        nu = max_matching({p: [s for s in held.get(p, ()) if s in shares] for p in ro})
        best = min(len(shares), len(peers) + nu)
        used = len(set(result.values()))
        if used < best:
            out.append(("suboptimal-spread",
                        "placement uses %d distinct servers, %d achievable" % (used, best)))
    return out


def run(ck):
    from allmydata.immutable.happiness_upload import share_placement
    ck.rule = ("inputs (rw peers>=1, ro peers, share set, peer->held shares) shaped like PeerSelector's; "
               "small layouts enumerated (<=3 rw+ro servers x <=4 shares quick, <=4 x <=5 thorough, sharded), "
               "plus seeded random up to 20 servers x 30 shares; distinct = distinct input tuple; "
               "non-trivial = at least one pre-existing share or one read-only server")
    rng = ck.rng("c07")

    def one(peers, ro, shares, held, cls):
        peers_in = set(peers); ro_in = set(ro); shares_in = set(shares)
        held_in = {p: set(v) for p, v in held.items()}
        try:
            res = share_placement(peers_in, ro_in, shares_in, held_in)
        except Exception as e:
            ck.violation("placement-raises", "share_placement raised %s: %s" % (type(e).__name__, e),
                         {"peers": sorted(peers), "ro": sorted(ro), "shares": sorted(shares),
                          "held": {p: sorted(v) for p, v in held.items()}})
            ck.case(cls, key=(tuple(sorted(peers)), tuple(sorted(ro)), tuple(sorted(shares)),
                              tuple(sorted((p, tuple(sorted(v))) for p, v in held.items()))))
            return
        ck.mon("placement-oracle")
        for key, what in classify(set(peers), set(ro), set(shares), held, res):
            ck.violation(key, what, {"peers": sorted(peers), "ro": sorted(ro), "shares": sorted(shares),
                                     "held": {p: sorted(v) for p, v in held.items()},
                                     "result": {s: res[s] for s in sorted(res)}})
        ck.case(cls, key=(tuple(sorted(peers)), tuple(sorted(ro)), tuple(sorted(shares)),
                          tuple(sorted((p, tuple(sorted(v))) for p, v in held.items()))),
                nontrivial=bool(ro) or any(held.values()),
                sample={"rw": sorted(peers), "ro": sorted(ro), "shares": sorted(shares),
                        "held": {p: sorted(v) for p, v in held.items()},
                        "placement": {str(s): res[s] for s in sorted(res)}})

    # ---- enumeration of small layouts
    maxsrv, maxsh = (3, 4) if ck.tier == "quick" else (4, 5)
    idx = 0
    complete = True
    names = ["a", "b", "c", "d"]
    for nsrv in range(1, maxsrv + 1):
        for nrw in range(1, nsrv + 1):
            rw = names[:nrw]; ro = names[nrw:nsrv]
            for nsh in range(1, maxsh + 1):
                shares = list(range(nsh))
                cells = [(p, s) for p in rw + ro for s in shares]
                for mask in range(1 << len(cells)):
                    idx += 1
                    if not ck.mine(idx):
                        continue
                    if ck.tier == "quick" and len(cells) > 8 and (mask * 2654435761 + ck.seed) % 23:
                        continue
                    if ck.out_of_time():
                        complete = False
                        break
                    held = {}
                    for i, (p, s) in enumerate(cells):
                        if mask >> i & 1:
                            held.setdefault(p, set()).add(s)
                    one(rw, ro, shares, held, "enum")
    ck.extra["enumeration_complete"] = complete and ck.tier == "thorough"
    ck.extra["enumeration_bounds"] = {"servers": maxsrv, "shares": maxsh}
    # ---- random larger
    n = 1500 if ck.tier == "quick" else 12000
    for i in range(n):
        if ck.out_of_time():
            break
        nsrv = rng.randint(1, 20)
        nrw = rng.randint(1, nsrv)
        srv = ["s%02d" % j for j in range(nsrv)]
        rng.shuffle(srv)
        rw, ro = srv[:nrw], srv[nrw:]
        nsh = rng.randint(1, 30)
        shares = list(range(nsh))
        dens = rng.choice([0, .05, .1, .3, .6])
        held = {}
        for p in srv:
            hs = set(s for s in shares if rng.random() < dens)
            if rng.random() < .1:
                hs |= {nsh + rng.randint(0, 3)}   # a share number outside the requested set
            if hs:
                held[p] = hs
        one(rw, ro, shares, held, "random")
    ck.require_monitor("placement-oracle")
