"""C05 convergent capabilities and literal files."""
META = {
    "level": "exploration",
    "technique": "runtime monitoring of real uploads (Data / FileHandle / FileName / list-chunked and short-read uploadables) on several in-process grids; differential oracle against an independent hashlib model of the convergence key and storage index plus pairwise equality/inequality of caps under one-at-a-time parameter perturbation",
    "text": "Each case fixes (plaintext, convergence secret, k, N, max segment size) and uploads it through the real client several times: from different uploadable kinds and read chunkings, in shuffled order, on two grids that differ in server count, delivery profile and schedule; then again with exactly one of secret / k / N / max segment size changed (max segment size both so that the effective segment size min(max,size) rounded up to a multiple of k changes and so that it does not), and twice with convergence=None. Oracles: caps of equal inputs are byte-identical; caps of equal (data,secret,k,N,effective segment size) are identical; any change of secret/k/N/effective segment size changes the storage index; the AES key in the cap equals SHA256d(netstring(tag+netstring(secret)+netstring('k,n,segsize'))+data)[:16] and the storage index equals the tagged SHA256d of the key, both recomputed with hashlib from re-typed tags; share files exist on disk under the model's storage index; sizes <=55 give URI:LIT: + base32(data) (independent base32) whatever the parameters, readable and uploadable with zero servers / all servers disconnected; size >=56 gives CHK; convergence=None twice gives different keys and storage indexes. Every fifth case exercises the other entry point that takes a convergence secret: one set of deep-immutable children is made into an immutable directory through Client.create_immutable_dirnode and NodeMaker.create_immutable_directory on two clients with different private secrets, with convergence omitted (node default), b'', b'x' and the node's own secret spelled out; the packed bytes are read back and the directory cap must carry the model key for (packed, effective secret, k, N, segsize), equal the cap of a direct Data(packed, secret) upload, be identical for equal effective secrets (also across nodes for b'') and differ in storage index for different ones; literal-sized directories must not depend on secret or node. Sizes are biased to 0,1,54..57, multiples of k and of the segment size +-1 and (at least once per run) to the 64 KiB block size of the key hasher +-1.",
    "note": "Trusts hashlib/base64, the in-process Wire and the virtual reactor. Random keys (convergence=None) come from os.urandom: inequality is judged, the values are not reproducible. The statement's 'segment size' is read as the effective segment size recorded in the share (what the key derivation hashes); a change of the configured maximum that leaves it unchanged must leave the cap unchanged.",
}
LEVEL = "exploration"
BUDGET = {"quick": 36, "thorough": 360}
SHARDS = {"quick": 1, "thorough": 10}

from vf import env  # noqa
import base64
import hashlib
import os
import shutil
import tempfile
from io import BytesIO

from vf import imm

# ---- independent model (tags re-typed from docs/specifications and util/hashutil.py, not imported)
CONVERGENCE_TAG = b"allmydata_immutable_content_to_key_with_added_secret_v1+"
STORAGE_INDEX_TAG = b"allmydata_immutable_key_to_storage_index_v1"
LIT_MAX = 55
PROFILES = ["fifo", "per-server-fifo", "free"]
KINDS = ["data", "filehandle", "chunky", "filename", "shortread"]


def sha256d(b):
    return hashlib.sha256(hashlib.sha256(b).digest()).digest()


def ns(b):
    return b"%d:" % len(b) + b + b","


def model_effseg(maxseg, size, k):
    s = min(maxseg, size)
    return ((s + k - 1) // k) * k


def model_key(secret, k, n, effseg, data):
    return sha256d(ns(CONVERGENCE_TAG + ns(secret) + ns(b"%d,%d,%d" % (k, n, effseg))) + data)[:16]


def model_si(key):
    return sha256d(ns(STORAGE_INDEX_TAG) + key)[:16]


def b32(b):
    return base64.b32encode(b).lower().rstrip(b"=")


def unb32(s):
    s = s.upper()
    return base64.b32decode(s + b"=" * (-len(s) % 8))


def model_lit(data):
    return b"URI:LIT:" + b32(data)


def parse_chk(cap):
    """Independent parse of URI:CHK:key:uebhash:k:n:size -> dict or None."""
    parts = cap.split(b":")
    if len(parts) != 7 or parts[0] != b"URI" or parts[1] != b"CHK":
        return None
    try:
        return dict(key=unb32(parts[2]), ueb=unb32(parts[3]), k=int(parts[4]), n=int(parts[5]), size=int(parts[6]))
    except Exception:
        return None


# ---- uploadables
class ShortReadFile(object):
    """File object whose read(n) returns between 1 and n bytes (like a pipe or raw stream); b'' only at EOF."""

    def __init__(self, data, rng):
        self._f = BytesIO(data)
        self._rng = rng

    def read(self, n=-1):
        if n is None or n < 0:
            return self._f.read()
        if n == 0:
            return b""
        m = self._rng.choice([1, n, n, self._rng.randint(1, n), min(n, 7), max(1, n - 1)])
        return self._f.read(m)

    def seek(self, *a):
        return self._f.seek(*a)

    def tell(self):
        return self._f.tell()

    def close(self):
        pass


def make_uploadable(kind, data, secret, rng, tmpdirs):
    from allmydata.immutable import upload
    from twisted.internet import defer
    if kind == "data":
        return upload.Data(data, convergence=secret)
    if kind == "filehandle":
        return upload.FileHandle(BytesIO(data), convergence=secret)
    if kind == "chunky":
        return imm.ChunkyUploadable(data, secret, rng)
    if kind == "filename":
        d = tempfile.mkdtemp(prefix="vf-")
        tmpdirs.append(d)
        fn = os.path.join(d, "upload.bin")
        with open(fn, "wb") as f:
            f.write(data)
        return upload.FileName(fn, convergence=secret)

    class ShortReadUploadable(upload.FileHandle):
        # the key hasher reads the file object directly (short reads); IUploadable.read() must not be short
        def read(self, length):
            out = []
            got = 0
            while got < length:
                piece = self._filehandle.read(length - got)
                if not piece:
                    break
                out.append(piece)
                got += len(piece)
            return defer.succeed(out or [b""])
    return ShortReadUploadable(ShortReadFile(data, rng), convergence=secret)


# ---- generators
def gen_case(rng, tier, force_big=False, force_size=None):
    n = rng.choice([1, 2, 2, 3, 3, 3, 4, 4, 5, 6, 10])
    k = rng.randint(1, n)
    if force_big:
        n = rng.choice([2, 3, 4])
        k = rng.randint(1, n)
        size = rng.choice([65535, 65536, 65537, 131071, 131072, 131073, 65536 + rng.randint(2, 5000)])
        maxseg = rng.choice([131072, 65536, 32768, 200000])
        return dict(k=k, n=n, size=size, maxseg=maxseg)
    maxseg = rng.choice([k, 2 * k + 1, 16, 40, 56, 57, 64, 100, 128, 1024, 4096, 131072])
    r = rng.random()
    if r < .30:
        size = rng.choice([0, 1, 2, 16, 54, 55, 55, 55, 56, 56, 56, 57, 58])
    elif r < .75:
        eff = max(k, ((maxseg + k - 1) // k) * k)
        size = rng.choice([m * b + d for m in (1, 2, 3, 5) for b in (k, maxseg, eff) for d in (-1, 0, 1)] + [56, 57, 100, 255, 256, 257])
    else:
        size = rng.randint(0, 3000 if tier == "quick" else 40000)
    size = max(0, size) if force_size is None else force_size
    while size // max(1, min(maxseg, max(size, 1))) > 30:      # bound the number of segments
        maxseg *= 4
    return dict(k=k, n=n, size=size, maxseg=maxseg)


def other_maxseg(rng, maxseg, size, k, want_same_eff):
    """A different max segment size whose effective value is the same / different; None if impossible."""
    eff = model_effseg(maxseg, size, k)
    cands = [maxseg + d for d in (-3, -2, -1, 1, 2, 3)] + [maxseg * 2, maxseg // 2, size, size + 1, size - 1, size + 1000,
                                                           eff, eff - 1, eff + 1, eff - k + 1, 131072, 2 * size + 7]
    cands = [c for c in cands if c >= 1 and c != maxseg]
    rng.shuffle(cands)
    for c in cands:
        e2 = model_effseg(c, size, k)
        if e2 < 1 or size // e2 > 60:
            continue
        if (e2 == eff) == want_same_eff:
            return c
    return None


def run(ck):
    from vf.grid import VGrid
    from allmydata import uri

    ck.rule = ("case = (plaintext,size,secret,k,N,max segment size) uploaded 2-4 times from different uploadable kinds/"
               "chunkings on two grids in shuffled order + one upload per single-parameter change (secret, k, N, max "
               "segment size with changed effective value, max segment size with unchanged effective value) + two "
               "convergence=None uploads; sizes biased to 0/1/54-57, k and segment multiples +-1, 64KiB+-1; distinct = "
               "(size,k,N,maxseg,kinds,perturbations); non-trivial = CHK (size>55) or literal boundary (54-55). Every "
               "fifth case is a directory case: one set of immutable children is turned into an immutable directory "
               "through Client.create_immutable_dirnode / NodeMaker.create_immutable_directory on two clients with "
               "different private secrets, with convergence in {omitted, b'', b'x', the node's own secret spelled out}")
    i = 0
    min_cases = 40 if ck.tier == "quick" else 150
    while ck.more(min_cases=min_cases):
        i += 1
        if not ck.mine(i):
            continue
        rng = ck.rng("case", i)
        j = (i - 1) // ck.nshards
        with ck.watchdog(240, "case %d" % i):
            if j % 5 == 4:
                dir_case(ck, rng, i, j // 5, VGrid, uri)      # the other entry point that takes a convergence secret
            else:
                one_case(ck, rng, i, VGrid, uri)
    ck.require_monitor("key-model", "storage-index-model", "same-inputs-same-cap", "perturbation-changes-storage-index",
                       "literal-model", "random-keys-differ", "directory-key-model", "directory-equals-direct-upload",
                       "directory-same-secret-same-cap", "directory-secret-changes-storage-index")
    ck.require_reach("immutable-directory-chk", "immutable-directory-literal", "directory-secret:default",
                     "directory-secret:explicit-empty", "directory-secret:explicit-node-secret",
                     "directory-secret:explicit-other", "directory-via:client", "directory-via:nodemaker",
                     "directory-empty-secret-on-two-nodes")
    ck.require_reach("chk", "literal", "size-55", "size-56", "secret-changed", "k-changed", "n-changed",
                     "maxseg-changed-effective-changed", "maxseg-changed-effective-same", "effective-differs-from-max",
                     "second-grid", "kind:data", "kind:filehandle", "kind:chunky", "kind:filename", "kind:shortread",
                     "literal-read-without-servers", "literal-upload-without-servers", "file-larger-than-hasher-block")
    ck.assumptions.append("'segment size' in the statement = effective segment size recorded in the share "
                          "(min(max_segment_size,size) rounded up to a multiple of k)")


def one_case(ck, rng, i, VGrid, uri):
    j = (i - 1) // ck.nshards    # ordinal of this case within its shard: the boundary sizes come round on a fixed rota
    big = (j == 0) or rng.random() < (.04 if ck.tier == "thorough" else .02)
    p = gen_case(rng, ck.tier, force_big=big, force_size={1: 55, 2: 56, 3: 54, 4: 57}.get(j % 8))
    k, n, size, maxseg = p["k"], p["n"], p["size"], p["maxseg"]
    data = imm.gen_data(rng, size)
    secret = rng.choice([b"", b"s", b"secret-%d" % rng.randrange(3), rng.randbytes(rng.choice([1, 16, 32]))])
    is_lit = size <= LIT_MAX
    tmpdirs = []

    # ---- the upload specs
    def spec(role, kind, grid, **kw):
        s = dict(role=role, kind=kind, grid=grid, secret=secret, k=k, n=n, maxseg=maxseg)
        s.update(kw)
        return s
    kinds = rng.sample(KINDS, rng.choice([2, 3, 3, 4]))
    specs = [spec("base", kd, j % 2) for j, kd in enumerate(kinds)]
    secret2 = secret + b"x" if rng.random() < .5 else rng.randbytes(16)
    specs.append(spec("secret", rng.choice(KINDS[:3]), rng.randrange(2), secret=secret2))
    k2 = rng.choice([x for x in (k - 1, k + 1, 1, n) if 1 <= x <= n and x != k] or [None])
    if k2 is not None:
        specs.append(spec("k", rng.choice(KINDS[:3]), rng.randrange(2), k=k2))
    n2 = rng.choice([x for x in (n - 1, n + 1, n + 3) if x >= k and x != n and x <= 12])
    specs.append(spec("n", rng.choice(KINDS[:3]), rng.randrange(2), n=n2))
    for want_same in (False, True):
        m2 = other_maxseg(rng, maxseg, size, k, want_same) if size > 0 else None
        if m2 is not None:
            specs.append(spec("maxseg-eff-same" if want_same else "maxseg-eff-changed",
                              rng.choice(KINDS[:3]), rng.randrange(2), maxseg=m2))
    if not big or rng.random() < .5:
        specs.append(spec("random", rng.choice(KINDS[:3]), 0, secret=None))
        specs.append(spec("random", rng.choice(KINDS[:3]), rng.randrange(2), secret=None))
    desc = dict(size=size, k=k, n=n, maxseg=maxseg, effseg=model_effseg(maxseg, size, k) if size else 0,
                secret=secret, kinds=kinds)

    # ---- run them, one grid after the other
    lit_grid_mode = rng.choice(["zero-servers", "all-disconnected"]) if is_lit else None
    try:
        for gi in (0, 1):
            mine = [s for s in specs if s["grid"] == gi]
            rng.shuffle(mine)
            if not mine:
                continue
            nservers = rng.randint(1, 4) if gi == 0 else rng.randint(2, 6)
            if is_lit and gi == 1 and lit_grid_mode == "zero-servers":
                nservers = 0
            g = VGrid(nservers=nservers, seed=rng.getrandbits(32), profile=PROFILES[(i + gi) % 3], keep_log=False)
            try:
                if is_lit and gi == 1 and lit_grid_mode == "all-disconnected":
                    for vs in g.servers:
                        vs.disconnect()
                if gi == 1:
                    ck.hit("second-grid")
                clients = {}
                for s in mine:
                    ckey = (s["k"], s["n"], s["maxseg"], s["secret"] if rng.random() < .5 else None)
                    c = clients.get(ckey)
                    if c is None:
                        c = clients[ckey] = g.make_client(k=s["k"], happy=1, n=s["n"], max_segment_size=s["maxseg"],
                                                          convergence=ckey[3])
                    sec = s["secret"]
                    if ckey[3] is not None:
                        if c.convergence != sec:
                            ck.violation("client-convergence-secret-not-the-configured-one",
                                         "private/convergence holds %r, client.convergence is %r" % (sec, c.convergence), desc)
                        sec = c.convergence      # the way the web API / CLI pass it
                    u = make_uploadable(s["kind"], data, sec, rng, tmpdirs)
                    st, res = g.wait(c.upload(u))
                    ck.hit("kind:" + s["kind"])
                    s["status"] = st
                    s["nservers"] = nservers
                    if st != "ok":
                        s["cap"] = None
                        if is_lit:
                            ck.violation("literal-upload-needs-servers" if not any(v.connected for v in g.servers)
                                         else "literal-upload-failed",
                                         "upload of %d bytes %s with %d connected servers: %s" % (
                                             size, st, sum(v.connected for v in g.servers), _f(res)), dict(desc, spec=_s(s)))
                        else:
                            ck.observe("chk-upload-" + st)      # availability is C01/C06's business
                        continue
                    s["cap"] = res.get_uri()
                    if is_lit and not any(v.connected for v in g.servers):
                        ck.hit("literal-upload-without-servers")
                    judge_one(ck, g, c, s, data, desc, uri, rng)
            finally:
                g.close()
        judge_pairs(ck, specs, data, desc, uri)
    finally:
        for d in tmpdirs:
            shutil.rmtree(d, ignore_errors=True)
    if size == 55:
        ck.hit("size-55")
    if size == 56:
        ck.hit("size-56")
    if size > 65536:
        ck.hit("file-larger-than-hasher-block")
    ck.case("literal" if is_lit else "chk",
            key=(size, k, n, maxseg, tuple(kinds), tuple(sorted(s["role"] for s in specs))),
            nontrivial=(not is_lit) or size >= 54, sample=dict(desc, uploads=[_s(s) for s in specs][:6]))


def dir_case(ck, rng, i, t, VGrid, uri):
    """Immutable directories are immutable uploads of the packed children made with a caller-supplied convergence
    secret (None = the node's private secret).  Same oracle as for files: the cap is a function of (packed bytes,
    secret, k, N, segment size) and nothing else; b"" is a secret like any other."""
    from allmydata.immutable.upload import Data
    n = rng.choice([1, 2, 3, 3, 4, 5])
    k = rng.randint(1, n)
    maxseg = rng.choice([k, 16, 56, 64, 100, 1024, 131072])
    nchild = 0 if t % 4 == 0 else rng.choice([2, 2, 3, 4, 6, 9])
    sA = rng.choice([b"node-secret-A", rng.randbytes(32), rng.randbytes(16)])
    sB = rng.choice([b"node-secret-B", rng.randbytes(32)])
    specs_children = []
    for ci in range(nchild):
        name = rng.choice(["f%d", "file-%d.txt", "\u00e4%d", "d%d"]) % ci
        specs_children.append((name, imm.gen_data(rng, rng.randint(0, 55)), rng.choice([{}, {}, {"n": ci}, {"tag": "x" * ci}])))
    desc = dict(part="immutable-directory", k=k, n=n, maxseg=maxseg, children=nchild, node_secret_A=sA, node_secret_B=sB)
    g = VGrid(nservers=rng.randint(1, 4), seed=rng.getrandbits(32), profile=PROFILES[i % 3], keep_log=False)
    try:
        cl = {"A": g.make_client(k=k, happy=1, n=n, max_segment_size=maxseg, convergence=sA),
              "B": g.make_client(k=k, happy=1, n=n, max_segment_size=maxseg, convergence=sB)}
        own = {"A": sA, "B": sB}
        for nm in ("A", "B"):
            if cl[nm].convergence != own[nm]:
                ck.violation("client-convergence-secret-not-the-configured-one",
                             "private/convergence holds %r, client.convergence is %r" % (own[nm], cl[nm].convergence), desc)
        chk_child = None
        if nchild and rng.random() < .3:      # one real CHK child among the literal ones
            st, res = g.wait(cl["A"].upload(Data(imm.gen_data(rng, rng.randint(56, 300)), convergence=b"")))
            if st == "ok":
                chk_child = res.get_uri()

        def children_for(c):
            out = {}
            for ci, (name, body, md) in enumerate(specs_children):
                cap = chk_child if (ci == 0 and chk_child) else model_lit(body)
                out[name] = (c.create_node_from_uri(cap), dict(md))
            return out
        variants = [("A", "client", None), ("A", "client", sA), ("A", "nodemaker", b""), ("B", "client", b""),
                    ("A", "client", b"x"), ("B", "nodemaker", None), ("B", "client", b"x"), ("A", "nodemaker", sA),
                    ("B", "nodemaker", b"")]
        variants = [v for v in variants if rng.random() < .8 or v[2] == b""]
        rng.shuffle(variants)
        made = []
        for (nm, via, arg) in variants:
            c = cl[nm]
            kids = children_for(c)
            if via == "client":
                d = c.create_immutable_dirnode(kids) if arg is None and rng.random() < .5 else c.create_immutable_dirnode(kids, arg)
            else:
                d = c.nodemaker.create_immutable_directory(kids, arg)
            st, dn = g.wait(d)
            v = dict(client=nm, via=via, secret_arg=arg, effective=own[nm] if arg is None else arg, status=st)
            ck.hit("directory-via:" + via)
            ck.hit("directory-secret:" + ("default" if arg is None else "explicit-empty" if arg == b"" else
                                          "explicit-node-secret" if arg == own[nm] else "explicit-other"))
            if st != "ok":
                ck.observe("directory-creation-" + st)
                continue
            v["cap"] = dn.get_uri()
            made.append(v)
        if len(set(v["client"] for v in made if v["secret_arg"] == b"")) == 2:
            ck.hit("directory-empty-secret-on-two-nodes")
        lit = [v for v in made if v["cap"].startswith(b"URI:DIR2-LIT:")]
        chk = [v for v in made if v["cap"].startswith(b"URI:DIR2-CHK:")]
        for v in made:
            if v not in lit and v not in chk:
                ck.violation("immutable-directory-cap-kind", "unexpected cap %r" % v["cap"][:30], dict(desc, variant=_v(v)))
        if lit:
            ck.hit("immutable-directory-literal")
            ck.mon("directory-same-secret-same-cap")
            if chk or len(set(v["cap"] for v in lit)) > 1:
                ck.violation("literal-directory-cap-depends-on-secret-or-node",
                             "%d different caps (%d literal, %d CHK) for one set of children" % (
                                 len(set(v["cap"] for v in made)), len(lit), len(chk)), dict(desc, variants=[_v(v) for v in made]))
        # ---- CHK directories: read the packed bytes back, then judge like any other convergent upload
        directs = {}
        for v in chk:
            ck.hit("immutable-directory-chk")
            filecap = b"URI:CHK:" + v["cap"][len(b"URI:DIR2-CHK:"):]
            f = parse_chk(filecap)
            w = dict(desc, variant=_v(v))
            if f is None:
                ck.violation("immutable-directory-cap-malformed", "cannot parse %r" % v["cap"], w)
                continue
            v["fields"] = f
            st, res, cons = imm.read_all(g, cl["A"].create_node_from_uri(filecap))
            if st != "ok":
                ck.observe("directory-readback-" + st)
                continue
            packed = cons.value()
            v["packed"] = packed
            if len(packed) <= LIT_MAX:
                ck.violation("small-file-not-literal", "a %d-byte packed directory got a CHK cap" % len(packed), w)
            if (f["k"], f["n"], f["size"]) != (k, n, len(packed)):
                ck.violation("cap-parameters-differ-from-upload", "directory cap says (k,N,size)=%r, client configured %r, packed "
                             "%d bytes" % ((f["k"], f["n"], f["size"]), (k, n), len(packed)), w)
            eff = model_effseg(maxseg, len(packed), k)
            ck.mon("directory-key-model")
            want = model_key(v["effective"], k, n, eff, packed)
            if f["key"] != want:
                why = ""
                if v["secret_arg"] is not None and f["key"] == model_key(own[v["client"]], k, n, eff, packed):
                    why = "/explicit-%ssecret-replaced-by-node-secret" % ("empty-" if v["secret_arg"] == b"" else "")
                ck.violation("immutable-directory-key-differs-from-model" + why,
                             "directory created with convergence=%r on a node whose own secret is %r: key %s, model "
                             "SHA256d(netstring(tag+netstring(secret)+netstring('%d,%d,%d'))+packed)[:16] = %s" % (
                                 v["secret_arg"], own[v["client"]], f["key"].hex(), k, n, eff, want.hex()), w)
            try:
                v["si"] = uri.from_string(v["cap"]).get_verify_cap().get_filenode_cap().get_storage_index()
            except Exception:
                v["si"] = uri.from_string(filecap).get_storage_index()
            if v["si"] != model_si(f["key"]):
                ck.violation("storage-index-differs-from-model", "directory storage index %s != model %s" % (
                    v["si"].hex(), model_si(f["key"]).hex()), w)
            # the very same bytes uploaded directly with the same secret must give the very same file cap
            dk = (v["effective"], packed)
            if dk not in directs:
                st, res = g.wait(cl[rng.choice("AB")].upload(Data(packed, convergence=v["effective"])))
                directs[dk] = res.get_uri() if st == "ok" else None
            if directs[dk] is not None:
                ck.mon("directory-equals-direct-upload")
                if directs[dk] != filecap:
                    ck.violation("immutable-directory-cap-differs-from-direct-upload",
                                 "create_immutable_dirnode(children, %r) gave %r, Data(packed, %r) gave %r" % (
                                     v["secret_arg"], v["cap"], v["effective"], directs[dk]), w)
        judged = [v for v in chk if "si" in v]
        for a_i, a in enumerate(judged):
            for b in judged[a_i + 1:]:
                w = dict(desc, a=_v(a), b=_v(b))
                if a["packed"] != b["packed"]:
                    ck.observe("directory-packing-differs-between-calls")
                    continue
                if a["effective"] == b["effective"]:
                    ck.mon("directory-same-secret-same-cap")
                    if a["cap"] != b["cap"]:
                        ck.violation("immutable-directory-same-inputs-different-cap",
                                     "same children, same secret %r (given as %r on node %s and %r on node %s): different caps" % (
                                         a["effective"], a["secret_arg"], a["client"], b["secret_arg"], b["client"]), w)
                else:
                    ck.mon("directory-secret-changes-storage-index")
                    if a["si"] == b["si"]:
                        ck.violation("immutable-directory-storage-index-unchanged-after-changing-secret",
                                     "directories made with secrets %r and %r share storage index %s" % (
                                         a["effective"], b["effective"], a["si"].hex()), w)
        ck.case("immutable-directory", key=("dir", k, n, maxseg, nchild, tuple(sorted((v["client"], v["via"], repr(v["secret_arg"])) for v in made))),
                nontrivial=bool(chk), sample=dict(desc, variants=[_v(v) for v in made][:5]))
    finally:
        g.close()


def _v(v):
    return {k: x for k, x in v.items() if k in ("client", "via", "secret_arg", "effective", "status", "cap")}


def judge_one(ck, g, c, s, data, desc, uri, rng):
    """Per-upload oracles: literal threshold, literal content, key and storage-index model, shares on disk."""
    cap = s["cap"]
    size = len(data)
    w = dict(desc, spec=_s(s), cap=cap)
    if size <= LIT_MAX:
        ck.hit("literal")
        ck.mon("literal-model")
        if not cap.startswith(b"URI:LIT:"):
            ck.violation("small-file-not-literal", "a %d-byte file got %r" % (size, cap[:40]), w)
            return
        if cap != model_lit(data):
            ck.violation("literal-cap-does-not-embed-data", "cap %r, expected %r" % (cap, model_lit(data)), w)
        try:
            if uri.from_string(cap).data != data:
                ck.violation("literal-cap-parses-to-other-data", "LiteralFileURI.data differs from the upload", w)
        except Exception as e:
            ck.violation("literal-cap-does-not-parse", "%s: %s" % (type(e).__name__, e), w)
            return
        # readable with no servers at all
        if not any(v.connected for v in g.servers) or rng.random() < .3:
            if any(v.connected for v in g.servers):
                for vs in g.servers:
                    vs.disconnect()
                s["disconnected_after"] = True
            node = c.create_node_from_uri(cap)
            st, res, cons = imm.read_all(g, node)
            ck.hit("literal-read-without-servers")
            if st != "ok":
                ck.violation("literal-read-needs-servers", "read of a literal cap with zero connected servers: %s %s" % (st, _f(res)), w)
            elif cons.value() != data:
                ck.violation("literal-read-wrong-bytes", "literal read returned %d bytes, differ from the %d uploaded" % (
                    cons.nbytes, size), w)
            if s.get("disconnected_after"):
                for vs in g.servers:
                    vs.start()
        return
    ck.hit("chk")
    if cap.startswith(b"URI:LIT:"):
        ck.violation("large-file-literal", "a %d-byte file got a literal cap" % size, w)
        return
    f = parse_chk(cap)
    if f is None:
        ck.violation("chk-cap-malformed", "cannot parse %r" % cap, w)
        return
    s["fields"] = f
    try:
        s["si"] = uri.from_string(cap).get_storage_index()
    except Exception as e:
        ck.violation("chk-cap-does-not-parse", "%s: %s" % (type(e).__name__, e), w)
        return
    if (f["k"], f["n"], f["size"]) != (s["k"], s["n"], size):
        ck.violation("cap-parameters-differ-from-upload", "cap says (k,N,size)=%r, uploaded %r" % (
            (f["k"], f["n"], f["size"]), (s["k"], s["n"], size)), w)
    ck.mon("storage-index-model")
    if s["si"] != model_si(f["key"]):
        ck.violation("storage-index-differs-from-model",
                     "storage index %s != SHA256d(netstring(tag)+key)[:16] %s" % (s["si"].hex(), model_si(f["key"]).hex()), w)
    if not g.find_shares(model_si(f["key"])):
        ck.violation("no-shares-under-model-storage-index", "successful upload, no share file under the storage index "
                     "derived from the cap's key", w)
    if s["secret"] is not None:
        eff = model_effseg(s["maxseg"], size, s["k"])
        s["eff"] = eff
        if eff != s["maxseg"]:
            ck.hit("effective-differs-from-max")
        ck.mon("key-model")
        want = model_key(s["secret"], s["k"], s["n"], eff, data)
        if f["key"] != want:
            # classify by which alternative derivation reproduces the observed key (deterministic, mechanism-level)
            alts = {"max-segment-size-hashed-instead-of-effective": model_key(s["secret"], s["k"], s["n"], s["maxseg"], data),
                    "secret-not-hashed": model_key(b"", s["k"], s["n"], eff, data),
                    "k-and-n-swapped": model_key(s["secret"], s["n"], s["k"], eff, data)}
            why = [nm for nm, v in sorted(alts.items()) if v == f["key"]]
            ck.violation("convergence-key-differs-from-model" + ("/" + why[0] if why else ""),
                         "key in cap %s, model SHA256d(netstring(tag+netstring(secret)+netstring('%d,%d,%d'))+data)[:16] = %s" % (
                             f["key"].hex(), s["k"], s["n"], eff, want.hex()), w)


def judge_pairs(ck, specs, data, desc, uri):
    done = [s for s in specs if s.get("cap")]
    size = len(data)
    if size <= LIT_MAX:
        caps = set(s["cap"] for s in done)
        ck.mon("same-inputs-same-cap")
        if len(caps) > 1:
            ck.violation("literal-cap-depends-on-parameters", "%d different literal caps for one plaintext" % len(caps),
                         dict(desc, uploads=[_s(s) for s in done]))
        for s in done:
            if s["role"] in ("secret", "k", "n", "maxseg-eff-same", "maxseg-eff-changed"):
                ck.skip("perturbation-on-literal-file")     # no storage index to change
        return
    conv = [s for s in done if s["secret"] is not None and "si" in s]
    for a_i, a in enumerate(conv):
        for b in conv[a_i + 1:]:
            ta = (a["secret"], a["k"], a["n"], a["eff"])
            tb = (b["secret"], b["k"], b["n"], b["eff"])
            w = dict(desc, a=_s(a), b=_s(b))
            if ta == tb:
                same_inputs = a["maxseg"] == b["maxseg"]
                ck.mon("same-inputs-same-cap")
                if a["grid"] != b["grid"]:
                    ck.hit("same-inputs-across-grids")
                if not same_inputs:
                    ck.hit("maxseg-changed-effective-same")
                if a["cap"] != b["cap"]:
                    if same_inputs:
                        ck.violation("same-inputs-different-cap",
                                     "equal (data,secret,k,N,max_segsize) uploaded from %s and %s gave different caps" % (
                                         a["kind"], b["kind"]), w)
                    else:
                        ck.violation("same-encoding-different-cap",
                                     "equal (data,secret,k,N) and equal effective segment size %d (max %d vs %d) gave "
                                     "different caps" % (a["eff"], a["maxseg"], b["maxseg"]), w)
            else:
                changed = [nm for nm, x, y in zip(("secret", "k", "n", "segsize"), ta, tb) if x != y]
                ck.mon("perturbation-changes-storage-index")
                for nm in changed:
                    if nm == "segsize" and len(changed) > 1:
                        continue      # a changed k usually drags the effective segment size along
                    ck.hit({"secret": "secret-changed", "k": "k-changed", "n": "n-changed",
                            "segsize": "maxseg-changed-effective-changed"}[nm])
                if a["si"] == b["si"]:
                    ck.violation("storage-index-unchanged-after-changing-" + "+".join(changed),
                                 "uploads differing in %s share storage index %s" % (changed, a["si"].hex()), w)
    rnd = [s for s in done if s["secret"] is None and "si" in s]
    for a_i, a in enumerate(rnd):
        for b in rnd[a_i + 1:]:
            ck.mon("random-keys-differ")
            if a["fields"]["key"] == b["fields"]["key"] or a["si"] == b["si"]:
                ck.violation("random-key-repeated", "two convergence=None uploads of the same data share key/storage index %s" % (
                    a["si"].hex()), dict(desc, a=_s(a), b=_s(b)))
        for b in conv:
            ck.mon("random-keys-differ")
            if a["fields"]["key"] == b["fields"]["key"]:
                ck.violation("random-key-equals-convergent-key", "a convergence=None upload got the convergent key", dict(desc, a=_s(a), b=_s(b)))


def _s(s):
    return {k: v for k, v in s.items() if k in ("role", "kind", "grid", "secret", "k", "n", "maxseg", "eff", "status", "cap", "nservers")}


def _f(res):
    try:
        return "%s: %s" % (res.type.__name__, str(res.value)[:300])
    except Exception:
        return repr(res)[:300]


# MUST_CATCH (selftest/breaks_c05.py; all 20 caught at quick tier, seed 0):
#   c05-hash-max-segsize-instead-of-effective -> convergence-key-differs-from-model/max-segment-size-hashed-instead-of-effective, same-encoding-different-cap
#   c05-params-tag-omits-n / -k / -segsize    -> convergence-key-differs-from-model, storage-index-unchanged-after-changing-<n|k|segsize>
#   c05-secret-not-hashed                     -> convergence-key-differs-from-model/secret-not-hashed, storage-index-unchanged-after-changing-secret
#   c05-key-hasher-drops-last-byte-of-full-blocks (>=64KiB only), c05-key-hasher-stops-at-short-read, c05-key-hasher-does-not-rewind,
#   c05-convergent-tag-changed                -> convergence-key-differs-from-model (+ same-inputs-different-cap)
#   c05-storage-index-tag-changed, c05-storage-index-from-half-the-key -> storage-index-differs-from-model
#   c05-lit-threshold-strict -> small-file-not-literal; c05-lit-threshold-56 -> large-file-literal
#   c05-lit-keeps-first-chunk-only -> literal-cap-does-not-embed-data
#   c05-random-key-fixed -> random-key-repeated; c05-none-falls-back-to-empty-secret -> random-key-equals-convergent-key
#   directory entry point (4/4): c05-dir-empty-secret-treated-as-not-given (= seeded/C05-8), c05-dir-ignores-given-secret,
#   c05-dir-default-secret-is-empty, c05-dir-default-secret-is-random-key
#       -> immutable-directory-key-differs-from-model[/explicit-empty-secret-replaced-by-node-secret],
#          immutable-directory-cap-differs-from-direct-upload, immutable-directory-same-inputs-different-cap,
#          immutable-directory-storage-index-unchanged-after-changing-secret
#   seeded/C05-1..8 all caught (tools/selftest.py --seeded --prop C05)
