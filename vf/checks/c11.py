"""C11 mutable version ordering and rollback resistance."""
META = {
    "level": "exploration",
    "technique": "runtime monitoring of real servermap updates, reads and publishes on composed grids; expectations are computed from the wire log (what each survey was actually told, parsed by an independent share parser) and from the harness's publish history",
    "text": "A history of up to 6 versions is published through the write-cap and every server's share directory is snapshotted after each publish. Grids of 3..12 servers are then composed from the snapshots: any subset of servers holds a stale snapshot, is empty, unreachable, erroring, or answers later queries from an older snapshot; directed compositions put the newest version below k shares, make two versions recoverable, and hide the newest version behind the first 2k servers of the permuted order. On each composition fresh clients run get_servermap(MODE_READ)+best_recoverable_version()+download_version(), download_best_version() and overwrite(). Oracles: (a) every successful publish wrote a sequence number strictly greater than every sequence number contained in an answer its survey received before the first write was sent; (b) a read returns the content of the recoverable version (>= k distinct share numbers of one (seqnum, root hash) among the answers received) with the highest sequence number; (c) a MODE_READ update that was told of a higher-seqnum version it cannot recover has queried every listed server before finishing. Under the 'local processing first' schedule the set of answers received before the Deferred fired is exact; under free schedules the same predicates are required of some delivery-order prefix of the answers.",
    "note": "Ground truth: publish history and snapshots recorded by the harness, wire log of the in-process grid, independent struct-level parser. RSA keys from a fixed pool, salts from a seeded stream. Sampled exploration.",
}
LEVEL = "exploration"
BUDGET = {"quick": 42, "thorough": 240}
SHARDS = {"quick": 1, "thorough": 12}

from vf import env  # noqa

FAMILIES = ["random", "newest-unrecoverable", "two-recoverable", "evidence-then-more", "random", "replay",
            "down", "all-newest", "newest-unrecoverable", "evidence-then-more", "two-recoverable", "random",
            "all-oldest", "replay", "evidence-then-more", "update-vs-newer", "held-modify", "update-vs-newer",
            "held-modify", "thin-newest-flaky", "newest-unrecoverable", "thin-newest-flaky", "newer-dup-copies", "thin-newest-flaky",
            "newer-dup-copies"]


def run(ck):
    import allmydata.mutable.publish as publish_mod
    default_seg = publish_mod.DEFAULT_MUTABLE_MAX_SEGMENT_SIZE
    real_os = publish_mod.os
    from vf.checks._mut import virtual_time_on
    undo_time = virtual_time_on()
    ck.rule = ("history = (format, k<=N<=10, 3..12 servers, 1..6 published versions); composition = per-server state "
               "(snapshot of version j | empty | unreachable | erroring | answers n-th query from snapshot j') from a "
               "directed or random family; operations = two-step read, download_best_version, overwrite by fresh "
               "clients under an exact ('local first') or free schedule; distinct = (k, N, servers, history length, "
               "per-server states, operation, schedule mode); non-trivial = not every server holds the newest version")
    counter = [ck.shard * 4]
    i = 0
    try:
        while ck.more(min_cases=500 if ck.tier == "quick" else 0):   # not by wall clock alone (load: see DESIGN 8.4b)
            i += 1
            if not ck.mine(i):
                continue
            rng = ck.rng("case", i)
            h = History(ck, rng, counter, publish_mod)
            try:
                with ck.watchdog(240, "history %d %r" % (i, h.p)):
                    h.run()
            finally:
                h.close()
                publish_mod.DEFAULT_MUTABLE_MAX_SEGMENT_SIZE = default_seg
                publish_mod.os = real_os
            if ck.tier == "quick" and ck.evaluations >= 900:
                break
    finally:
        publish_mod.DEFAULT_MUTABLE_MAX_SEGMENT_SIZE = default_seg
        publish_mod.os = real_os
        undo_time()
    ck.observe("eventual-exceptions", len(env.evq.exceptions))
    ck.require_monitor("publish-seqnum-above-survey", "read-returns-best-located", "read-keeps-searching-on-newer-evidence",
                       "modify-reads-best-located", "modify-result-derives-from-best-located")
    ck.require_reach("publish-saw-unrecoverable-newer-version", "read-with-two-recoverable-versions",
                     "read-extended-search-on-newer-evidence", "read-returned-older-than-newest-published",
                     "read-returned-newest", "publish-ok", "exact-schedule", "free-schedule",
                     "server-answered-from-older-snapshot", "update-ok",
                     "held-version-still-recoverable-next-to-a-newer-one", "held-modify-result-derives-from-newest",
                     "repair-publish-judged", "repair-forced-ok", "retried-read-judged-on-its-last-survey",
                     "download-version-of-unrecoverable-version-refused",
                     "read-with-k-copies-of-fewer-than-k-share-numbers-of-a-newer-version")


def gen_params(rng):
    fmt = rng.choice(["SDMF", "MDMF"])
    k, n = rng.choice([(1, 2), (1, 3), (2, 3), (2, 4), (2, 6), (3, 5), (3, 7), (3, 10), (1, 4), (2, 5)])
    nservers = rng.choice([3, 4, 5, 6, 8, 10, 12, max(3, n), max(3, n + 2), max(3, 2 * k + 2)])
    nver = rng.choice([1, 2, 3, 3, 4, 5, 6])
    sizes = [rng.randint(8, 400) for _ in range(nver)]
    segsize = rng.choice([30, 64, 128, 1000])
    if rng.random() < .35:
        # shares larger than the 4000 bytes a survey caches: a download then needs further requests
        nver = rng.choice([2, 2, 3])
        sizes = [rng.randint(4300 * k, 5200 * k) for _ in range(nver)]
        segsize = rng.choice([1000, 4096])
    return dict(fmt=fmt, k=k, n=n, nservers=nservers, segsize=segsize, sizes=sizes)


class History(object):
    def __init__(self, ck, rng, counter, publish_mod):
        self.ck, self.rng, self.counter, self.publish_mod = ck, rng, counter, publish_mod
        self.p = gen_params(rng)
        self.g = None

    def close(self):
        if self.g is not None:
            self.g.close()
            self.g = None

    def build(self):
        from vf.grid import VGrid
        from vf.checks import _mut as M
        ck, rng, p = self.ck, self.rng, self.p
        self.M = M
        M.use_fixed_keypool(rng.randrange(10))
        self.publish_mod.os = M.DetOS(ck.rng("salts", rng.getrandbits(32)))
        self.publish_mod.DEFAULT_MUTABLE_MAX_SEGMENT_SIZE = p["segsize"]
        self.g = g = VGrid(nservers=p["nservers"], seed=rng.getrandbits(32), profile="free", keep_log=True)
        self.sched_rng = ck.rng("sched", rng.getrandbits(32))
        g.sched.chooser = M.ev_first_chooser(self.sched_rng)
        c = g.make_client(k=p["k"], happy=1, n=p["n"], mutable_format=p["fmt"])
        plain = []
        for s in p["sizes"]:
            b = rng.randbytes(s)
            while b in plain:
                b = rng.randbytes(s)
            plain.append(b)
        node, snaps, done = M.publish_history(g, c, plain, ck.observe)
        if node is None or not snaps:
            ck.observe("create-failed")
            return False
        self.node, self.snaps, self.plain = node, snaps, done
        self.si = node.get_storage_index()
        self.rw_uri, self.ro_uri = node.get_uri(), node.get_readonly_uri()
        self.vid = [M.version_of_snapshot(s) for s in snaps]      # (seqnum, root, k, N) per history index
        if None in self.vid:
            ck.observe("snapshot-not-single-version")
            return False
        seqs = [v[0] for v in self.vid]
        if seqs != sorted(set(seqs)):
            ck.violation("one-writer-seqnums-not-strictly-increasing",
                         "one writer published sequence numbers %r" % (seqs,), dict(params=p, seqnums=seqs))
        self.order = [s.vserver.index for s in c.storage_broker.get_servers_for_psi(self.si)]
        # which servers hold shares at all (placement is stable over the history)
        self.holders = [idx for idx in self.order if self.snaps[-1].get(idx)]
        return True

    def run(self):
        if not self.build():
            return
        rounds = 6 if self.ck.tier == "quick" else 10
        for r in range(rounds):
            if not self.ck.more(min_cases=500 if self.ck.tier == "quick" else 0):
                break
            fam = FAMILIES[self.counter[0] % len(FAMILIES)]
            self.counter[0] += 1
            self.one_round(fam)

    # ------------------------------------------------------------ composition
    def compose(self, fam):
        """-> {server index: state}; state = ("v", j) | ("empty",) | ("down", how) | ("replay", j, j2, from_nth)"""
        rng, p = self.rng, self.p
        h = len(self.snaps)
        newest = h - 1
        k = p["k"]
        states = {}
        self.extras = {}          # (server index, shnum) -> history index: additional share files
        holders = list(self.holders)

        def shares_of(idxs, j=newest):
            s = set()
            for idx in idxs:
                s |= set(self.snaps[j].get(idx, {}).keys())
            return s

        self.flaky = []
        if fam == "thin-newest-flaky" and h == 1:
            fam = "all-newest"
        if fam == "thin-newest-flaky":
            # the newest version recoverable but thin (k or k+1 distinct shares), an older one with all the other
            # shares; every server of the newest version fails exactly one request right after the survey
            rng.shuffle(holders)
            new_on = []
            want = rng.choice([k, k, k + 1])
            for idx in holders:
                if len(shares_of(new_on)) < want:
                    new_on.append(idx)
            old = rng.randrange(newest)
            for idx in holders:
                states[idx] = ("v", newest) if idx in new_on else ("v", old)
            self.flaky = list(new_on) if rng.random() < .8 else new_on[:max(1, len(new_on) - 1)]
        elif fam == "held-modify":
            fam = rng.choice(["all-newest", "all-newest", "random", "two-recoverable"]) if h > 1 else "all-newest"
        if fam == "update-vs-newer" and h == 1:
            fam = "all-newest"
        if fam == "newer-dup-copies" and (h == 1 or k < 2):
            fam = "newest-unrecoverable" if h > 1 else "all-newest"
        if fam == "thin-newest-flaky":
            pass
        elif fam == "newer-dup-copies":
            # the newest version below k DISTINCT share numbers but with k or more share files (second copies of its
            # share numbers on other servers); an older version recoverable
            rng.shuffle(holders)
            new_on = []
            for idx in holders:
                if len(shares_of(new_on + [idx])) < k:
                    new_on.append(idx)
            old = rng.randrange(newest)
            for idx in holders:
                states[idx] = ("v", newest) if idx in new_on else ("v", old)
            have = [(idx, sh) for idx in new_on for sh in self.snaps[newest].get(idx, {})]
            copies, tries = len(have), 0
            want = rng.choice([k, k + 1])
            while have and copies < want and tries < 40:
                tries += 1
                owner, sh = rng.choice(have)
                cands = [vs.index for vs in self.g.servers if vs.index not in new_on and (vs.index, sh) not in self.extras
                         and sh not in self.snaps[-1].get(vs.index, {})]
                if cands:
                    self.extras[(rng.choice(cands), sh)] = (newest, owner)
                    copies += 1
        elif fam == "update-vs-newer":
            # an older recoverable version, the newest one below k distinct shares, and -- so that an in-place update
            # of the older version has something to patch for every share number it will write -- a copy of the older
            # version's share for each share number that only exists in the newest version
            rng.shuffle(holders)
            new_on = []
            for idx in holders:
                if len(shares_of(new_on + [idx])) < k:
                    new_on.append(idx)
            old = rng.randrange(newest)
            for idx in holders:
                states[idx] = ("v", newest) if idx in new_on else ("v", old)
            for idx in new_on:
                for sh in self.snaps[newest].get(idx, {}):
                    owner_raw = self.snaps[old].get(idx, {}).get(sh)
                    cands = [vs.index for vs in self.g.servers if vs.index != idx
                             and sh not in self.snaps[-1].get(vs.index, {}) and (vs.index, sh) not in self.extras]
                    if owner_raw is not None and cands:
                        self.extras[(rng.choice(cands), sh)] = (old, idx)
        elif fam == "all-newest" or h == 1 and fam in ("newest-unrecoverable", "two-recoverable", "evidence-then-more",
                                                     "all-oldest", "replay"):
            for idx in holders:
                states[idx] = ("v", newest)
            if fam != "all-newest":
                # single-version history: vary availability instead
                for idx in rng.sample(holders, rng.randint(0, max(0, len(holders) - 1))):
                    states[idx] = rng.choice([("empty",), ("down", rng.choice(["hidden", "zombie", "raise"]))])
        elif fam == "all-oldest":
            for idx in holders:
                states[idx] = ("v", 0)
        elif fam == "newest-unrecoverable":
            # newest version on servers that together hold fewer than k distinct shares of it
            rng.shuffle(holders)
            new_on = []
            for idx in holders:
                if len(shares_of(new_on + [idx])) < k:
                    new_on.append(idx)
            if not new_on and k == 1:
                # k == 1: a single share is already recoverable; use an empty newest set and rely on other families
                pass
            old = rng.randrange(newest)
            for idx in holders:
                states[idx] = ("v", newest) if idx in new_on else ("v", rng.choice([old, old, rng.randrange(newest)]))
        elif fam == "two-recoverable":
            a, b = rng.sample(range(h), 2)
            rng.shuffle(holders)
            half = len(holders) // 2
            for n_, idx in enumerate(holders):
                states[idx] = ("v", a if n_ < half else b)
        elif fam == "evidence-then-more":
            # in permuted order: the first 2k share holders show a recoverable old version and a little of the newest;
            # the rest hold the newest
            old = rng.randrange(newest)
            first = [idx for idx in self.order if idx in holders][:2 * k]
            rest = [idx for idx in holders if idx not in first]
            new_in_first = []
            cand = list(first)
            rng.shuffle(cand)
            for idx in cand:
                if len(shares_of(new_in_first + [idx])) < k and \
                        len(shares_of([x for x in first if x not in new_in_first + [idx]], old)) >= k:
                    new_in_first.append(idx)
                    if rng.random() < .6:
                        break
            for idx in first:
                states[idx] = ("v", newest) if idx in new_in_first else ("v", old)
            for idx in rest:
                states[idx] = ("v", newest) if rng.random() < .85 else ("v", rng.randrange(h))
        elif fam == "replay":
            for idx in holders:
                states[idx] = ("v", rng.choice([newest, newest, rng.randrange(h)]))
            for idx in rng.sample(holders, rng.randint(1, len(holders))):
                j = states[idx][1]
                j2 = rng.randrange(h)
                states[idx] = ("replay", j, j2, rng.choice([1, 2, 2, 3]))
        elif fam == "down":
            for idx in holders:
                states[idx] = ("v", rng.choice([newest, newest, rng.randrange(h)]))
            for idx in rng.sample(holders, rng.randint(1, max(1, len(holders) - 1))):
                states[idx] = ("down", rng.choice(["hidden", "zombie", "raise"]))
        else:   # random
            for idx in holders:
                r = rng.random()
                if r < .65:
                    states[idx] = ("v", rng.randrange(h))
                elif r < .8:
                    states[idx] = ("v", newest)
                elif r < .88:
                    states[idx] = ("empty",)
                elif r < .95:
                    states[idx] = ("down", rng.choice(["hidden", "zombie", "raise"]))
                else:
                    states[idx] = ("replay", rng.randrange(h), rng.randrange(h), rng.choice([1, 2]))
        # servers that never held a share may also be unreachable
        for vs in self.g.servers:
            if vs.index not in states:
                states[vs.index] = ("empty",) if rng.random() < .9 else ("down", rng.choice(["hidden", "raise"]))
        return states

    def install(self, states):
        M, g = self.M, self.g
        g.mutate_response = None
        plan = {}
        for vs in g.servers:
            vs.faults = []
            vs.hung = []
            if not vs.connected:
                vs.start()
            vs.zombie = vs.hidden = False
            st = states[vs.index]
            if st[0] == "v":
                M.install(g, self.si, vs.index, self.snaps[st[1]].get(vs.index, {}))
            elif st[0] == "empty":
                M.install(g, self.si, vs.index, {})
            elif st[0] == "replay":
                M.install(g, self.si, vs.index, self.snaps[st[1]].get(vs.index, {}))
                plan[vs.index] = [(st[3], None, self.snaps[st[2]].get(vs.index, {}))]
            else:
                M.install(g, self.si, vs.index, self.snaps[-1].get(vs.index, {}))
                if st[1] == "hidden":
                    vs.disconnect()
                    vs.hidden = True
                elif st[1] == "zombie":
                    vs.disconnect()
                    vs.zombie = True
                else:
                    vs.add_fault("raise", method="slot_readv")
        if plan:
            M.install_lying_hook(g, self.si, plan, lambda: self.ck.hit("server-answered-from-older-snapshot"))
        for idx in getattr(self, "flaky", []):
            if g.servers[idx].connected:
                g.servers[idx].add_fault("raise", method="slot_readv", nth=2)     # the request after the survey query
        import os
        for (idx, sh), (j, owner) in sorted(getattr(self, "extras", {}).items()):
            vs = g.servers[idx]
            if not vs.connected:
                continue
            ms = M.MutShare(raw=self.snaps[j][owner][sh])
            ms.container[32:52] = vs.serverid                              # a container of the target server
            ms.container[52:84] = self.node.get_write_enabler(vs.iserver)
            os.makedirs(vs.sharedir(self.si), exist_ok=True)
            ms.save(os.path.join(vs.sharedir(self.si), "%d" % sh))

    # ------------------------------------------------------------ one round
    def one_round(self, fam):
        ck, rng, g, M = self.ck, self.rng, self.g, self.M
        fam0 = fam
        states = self.compose(fam)
        g.sched.settle()          # nothing of an earlier operation may still be in flight
        self.install(states)
        exact = rng.random() < .75 or fam0 in ("update-vs-newer", "held-modify", "thin-newest-flaky", "newer-dup-copies")
        if exact:
            g.sched.chooser = M.ev_first_chooser(self.sched_rng)
            ck.hit("exact-schedule")
        else:
            g.sched.chooser = None
            g.sched.profile = rng.choice(["fifo", "per-server-fifo", "free"])
            ck.hit("free-schedule")
        ops = rng.choice([["read2", "write"], ["dbv", "write"], ["read2", "dbv"], ["read2", "read2", "write"],
                          ["write", "read2"], ["read2"], ["dbv", "read2", "write"]])
        if fam0 == "update-vs-newer":
            ops = ["update", "read2"] if self.p["fmt"] == "MDMF" else ["write", "read2"]
        elif fam0 == "held-modify":
            ops = ["held-modify"]
        elif fam0 == "thin-newest-flaky":
            ops = ["dbv"]
        elif fam0 == "newer-dup-copies":
            ops = rng.choice([["read2", "dbv"], ["read2"], ["dbv", "read2"]])
        elif fam0 == "newest-unrecoverable" and rng.random() < .5:
            ops = [rng.choice(["read2", "dbv"]), rng.choice(["repair-forced", "repair-forced", "repair", "car"])]
        elif rng.random() < .12:
            ops = ops + [rng.choice(["repair", "repair-forced", "car"])]
        elif self.p["fmt"] == "MDMF" and rng.random() < .2:
            ops = ops + ["update"]
        desc = dict(k=self.p["k"], n=self.p["n"], fmt=self.p["fmt"], nservers=self.p["nservers"],
                    history_seqnums=[v[0] for v in self.vid], family=fam, exact_schedule=exact,
                    states={"s%02d" % i_: list(s) for i_, s in sorted(states.items())},
                    extra_shares={"s%02d/sh%d" % k_: v[0] for k_, v in sorted(self.extras.items())},
                    fail_one_request_after_survey=sorted(self.flaky),
                    permuted_order=self.order)
        nontrivial = any(s != ("v", len(self.snaps) - 1) for idx, s in states.items() if idx in self.holders)
        wrote = None
        for op in ops:
            if op == "write":
                wrote = self.op_write(desc, exact, wrote)
            elif op == "update":
                wrote = self.op_update(desc, exact, wrote)
            elif op == "held-modify":
                self.op_held_modify(desc, exact)
            elif op in ("repair", "repair-forced", "car"):
                wrote = self.op_repair(desc, exact, wrote, op)
            else:
                self.op_read(op, desc, exact, wrote)
            g.sched.settle()      # let late answers / straggling writes of this operation land before the next one
            ck.case(fam + "/" + op, key=(fam, op, exact, repr(sorted(states.items())), self.p["k"], self.p["n"],
                                         len(self.snaps)), nontrivial=nontrivial, sample=desc)
        g.sched.chooser = M.ev_first_chooser(self.sched_rng)
        g.sched.profile = "free"

    def listed_connected(self):
        return [vs.name for vs in self.g.servers if vs.connected and not vs.hidden]

    def survey_records(self, n0, until_t=None):
        """Answered slot_readv (from offset 0) records of the window, in delivery order."""
        recs = [r for r in self.g.calls[n0:] if r["method"] == "slot_readv" and r["state"] == "answered"
                and isinstance(r["result"], dict) and r["args"][0] == self.si and r["args"][2]
                and r["args"][2][0][0] == 0 and r["args"][2][0][1] >= 1000]
        if until_t is not None:
            recs = [r for r in recs if r.get("t_rsp", 1e18) <= until_t]
        return sorted(recs, key=lambda r: r["t_rsp"])

    # ------------------------------------------------------------ reads
    def content_version(self, data, extra):
        """history index (or 'new') of delivered content, by the harness's own record."""
        for j in range(len(self.plain) - 1, -1, -1):
            if self.plain[j] == data:
                return j
        if extra is not None and data == extra[1]:
            return "new"
        return None

    def op_read(self, op, desc, exact, wrote):
        from allmydata.mutable.common import MODE_READ
        ck, g, M, p = self.ck, self.g, self.M, self.p
        c2 = g.make_client(k=p["k"], happy=1, n=p["n"], mutable_format=p["fmt"])
        writecap_node = self.rng.random() >= .5
        node = c2.create_node_from_uri(self.rw_uri if writecap_node else self.ro_uri)
        n0 = len(g.calls)
        data = None
        retried_exact = False
        if op == "read2":
            st, smap = g.wait(node.get_servermap(MODE_READ), horizon=4 * 3600.0)
            if st != "ok":
                ck.observe("servermap-update-" + st)
                return
            t_done = env.reactor.seconds()
            recs = self.survey_records(n0, t_done)
            queried = set(r["server"] for r in g.calls[n0:] if r["method"] == "slot_readv")
            # asking for a version the map knows but cannot recover must give that version's content or fail
            for u in sorted(smap.unrecoverable_versions())[:1]:
                ck.mon("download-version-returns-the-requested-version")
                stu, du = g.wait(node.download_version(smap, u), horizon=4 * 3600.0)
                if stu == "ok":
                    ju = self.content_version(du, wrote)
                    sequ = None if ju is None else (wrote[0] if ju == "new" else self.vid[ju][0])
                    if sequ != u[0]:
                        ck.violation("download-version-returned-another-versions-content",
                                     "download_version(servermap, <seqnum %d, unrecoverable in that map>) succeeded with the "
                                     "content of seqnum %r" % (u[0], sequ), dict(desc, op=op, requested=u[0], got=sequ))
                else:
                    ck.hit("download-version-of-unrecoverable-version-refused")
            best = smap.best_recoverable_version()
            if best is not None:
                st, data = g.wait(node.download_version(smap, best), horizon=4 * 3600.0)
                if st != "ok":
                    ck.observe("download-of-best-version-" + st)
                    data = None
            got_seq = best[0] if best is not None else None
        else:
            st, data = g.wait(node.download_best_version(), horizon=4 * 3600.0)
            recs = self.survey_records(n0)
            queried = set(r["server"] for r in g.calls[n0:] if r["method"] == "slot_readv")
            if st != "ok":
                ck.hit("dbv-" + st)
                data = None
            got_seq = None
            # more than one survey (retry after a failed retrieve)?  then only the last one decides
            per_server = {}
            for r in recs:
                per_server.setdefault(r["server"], []).append(r)
            retried_exact = False
            if any(len(v) > 1 for v in per_server.values()):
                # the read surveyed more than once (retry after a failed retrieve): its LAST survey decides.  Under the
                # exact schedule the answers that survey processed are those delivered before the next request of
                # another shape (the retry's first block read) was sent -- if there is such a request.
                reqs = [r for r in g.calls[n0:] if r["method"] == "slot_readv" and r["args"][0] == self.si]
                shape = lambda r: bool(r["args"][2]) and r["args"][2][0][0] == 0 and r["args"][2][0][1] >= 1000  # noqa
                surveys = [r for r in reqs if shape(r)]
                last, seen_srv = [], set()
                for r in surveys:                      # a survey asks each server once: a repeat starts the next one
                    if r["server"] in seen_srv:
                        last, seen_srv = [], set()
                    seen_srv.add(r["server"])
                    last.append(r)
                first_n = min(r["n"] for r in last)
                # reads of a share's encrypted private key belong to a MODE_WRITE survey, not to the retrieve
                privkey_reads = set()
                for r in surveys:
                    if r["state"] == "answered" and isinstance(r["result"], dict):
                        for shnum, vecs in r["result"].items():
                            v = M.ShareView(vecs[0]) if vecs else None
                            if v is not None and v.fmt is not None:
                                s_, e_ = v.regions()["enc_privkey"]
                                privkey_reads.add((r["server"], shnum, s_, e_ - s_))

                def is_privkey_read(r):
                    return any((r["server"], sh, o, l) in privkey_reads
                               for sh in (r["args"][1] or []) for (o, l) in r["args"][2])
                later = [r["t_call"] for r in reqs if not shape(r) and r["n"] > first_n and not is_privkey_read(r)]
                if not exact or not later or st != "ok":
                    ck.skip("read-retried-with-a-second-survey")
                    return
                t_b = min(later)
                recs = sorted([r for r in last if r["state"] == "answered" and isinstance(r["result"], dict)
                               and r.get("t_rsp", 1e18) <= t_b], key=lambda r: r["t_rsp"])
                queried = set(r["server"] for r in last)
                retried_exact = True
                ck.hit("retried-read-judged-on-its-last-survey")
        # what content did the read deliver -> which published version (ground truth)
        j = None
        if data is not None:
            j = self.content_version(data, wrote)
            if j is None:
                ck.violation("read-returned-unpublished-bytes", "a read returned bytes that no version of the history has",
                             dict(desc, op=op, delivered=data, wrote=wrote, history_lengths=[len(x) for x in self.plain]))
                return
            seq_returned = wrote[0] if j == "new" else self.vid[j][0]
            if got_seq is not None and got_seq != seq_returned:
                ck.violation("best-version-seqnum-differs-from-content-delivered",
                             "best_recoverable_version() says seqnum %d, the content delivered is version seqnum %d"
                             % (got_seq, seq_returned), dict(desc, op=op))
        elif got_seq is not None:
            seq_returned = got_seq
        else:
            seq_returned = None

        def verdict(prefix_recs):
            """None if the outcome is consistent with having located exactly prefix_recs, else a reason."""
            loc = M.locate(prefix_recs)
            best, newer = M.best_located(loc)
            if seq_returned is None:
                if best and op == "read2":
                    return "no-version-returned-though-one-is-recoverable", best, newer
                return None, best, newer
            if not best:
                return "returned-a-version-not-recoverable-from-answers", best, newer
            if seq_returned != best[0][0]:
                return "returned-seqnum-%s-best-located" % ("below" if seq_returned < best[0][0] else "above"), best, newer
            if newer and not set(self.listed_connected()) <= queried:
                if retried_exact and writecap_node:
                    # the survey being judged is the retry of a write-cap node, which runs in MODE_WRITE: that mode ends at
                    # its own boundary (k empty servers after the last share found); clause (c) is about MODE_READ updates
                    mode_write_note.append(1)
                    return None, best, newer
                return "finished-with-newer-unrecoverable-version-seen-and-servers-unqueried", best, newer
            return None, best, newer

        ck.mon("read-returns-best-located")
        ck.mon("read-keeps-searching-on-newer-evidence")
        mode_write_note = []
        if exact and (op == "read2" or (op == "dbv" and retried_exact)):
            why, best, newer = verdict(recs)
        else:
            # free schedule (or one-step read): the reader processed some delivery-order prefix of the answers
            why, best, newer = verdict(recs)
            if why is not None:
                for cut in range(len(recs) - 1, -1, -1):
                    w2, b2, n2 = verdict(recs[:cut])
                    if w2 is None:
                        why = None
                        break
        if mode_write_note:
            ck.observe("retry-survey-in-mode-write-ended-with-newer-evidence-and-unqueried-servers")
        loc_all = M.locate(recs)
        if any(len(e["shnums"]) < e["k"] <= len(e["holders"]) for e in loc_all.values()):
            ck.hit("read-with-k-copies-of-fewer-than-k-share-numbers-of-a-newer-version")
        if len([v for v, e in loc_all.items() if len(e["shnums"]) >= e["k"]]) >= 2:
            ck.hit("read-with-two-recoverable-versions")
        if newer and seq_returned is not None and why is None:
            ck.hit("read-finished-with-newer-evidence-after-asking-everyone")
        if seq_returned is not None:
            if seq_returned < self.vid[-1][0]:
                ck.hit("read-returned-older-than-newest-published")
            else:
                ck.hit("read-returned-newest")
        # did the search go beyond the initial 2k servers because of newer evidence?
        if seq_returned is not None and len(queried) > 2 * self.p["k"]:
            first = M.locate(recs[:2 * self.p["k"]])
            b1, n1 = M.best_located(first)
            if b1 and n1:
                ck.hit("read-extended-search-on-newer-evidence")
        if why is not None:
            key = {"returned-seqnum-below-best-located": "read-returned-older-than-best-located-version",
                   "returned-seqnum-above-best-located": "read-returned-version-not-best-located",
                   "finished-with-newer-unrecoverable-version-seen-and-servers-unqueried":
                       "mode-read-finished-with-newer-evidence-and-unqueried-servers"}.get(why, why)
            ck.violation(key, "%s: returned seqnum %r; answers received locate recoverable %r and newer unrecoverable %r; "
                         "queried %d of %d listed servers" % (op, seq_returned, [(v[0]) for v in best],
                                                             [(v[0]) for v in newer], len(queried),
                                                             len(self.listed_connected())),
                         dict(desc, op=op, returned_seqnum=seq_returned,
                              located={"%d/%s" % (v[0], v[1][:4].hex()): sorted(e["shnums"])
                                       for v, e in loc_all.items()},
                              queried=sorted(queried)))

    # ------------------------------------------------------------ publish
    def op_write(self, desc, exact, wrote):
        from allmydata.mutable.publish import MutableData
        ck, g, M, p = self.ck, self.g, self.M, self.p
        c2 = g.make_client(k=p["k"], happy=1, n=p["n"], mutable_format=p["fmt"])
        node = c2.create_node_from_uri(self.rw_uri)
        new = b"NEW" + self.rng.randbytes(self.rng.randint(5, 300))
        n0 = len(g.calls)
        st, res = g.wait(node.overwrite(MutableData(new)), horizon=4 * 3600.0)
        return self.judge_publish(n0, st, res, desc, exact, wrote, new, "overwrite")

    def judge_publish(self, n0, st, res, desc, exact, wrote, new, what, may_not_write=False):
        """Oracle (a) for one publishing operation whose wire records start at n0; returns the new `wrote`."""
        ck, g, M = self.ck, self.g, self.M
        window = g.calls[n0:]
        writes = [r for r in window if M.has_writes(r)]
        if st != "ok":
            ck.hit("publish-" + st)
            if st == "err":
                ck.hit("publish-err:" + res.type.__name__)
            # a failed publish may still have placed some shares of its version: remember what it tried to write
            tried = set()
            for r in writes:
                tried |= set(M.written_seqnums(r).values())
            return (max(tried), new) if tried else wrote
        ck.hit("publish-ok")
        if not writes:
            if may_not_write:
                ck.hit(what + "-did-not-publish")
                return wrote
            ck.violation("publish-succeeded-without-writing", what + "() succeeded but no write request was sent",
                         dict(desc))
            return wrote
        t_first = min(r["t_call"] for r in writes)
        recs = self.survey_records(n0, t_first)
        loc = M.locate(recs)
        seen = sorted(set(v[0] for v in loc))
        written = set()
        for r in writes:
            written |= set(M.written_seqnums(r).values())
        best, newer = M.best_located(loc)
        if newer:
            ck.hit("publish-saw-unrecoverable-newer-version")
        if exact:
            ck.mon("publish-seqnum-above-survey")
            if not written:
                ck.observe("publish-wrote-no-header")
            elif seen and min(written) <= max(seen):
                ck.violation("publish-seqnum-not-above-every-seqnum-its-survey-saw",
                             "%s wrote seqnum %s although its survey was told of seqnums %s (recoverable: %s)"
                             % (what, sorted(written), seen, [v[0] for v in best]),
                             dict(desc, op=what, written=sorted(written), survey_seqnums=seen))
            if len(written) > 1:
                ck.violation("publish-wrote-several-seqnums", "one publish wrote seqnums %s" % sorted(written), dict(desc))
        else:
            ck.skip("publish-under-free-schedule-survey-set-not-exact")
        # the shares on disk that were written carry the new seqnum (independent parser)
        on_disk = set()
        for (idx, shnum, ms) in M.disk_shares(g, self.si):
            if ms.fmt is not None:
                on_disk.add(ms.f["seqnum"])
        if written and max(written) not in on_disk:
            ck.violation("published-seqnum-not-on-disk", "wrote %s, disk has %s" % (sorted(written), sorted(on_disk)),
                         dict(desc))
        return (max(written), new) if written else wrote



    # ------------------------------------------------------------ the publish done by a repair
    def op_repair(self, desc, exact, wrote, how):
        """repair(check_results, force) / check_and_repair by a fresh client; oracle (a) on what it publishes.
        Always the last operation on a composition (it republishes an existing content under a new number)."""
        from allmydata.monitor import Monitor
        ck, g, p = self.ck, self.g, self.p
        c2 = g.make_client(k=p["k"], happy=1, n=p["n"], mutable_format=p["fmt"])
        node = c2.create_node_from_uri(self.rw_uri)
        if how == "car":
            n0 = len(g.calls)
            st, res = g.wait(node.check_and_repair(Monitor(), verify=False), horizon=4 * 3600.0)
        else:
            st, cr = g.wait(node.check(Monitor(), verify=False), horizon=4 * 3600.0)
            if st != "ok":
                ck.hit("repair-check-" + st)
                return wrote
            g.sched.settle()
            n0 = len(g.calls)
            st, res = g.wait(node.repair(cr, force=(how == "repair-forced")), horizon=4 * 3600.0)
        ck.hit(how + "-" + st)
        if st == "err":
            ck.hit(how + "-err:" + res.type.__name__)
        r = self.judge_publish(n0, st, res, desc, exact, wrote, b"", how, may_not_write=True)
        if r is not wrote and r is not None and exact:
            ck.hit("repair-publish-judged")
        return wrote

    # ------------------------------------------------------------ MDMF in-place update
    def op_update(self, desc, exact, wrote):
        """get_best_mutable_version().update(data, offset) by a fresh client; oracle (a) on the sequence number."""
        from allmydata.mutable.publish import MutableData
        ck, g, M, p, rng = self.ck, self.g, self.M, self.p, self.rng
        c2 = g.make_client(k=p["k"], happy=1, n=p["n"], mutable_format=p["fmt"])
        node = c2.create_node_from_uri(self.rw_uri)
        n0 = len(g.calls)
        st, mfv = g.wait(node.get_best_mutable_version(), horizon=4 * 3600.0)
        if st != "ok":
            ck.hit("update-no-version-" + st)
            return wrote
        seq0 = mfv.get_sequence_number()
        base = None
        for j, v in enumerate(self.vid):
            if v[0] == seq0:
                base = self.plain[j]
        if base is None and wrote is not None and wrote[0] == seq0:
            base = wrote[1]
        if base is None or len(base) == 0:
            ck.observe("update-base-content-unknown")
            return wrote
        off = rng.choice([0, 1, len(base) // 2, max(0, len(base) - 1), len(base), rng.randrange(len(base) + 1)])
        data = rng.randbytes(rng.choice([1, 7, p["segsize"], rng.randint(1, 120)]))
        new = base[:off] + data + base[off + len(data):]
        while new == base or new in self.plain:       # the harness tells versions apart by their content
            data = rng.randbytes(len(data))
            new = base[:off] + data + base[off + len(data):]
        st, res = g.wait(mfv.update(MutableData(data), off), horizon=4 * 3600.0)
        ck.hit("update-" + st)
        if st == "err":
            ck.hit("update-err:" + res.type.__name__)
        return self.judge_publish(n0, st, res, desc, exact, wrote, new, "update")

    # ------------------------------------------------------------ a version object held across another writer's publish
    def op_held_modify(self, desc, exact):
        from allmydata.mutable.publish import MutableData
        ck, g, M, p, rng = self.ck, self.g, self.M, self.p, self.rng
        k = p["k"]
        cA = g.make_client(k=k, happy=1, n=p["n"], mutable_format=p["fmt"])
        nodeA = cA.create_node_from_uri(self.rw_uri)
        st, mfv = g.wait(nodeA.get_best_mutable_version(), horizon=4 * 3600.0)
        if st != "ok":
            ck.hit("held-modify-no-version")
            return
        held_seq = mfv.get_sequence_number()
        # the other writer reaches only some servers: enough stale shares of the held version stay behind
        on_disk = {}
        for (idx, shnum, ms) in M.disk_shares(g, self.si):
            if ms.fmt is not None and g.servers[idx].connected and ms.f["seqnum"] == held_seq:
                on_disk.setdefault(idx, set()).add(shnum)
        order = [idx for idx in self.order if idx in on_disk]
        rng.shuffle(order)
        hide, kept = [], set()
        want = rng.choice([k, k, k + 1, max(1, k - 1), 0])     # k-1 / 0: the held version does not stay recoverable
        for idx in order:
            if len(kept) >= want:
                break
            hide.append(idx)
            kept |= on_disk[idx]
        for idx in hide:
            g.servers[idx].hidden = True
        contentB = b"OTHER-WRITER:" + rng.randbytes(rng.randint(5, 200))
        try:
            cB = g.make_client(k=k, happy=1, n=p["n"], mutable_format=p["fmt"])
            stB, r = g.wait(cB.create_node_from_uri(self.rw_uri).overwrite(MutableData(contentB)), horizon=4 * 3600.0)
            g.sched.settle()
        finally:
            for idx in hide:
                g.servers[idx].hidden = False
        if stB != "ok":
            ck.hit("held-modify-other-writer-failed")
            return
        # what is on the grid now, by the independent parser and the harness's record
        content_of = {(v[0], v[1]): self.plain[j] for j, v in enumerate(self.vid)}
        for (idx, shnum, ms) in M.disk_shares(g, self.si):
            if ms.fmt is not None and (ms.f["seqnum"], bytes(ms.f["root_hash"])) not in content_of:
                content_of[(ms.f["seqnum"], bytes(ms.f["root_hash"]))] = contentB
        marker = b"<appended-by-the-holder>"
        calls = []

        def modifier(old, servermap, first_time):
            calls.append((env.reactor.seconds(), old, first_time))
            return old + marker
        n1 = len(g.calls)
        st, res = g.wait(mfv.modify(modifier), horizon=4 * 3600.0)
        ck.hit("held-modify-" + st)
        g.sched.settle()
        w = dict(desc, op="held-modify", held_seqnum=held_seq, hidden_from_other_writer=sorted(hide),
                 stale_shares_left=sorted(kept), status=st,
                 error=(res.type.__name__ + ": " + str(res.value)[:100]) if st == "err" else None)
        if not calls:
            ck.hit("held-modify-modifier-not-called")
            return
        if not exact:
            ck.skip("held-modify-under-free-schedule-survey-set-not-exact")
            return
        ck.mon("modify-reads-best-located")
        t_mod, old_seen, first_time = calls[0]
        recs = self.survey_records(n1, t_mod)
        loc = M.locate(recs)
        best, newer = M.best_located(loc)
        if not best or any(v not in content_of for v in best):
            ck.skip("held-modify-best-located-version-content-unknown")
            return
        allowed = [content_of[v] for v in best]
        w.update(located={"%d/%s" % (v[0], v[1][:3].hex()): sorted(e["shnums"]) for v, e in loc.items()},
                 best_located=[v[0] for v in best])
        if len(kept) >= k and any(v[0] == held_seq for v in loc) and best[0][0] > held_seq:
            ck.hit("held-version-still-recoverable-next-to-a-newer-one")
        if old_seen not in allowed:
            which = [v[0] for v, c in content_of.items() if c == old_seen]
            ck.violation("modify-read-a-version-that-is-not-the-best-its-survey-located",
                         "the modifier of a held MutableFileVersion was given the content of seqnum %s although its own "
                         "survey located recoverable seqnum %s" % (which or "?", [v[0] for v in best]), w)
            return
        if st == "ok":
            # (ii) what modify() published.  A later reader returns the best version *it* locates (oracle (b)); with
            # lying servers or stale shares its survey may legitimately settle on an older one, so the published
            # version is read back on its own: only the shares carrying the sequence number modify() wrote are left
            # on the grid and no server lies any more.  (Nothing else runs on this composition afterwards.)
            ck.mon("modify-result-derives-from-best-located")
            g.sched.settle()
            import os
            written = set()
            for r in g.calls[n1:]:
                if M.has_writes(r):
                    written |= set(M.written_seqnums(r).values())
            if len(written) != 1:
                ck.observe("held-modify-wrote-%d-seqnums" % len(written))
                return
            g.mutate_response = None
            for (idx, shnum, ms) in M.disk_shares(g, self.si):
                if ms.fmt is None or ms.f["seqnum"] not in written:
                    os.unlink(ms.path)
            c3 = g.make_client(k=k, happy=1, n=p["n"], mutable_format=p["fmt"])
            st3, final = g.wait(c3.create_node_from_uri(self.ro_uri).download_best_version(), horizon=4 * 3600.0)
            if st3 != "ok":
                ck.observe("held-modify-published-version-not-readable-on-its-own")
            elif final not in [c + marker for c in allowed]:
                rel = [("seq%d" % v[0]) + ("+marker" * n_) for v, c in content_of.items() for n_ in (0, 1, 2, 3)
                       if final == c + marker * n_]
                ck.violation("modify-result-does-not-derive-from-the-best-located-version",
                             "the version a successful modify() of a held MutableFileVersion published (seqnum %s) does "
                             "not contain <best located version> + marker" % sorted(written),
                             dict(w, modifier_calls=len(calls), published_content_is=rel))
            else:
                ck.hit("held-modify-result-derives-from-newest")


# MUST_CATCH (selftest/breaks_c11.py; the unchanged tree shows no violation):
#   c11-seqnum-from-best-recoverable          publish: highest_seqnum()+1 -> best recoverable seqnum+1   caught  publish-seqnum-not-above-every-seqnum-its-survey-saw
#   c11-highest-seqnum-ignores-unrecoverable  ServerMap.highest_seqnum looks at recoverable versions only caught  same key
#   c11-best-version-by-roothash              best_recoverable_version sorts by root hash before seqnum   caught  read-returned-older-than-best-located-version
#   c11-mode-read-picks-lowest                best_recoverable_version returns the lowest                 caught  same key
#   c11-mode-read-ignores-newer               MODE_READ does not extend the search on newer evidence      caught  mode-read-finished-with-newer-evidence-and-unqueried-servers
#   c11-mode-read-newer-evidence-off-by-one   evidence threshold highest+1                                caught  same key
#   seeded/C11-3 (Publish.update(): version[0]+1)                      caught  publish-seqnum-not-above-every-seqnum-its-survey-saw  (op update, family update-vs-newer)
#   seeded/C11-4 (_modify_once keeps a still-recoverable held version)  caught  modify-read-a-version-that-is-not-the-best-its-survey-located  (op held-modify)
#   seeded/C11-5 (forced repair marks the lost version's shares bad)    caught  publish-seqnum-not-above-every-seqnum-its-survey-saw  (op repair-forced)
#   seeded/C11-6 (retry re-updates the failed attempt's servermap)       caught  read-returned-older-than-best-located-version  (family thin-newest-flaky; a retried read is judged on its last survey)
#   seeded/C11-7 (recoverable_versions counts share copies)             caught  read-returned-version-not-best-located  (family newer-dup-copies)
#   seeded/C11-8 (download_version falls back to the best version)       caught  download-version-returned-another-versions-content  (read2 asks for an unrecoverable version of its map)
