"""C34 introducer announcements are authentic and fresh; a bad one does not stop its batch."""
META = {
    "level": "exploration",
    "technique": "acceptance automaton run beside the real IntroducerClient and IntroducerService on seeded hostile announcement streams; per-item attribution through an instrumented batch iterable; independent ed25519 decision",
    "text": "Feeds a real IntroducerClient (no tub, real cache file, virtual time) histories of 12-30 batches of 1-6 announcements from 3-4 real ed25519 keys over subscribed and unsubscribed services: valid (made with the real sign_to_foolscap), higher / equal / lower / missing / non-integer seqnums, exact replays of any earlier announcement, forged (signed by another key), corrupted signature or message, unsigned, malformed key or signature strings (prefix, base32 alphabet, length), history-dependent forgeries that re-use byte for byte the signature string of a genuine announcement the client processed earlier or just before in the same batch (with an altered message, under another valid key, under a malformed key), validly signed but non-JSON / non-UTF-8 / non-dict / field-type-broken payloads, bad items at every batch position. A subscriber callback records (batch position, key, announcement). Oracle automaton per (service,key): deliver iff the signature verifies under the claimed key (cryptography called directly) and the announcement is new or carries a strictly higher integer seqnum; attribution == signing key; content == signed payload; every item of a batch is judged even if an earlier one was bad; a late subscriber receives exactly the stored set. The same streams go one by one to a real IntroducerService (remote_publish_v2 / remote_subscribe_v2, fake subscriber rrefs) whose forwards are judged by the same automaton and are chained into a second real client. Sampled.",
    "note": "Trusts the cryptography package's Ed25519 verify. Announcements whose stored predecessor has no or a non-integer seqnum, bool/float seqnums, and whether a validly signed but malformed payload is itself delivered are dont_care; model state is re-synchronised from observed deliveries after every item.",
}
LEVEL = "exploration"
BUDGET = {"quick": 40, "thorough": 240}
SHARDS = {"quick": 1, "thorough": 8}

import json
import re
import shutil
import tempfile
import traceback

from vf import env  # noqa
from vf.checks._keys import Key, raw_verify, b32, unb32

MISSING = object()
B32_RE = re.compile(rb"^[a-z2-7]+$")
SUBSCRIBED = ("storage", "svc2")
UNSUBSCRIBED = "nobody-listens"
FURLS = ["pb://62ubehyunnyhzs7r6vdonnm2hpi52w6y@127.0.0.1:36106/gydnp",
         "pb://ttwwooyunnyhzs7r6vdonnm2hpi52w6y@tcp:example.org:7777/ttwwoo"]


def canonical_b32(s, nbytes):
    """decode a tahoe base32 string strictly (alphabet, length, canonical tail) or return None"""
    if not isinstance(s, bytes) or not B32_RE.match(s):
        return None
    try:
        raw = unb32(s)
    except Exception:
        return None
    if len(raw) != nbytes or b32(raw) != s:
        return None
    return raw


def proper_int(x):
    return type(x) is int


class Item(object):
    """One announcement tuple plus what the harness knows about it by construction."""

    def __init__(self, kind, ann_t, signer=None):
        self.kind = kind
        self.ann_t = ann_t
        self.signer = signer
        msg, sig, claimed = ann_t
        self.claimed = claimed
        # --- independent authenticity decision
        self.sig_valid = False
        if isinstance(sig, bytes) and isinstance(claimed, bytes) and sig.startswith(b"v0-") and claimed.startswith(b"v0-"):
            k = canonical_b32(claimed[3:], 32)
            s = canonical_b32(sig[3:], 64)
            if k is not None and s is not None:
                self.sig_valid = raw_verify(k, s, msg)
        # --- payload
        self.payload = MISSING
        try:
            self.payload = json.loads(msg.decode("utf-8"))
        except Exception:
            pass
        p = self.payload
        self.service = p.get("service-name") if isinstance(p, dict) else None
        self.srv_wellformed = isinstance(p, dict) and isinstance(self.service, str)
        furl = p.get("anonymous-storage-FURL", "pb://x@") if isinstance(p, dict) else None
        self.wellformed = (self.srv_wellformed and isinstance(p.get("nickname", ""), str)
                           and isinstance(furl, str) and re.match(r"pb://\w+@", furl) is not None)

    def describe(self):
        msg, sig, claimed = self.ann_t
        return {"kind": self.kind, "msg": msg.decode("utf-8", "backslashreplace")[:200], "sig": sig, "claimed_key": claimed,
                "signed_by": getattr(self.signer, "label", None)}


def decide(item, stored, subscribed, client_side):
    """-> ('deliver'|'ignore'|'open', reason) for one announcement against the stored state"""
    if not item.sig_valid:
        return "ignore", "unauthenticated"
    if not (item.wellformed if client_side else item.srv_wellformed):
        return "open", "wellsigned-malformed-content"
    if subscribed is not None and item.service not in subscribed:
        return "ignore", "unsubscribed-service"
    old = stored.get((item.service, item.claimed))
    if old is None:
        return "deliver", "new"
    if old == item.payload:
        return "ignore", "duplicate"
    oseq = old.get("seqnum", MISSING)
    if not proper_int(oseq):
        return "open", "stored-has-no-integer-seqnum"
    nseq = item.payload.get("seqnum", MISSING)
    if proper_int(nseq):
        if nseq > oseq:
            return "deliver", "higher-seqnum"
        return "ignore", ("equal-seqnum" if nseq == oseq else "lower-seqnum")
    if isinstance(nseq, (bool, float)):
        return "open", "bool-or-float-seqnum"
    return "ignore", "no-valid-seqnum"


IGNORE_KEYS = {
    "unauthenticated": "delivers-unauthenticated-announcement",
    "unsubscribed-service": "delivered-to-wrong-service",
    "duplicate": "duplicate-redelivered",
    "equal-seqnum": "stale-seqnum-replaces-stored",
    "lower-seqnum": "stale-seqnum-replaces-stored",
    "no-valid-seqnum": "replaced-by-announcement-without-valid-seqnum",
}


class Batch(object):
    """list-like iterable that records which item the consumer is working on"""

    def __init__(self, items):
        self.items = items
        self.pos = -1

    def __len__(self):
        return len(self.items)

    def __iter__(self):
        for i, it in enumerate(self.items):
            self.pos = i
            yield it.ann_t
        self.pos = len(self.items)


def origin_of(tb_text):
    if "unsign_from_foolscap" in tb_text:
        return "malformed-announcement-aborts-batch"
    if "_process_announcement" in tb_text:
        return "wellsigned-malformed-content-aborts-batch"
    return "announcement-batch-aborted"


def run(ck):
    from twisted.internet import defer
    from twisted.python.filepath import FilePath
    from allmydata.introducer import client as ic_mod, server as is_mod
    from allmydata.introducer.client import IntroducerClient
    from allmydata.introducer.server import IntroducerService
    from allmydata.introducer.common import sign_to_foolscap
    from allmydata.crypto import ed25519

    ck.rule = ("history = 12-30 batches x 1-6 announcements from 3-4 keys over 2 subscribed + 1 unsubscribed service, item "
               "classes: valid(new/higher/equal/lower/missing/non-int seqnum), exact replay, forged, corrupted sig/msg, "
               "unsigned, malformed key/sig strings, well-signed malformed payloads; plus directed batches placing one bad "
               "item of every class at every position among good ones; the same items are published one by one to a real "
               "IntroducerService chained to a second client; distinct = (history items); non-trivial = batch holds a "
               "rejected and an accepted item")
    rng = ck.rng("c34")

    class VTime(object):
        @staticmethod
        def time():
            return env.reactor.seconds()
    real_times = (ic_mod.time, is_mod.time)
    ic_mod.time = VTime
    is_mod.time = VTime
    tmp = tempfile.mkdtemp(prefix="vf-")
    counter = [0]
    # IntroducerService.publish log.err()s every rejected publish; until logging has begun twisted prints those
    # failures to stderr.  Begin logging to a counting sink (process-wide; a check process runs one check).
    logged_failures = [0]

    def sink(event):
        if event.get("isError") or event.get("log_failure") is not None:
            logged_failures[0] += 1
    try:
        from twisted.logger import globalLogBeginner
        globalLogBeginner.beginLoggingTo([sink], redirectStandardIO=False, discardBuffer=True)
    except Exception:
        pass

    def new_client(tag):
        counter[0] += 1
        return IntroducerClient(None, "introducer.furl", "nick-%s" % tag, "ver", "oldest", lambda: (1, "nonce"),
                                FilePath(tmp).child("cache-%d.yaml" % counter[0]))

    # ------------------------------------------------------------------ item factory
    vf_id = [0]

    def payload(service, seq, **kw):
        vf_id[0] += 1
        a = {"version": 0, "nickname": "n%d" % vf_id[0], "app-versions": [], "my-version": "v", "oldest-supported": "o",
             "service-name": service, "nonce": "x", "anonymous-storage-FURL": rng.choice(FURLS), "vf-id": vf_id[0]}
        if seq is not MISSING:
            a["seqnum"] = seq
        a.update(kw)
        return a

    sk_cache = {}

    def real_sign(p, key):
        if key.priv_s not in sk_cache:
            sk_cache[key.priv_s] = ed25519.signing_keypair_from_string(key.priv_s)[0]
        return sign_to_foolscap(p, sk_cache[key.priv_s])

    def raw_item(kind, msg, key, signer=None, sig=MISSING, claimed=MISSING):
        signer = signer or key
        if sig is MISSING:
            sig = b"v0-" + b32(signer.sign(msg))
        if claimed is MISSING:
            claimed = key.v0
        return Item(kind, (msg, sig, claimed), signer)

    BAD_KINDS = ["forged", "forged-stolen-msg", "sig-bitflip", "msg-bitflip", "unsigned", "no-key", "sig-empty",
                 "key-bad-prefix", "key-bad-base32", "key-uppercase", "key-truncated", "key-31-bytes", "key-noncanonical-tail",
                 "sig-bad-prefix", "sig-bad-base32", "sig-63-bytes", "sig-65-bytes",
                 "signed-non-json", "signed-non-utf8", "signed-json-list", "signed-no-service-name",
                 "signed-nickname-int", "signed-furl-garbage", "signed-furl-int"]

    # history-dependent forgeries: re-use, byte for byte, the signature string of a genuine announcement the client
    # has already verified (or is verifying just before, in the same batch)
    REUSE_KINDS = ["reuse-sig-altered-msg", "reuse-sig-other-key", "reuse-sig-malformed-key", "reuse-sig-altered-msg-other-key"]

    def make_reuse(kind, genuine, others):
        msg, sig, claimed = genuine.ann_t
        if "altered-msg" in kind:
            p = dict(genuine.payload)
            vf_id[0] += 1
            p["vf-id"] = vf_id[0]
            old_seq = p.get("seqnum", 0)
            p["seqnum"] = (old_seq if proper_int(old_seq) else 0) + rng.choice([1, 2, 10 ** 6])
            what = rng.choice(["furl", "nickname", "both", "seqnum-only"])
            if what in ("furl", "both"):
                p["anonymous-storage-FURL"] = "pb://attackerattackerattackerattacker@tcp:evil.example:1/swiss"
            if what in ("nickname", "both"):
                p["nickname"] = "forged-%d" % vf_id[0]
            msg = json.dumps(p).encode("utf-8")
        if "other-key" in kind:
            claimed = rng.choice(others).v0
        elif "malformed-key" in kind:
            claimed = rng.choice([b"v0-notakeyatall", b"v0-", claimed[:-5], b"v0-" + claimed[3:].upper(), b"v0-!!"])
        return Item(kind, (msg, sig, claimed), genuine.signer)

    def make_bad(kind, key, others, seq, service, history):
        p = payload(service, seq)
        msg = json.dumps(p).encode("utf-8")
        good_sig = b"v0-" + b32(key.sign(msg))
        if kind == "forged":
            return raw_item(kind, msg, key, signer=rng.choice(others))
        if kind == "forged-stolen-msg" and history:
            old = rng.choice(history)
            return raw_item(kind, old.ann_t[0], key, signer=rng.choice(others), claimed=old.claimed)
        if kind == "sig-bitflip":
            s = bytearray(key.sign(msg)); s[rng.randrange(64)] ^= 1 << rng.randrange(8)
            return raw_item(kind, msg, key, sig=b"v0-" + b32(bytes(s)))
        if kind == "msg-bitflip":
            m = bytearray(msg); i = rng.randrange(len(m)); m[i] ^= 1 << rng.randrange(7)
            return raw_item(kind, bytes(m), key, sig=good_sig)
        if kind == "unsigned":
            return raw_item(kind, msg, key, sig=None)
        if kind == "no-key":
            return raw_item(kind, msg, key, claimed=None)
        if kind == "sig-empty":
            return raw_item(kind, msg, key, sig=b"")
        if kind == "key-bad-prefix":
            return raw_item(kind, msg, key, claimed=rng.choice([b"v1-", b"V0-", b"pub-v0-", b""]) + key.pub_b32)
        if kind == "key-bad-base32":
            return raw_item(kind, msg, key, claimed=b"v0-" + key.pub_b32[:20] + rng.choice([b"!", b"1", b"=", b" ", b"\xc3\xa9"]) + key.pub_b32[21:])
        if kind == "key-uppercase":
            return raw_item(kind, msg, key, claimed=b"v0-" + key.pub_b32.upper())
        if kind == "key-truncated":
            return raw_item(kind, msg, key, claimed=key.v0[:-rng.randint(1, 9)])
        if kind == "key-31-bytes":
            return raw_item(kind, msg, key, claimed=b"v0-" + b32(key.raw_pub[:31]))
        if kind == "key-noncanonical-tail":
            last = key.pub_b32[-1:]
            alt = b"b" if last != b"b" else b"c"      # non-zero unused low bits
            return raw_item(kind, msg, key, claimed=b"v0-" + key.pub_b32[:-1] + alt)
        if kind == "sig-bad-prefix":
            return raw_item(kind, msg, key, sig=b"v1-" + good_sig[3:])
        if kind == "sig-bad-base32":
            return raw_item(kind, msg, key, sig=b"v0-" + good_sig[3:30] + b"$" + good_sig[31:])
        if kind == "sig-63-bytes":
            return raw_item(kind, msg, key, sig=b"v0-" + b32(key.sign(msg)[:63]))
        if kind == "sig-65-bytes":
            return raw_item(kind, msg, key, sig=b"v0-" + b32(key.sign(msg) + b"\0"))
        if kind == "signed-non-json":
            return raw_item(kind, b"this is not json %d" % vf_id[0], key)
        if kind == "signed-non-utf8":
            return raw_item(kind, b"\xff\xfe{}" + msg, key)
        if kind == "signed-json-list":
            return raw_item(kind, json.dumps([p]).encode(), key)
        if kind == "signed-no-service-name":
            p.pop("service-name")
            return Item(kind, real_sign(p, key), key)
        if kind == "signed-nickname-int":
            p["nickname"] = 5
            return Item(kind, real_sign(p, key), key)
        if kind == "signed-furl-garbage":
            p["anonymous-storage-FURL"] = "garbage"
            return Item(kind, real_sign(p, key), key)
        if kind == "signed-furl-int":
            p["anonymous-storage-FURL"] = 7
            return Item(kind, real_sign(p, key), key)
        return raw_item("forged", msg, key, signer=rng.choice(others))

    def make_valid(key, stored, service, history, force=None):
        old = stored.get((service, key.v0))
        oseq = old.get("seqnum") if isinstance(old, dict) and proper_int(old.get("seqnum", MISSING)) else None
        rel = force or rng.choice(["higher", "higher", "higher", "much-higher", "equal", "lower", "zero", "negative",
                                   "missing", "string", "null", "float", "bool", "list", "huge", "replay", "replay-current"])
        base = oseq if oseq is not None else rng.randint(0, 5)
        if rel == "replay" and history:
            old_item = rng.choice(history)
            return Item("valid:replay", old_item.ann_t, old_item.signer)
        if rel == "replay-current":
            cur = [h for h in history if h.payload == old]
            if cur:
                return Item("valid:replay-current", cur[-1].ann_t, cur[-1].signer)
        seq = {"higher": base + 1, "much-higher": base + rng.randint(2, 10 ** 6), "equal": base, "lower": base - rng.randint(1, 3),
               "zero": 0, "negative": -rng.randint(1, 9), "missing": MISSING, "string": str(base + 5), "null": None,
               "float": base + 1.5, "bool": True, "list": [base + 9], "huge": 2 ** 70 + base}.get(rel, base + 1)
        return Item("valid:" + (rel if rel not in ("replay", "replay-current") else "higher"),
                    real_sign(payload(service, seq), key), key)

    # ------------------------------------------------------------------ judging
    class ClientUnderTest(object):
        def __init__(self, tag):
            self.ic = new_client(tag)
            self.stored = {}            # (service, key_s) -> payload, synchronised from observed deliveries
            self.log = []               # (pos, subscriber, key_s, ann)
            self.batch = None
            self.subscribers = []
            for svc in SUBSCRIBED:
                self.subscribe(svc, "s0:" + svc)

        def subscribe(self, svc, name):
            got = []
            self.ic.subscribe_to(svc, lambda key_s, ann: (got.append((key_s, ann)),
                                                          self.log.append((self.batch.pos if self.batch else -1, name, key_s, ann))))
            self.subscribers.append((svc, name))
            return got

        def feed(self, items, cls):
            """one remote_announce_v2 call; judge every item"""
            self.batch = Batch(items)
            del self.log[:]
            err = None
            try:
                self.ic.remote_announce_v2(self.batch)
            except Exception as e:
                err = (e, traceback.format_exc())
            while env.evq.pending():
                env.evq._turn()
            reached = self.batch.pos          # index of the item being processed when the call ended
            outcomes = []
            lost = []
            for i, it in enumerate(items):
                consumed = i < reached or (i == reached and err is not None)
                exp, why = decide(it, self.stored, SUBSCRIBED, True)
                obs = [(n, k, a) for (pos, n, k, a) in self.log if pos == i]
                nsubs = len([1 for svc, n in self.subscribers if svc == it.service])
                delivered = bool(obs)
                ck.mon("client-automaton")
                if not consumed:
                    if exp == "deliver":
                        lost.append((i, it))
                    outcomes.append("lost" if exp == "deliver" else "unprocessed")
                    continue
                if exp == "open":
                    ck.skip("client:" + why)
                elif exp == "ignore":
                    ck.hit("rejected:" + why)
                    if delivered:
                        ck.violation(IGNORE_KEYS[why], "client delivered an announcement it must ignore (%s, kind %s)" % (why, it.kind),
                                     {"item": it.describe(), "stored": self.stored.get((it.service, it.claimed)),
                                      "batch": [x.kind for x in items], "position": i})
                else:
                    ck.hit("accepted:" + why)
                    if not delivered:
                        key = "fresh-announcement-not-delivered"
                        ck.violation(key, "client did not deliver a correctly signed %s announcement (kind %s)" % (why, it.kind),
                                     {"item": it.describe(), "stored": self.stored.get((it.service, it.claimed)),
                                      "batch": [x.kind for x in items], "position": i, "error": repr(err[0]) if err else None})
                if delivered:
                    for n, k, a in obs:
                        if k != it.claimed or (it.signer is not None and it.sig_valid and k != it.signer.v0):
                            ck.violation("announcement-misattributed", "delivered key_s differs from the signing key",
                                         {"item": it.describe(), "delivered_key": k})
                        if it.payload is not MISSING and a != it.payload:
                            ck.violation("delivered-content-differs", "delivered announcement differs from the signed payload",
                                         {"item": it.describe(), "delivered": a})
                    if len(obs) != nsubs and exp != "open":
                        ck.violation("delivery-count-mismatch", "announcement delivered %d times to %d subscribers" % (len(obs), nsubs),
                                     {"item": it.describe()})
                    if isinstance(it.payload, dict):
                        self.stored[(it.service, it.claimed)] = it.payload
                outcomes.append("delivered" if delivered else "not-delivered")
            if err is not None:
                ck.hit("batch-call-raised")
                culprit = items[reached] if 0 <= reached < len(items) else None
                if lost:
                    key = origin_of(err[1])
                    ck.violation(key,
                                 "%s raised out of got_announcements at a %s item; %d good announcement(s) behind it in the same batch were never processed"
                                 % (type(err[0]).__name__, culprit.kind if culprit else "?", len(lost)),
                                 {"batch": [x.describe() for x in items][:6], "culprit_position": reached,
                                  "culprit_kind": culprit.kind if culprit else None,
                                  "error": "%s: %s" % (type(err[0]).__name__, str(err[0])[:200]),
                                  "lost_positions": [i for i, _ in lost]})
                    ck.observe("abort-culprit:" + (culprit.kind if culprit else "?"))
                else:
                    ck.observe("batch-raises-nothing-lost")
            kinds = [it.kind for it in items]
            ck.case(cls, key=tuple(it.ann_t for it in items) + (tuple(sorted(map(repr, self.stored))),),
                    nontrivial=("delivered" in outcomes or "lost" in outcomes) and any(
                        decide(it, {}, SUBSCRIBED, True)[0] != "deliver" for it in items),
                    sample={"batch": kinds, "outcomes": outcomes, "raised": type(err[0]).__name__ if err else None})
            return outcomes

        def late_subscriber(self, svc):
            """a subscriber arriving now must be told exactly the stored announcements of that service"""
            self.batch = None
            got = self.subscribe(svc, "late%d:%s" % (len(self.subscribers), svc))
            while env.evq.pending():
                env.evq._turn()
            want = {k: v for (s, k), v in self.stored.items() if s == svc}
            ck.mon("late-subscriber-catchup")
            gotd = {}
            for k, a in got:
                gotd.setdefault(k, []).append(a)
            if set(gotd) != set(want) or any(len(v) != 1 or v[0] != want[k] for k, v in gotd.items()):
                ck.violation("late-subscriber-gets-wrong-set",
                             "subscribe_to() replayed a different set than the latest accepted announcement per key",
                             {"service": svc, "got": {k.decode(): [a.get("vf-id") if isinstance(a, dict) else a for a in v] for k, v in gotd.items()},
                              "want": {k.decode(): v.get("vf-id") for k, v in want.items()}})

    class FakeSubscriberRref(object):
        """a subscribed client as the introducer service sees it"""
        def __init__(self, forward_to=None):
            self.got = []; self.forward_to = forward_to; self.lost = []
        def callRemote(self, name, *args):
            assert name == "announce_v2", name
            self.got.append(args[0])
            if self.forward_to is not None:
                return defer.maybeDeferred(self.forward_to, args[0])
            return defer.succeed(None)
        def notifyOnDisconnect(self, cb): self.lost.append(cb)
        def getRemoteTubID(self): return "tubid"
        def getPeer(self): return "peer"

    class ServerUnderTest(object):
        def __init__(self, chained):
            self.svc = IntroducerService()
            self.stored = {}      # (service, key) -> (payload, ann_t)
            self.chained = chained
            self.subs = {}
            for s in SUBSCRIBED + (UNSUBSCRIBED,):
                fwd = None
                if chained is not None and s in SUBSCRIBED:
                    fwd = lambda anns: chained.feed([Item("via-server", t) for t in sorted(anns, key=repr)], "chained")  # noqa: E731
                self.subs[s] = FakeSubscriberRref(fwd)
                self.svc.remote_subscribe_v2(self.subs[s], s.encode("ascii"), {b"version": 0, b"nickname": "sub"})

        def publish(self, it):
            before = {s: len(r.got) for s, r in self.subs.items()}
            exp, why = decide(it, {k: v[0] for k, v in self.stored.items()}, None, False)
            raised = None
            try:
                self.svc.remote_publish_v2(it.ann_t, None)
            except Exception as e:
                raised = e
                ck.hit("server-publish-raised")
            while env.evq.pending():
                env.evq._turn()
            fw = [(s, x) for s, r in self.subs.items() for x in r.got[before[s]:]]
            forwarded = bool(fw)
            ck.mon("server-automaton")
            if exp == "open":
                ck.skip("server:" + why)
            elif exp == "ignore":
                ck.hit("server-rejected:" + why)
                if forwarded:
                    ck.violation("server-" + IGNORE_KEYS[why],
                                 "introducer service forwarded an announcement it must ignore (%s, kind %s)" % (why, it.kind),
                                 {"item": it.describe(), "stored": self.stored.get((it.service, it.claimed), (None,))[0]})
            else:
                ck.hit("server-accepted:" + why)
                if not forwarded:
                    ck.violation("server-fresh-announcement-not-forwarded",
                                 "introducer service did not forward a correctly signed %s announcement" % why,
                                 {"item": it.describe(), "error": repr(raised)})
            for s, anns in fw:
                if s != it.service or set(anns) != {it.ann_t}:
                    ck.violation("server-forwards-wrong-announcement", "forwarded set/service differs from the published tuple",
                                 {"item": it.describe(), "to_service": s, "forwarded": sorted(anns, key=repr)})
            if forwarded and isinstance(it.payload, dict):
                self.stored[(it.service, it.claimed)] = (it.payload, it.ann_t)
            ck.case("server-publish", key=(it.ann_t, tuple(sorted(map(repr, self.stored)))),
                    nontrivial=exp != "deliver" or why != "new",
                    sample={"kind": it.kind, "expected": exp, "why": why, "forwarded": forwarded,
                            "raised": type(raised).__name__ if raised else None})

        def late_subscriber(self, svc):
            r = FakeSubscriberRref()
            self.svc.remote_subscribe_v2(r, svc.encode("ascii"), {b"version": 0, b"nickname": "late"})
            want = set(t for (s, k), (p, t) in self.stored.items() if s == svc)
            got = set().union(*r.got) if r.got else set()
            ck.mon("server-late-subscriber-catchup")
            if got != want:
                ck.violation("server-late-subscriber-gets-wrong-set",
                             "remote_subscribe_v2 sent a different set than the latest accepted announcement per (service,key)",
                             {"service": svc, "got": len(got), "want": len(want)})

    try:
        # -------------------------------------------------------------- 1. directed: one bad item at every position
        keys = [Key(rng, "K%d" % i) for i in range(4)]
        npos = 3 if ck.tier == "quick" else 4
        for kind in BAD_KINDS:
            for pos in range(npos):
                if ck.out_of_time():
                    break
                c = ClientUnderTest("d")
                goods = [make_valid(keys[1 + (j % 3)], c.stored, "storage", [], force="higher") for j in range(npos - 1)]
                bad = make_bad(kind, keys[0], keys[1:], 1, "storage", goods)
                items = goods[:pos] + [bad] + goods[pos:]
                ck.hit("directed:" + kind)
                c.feed(items, "directed")
        # signature re-use: genuine first (earlier batch, or the item just before in the same batch), then the forgery
        for kind in REUSE_KINDS:
            for same_batch in (False, True):
                for pos in range(npos):
                    if ck.out_of_time():
                        break
                    c = ClientUnderTest("r")
                    genuine = make_valid(keys[0], c.stored, "storage", [], force="higher")
                    goods = [make_valid(keys[1 + (j % 3)], c.stored, "storage", [], force="higher") for j in range(npos - 1)]
                    forged = make_reuse(kind, genuine, keys[1:])
                    ck.hit("directed:" + kind + (":same-batch" if same_batch else ":later-batch"))
                    if same_batch:
                        c.feed(goods[:pos] + [genuine, forged] + goods[pos:], "directed-sig-reuse")
                    else:
                        c.feed([genuine], "directed-sig-reuse")
                        c.feed(goods[:pos] + [forged] + goods[pos:], "directed-sig-reuse")
                        c.feed([genuine, forged], "directed-sig-reuse")      # and again after an exact replay
        # the stored non-integer seqnum poisoning: K announces seqnum "abc", later an integer
        for first in ("abc", None, [1]):
            c = ClientUnderTest("p")
            c.feed([Item("valid:string", real_sign(payload("storage", first), keys[0]), keys[0])], "directed")
            c.feed([make_valid(keys[1], c.stored, "storage", [], force="higher"),
                    Item("valid:int-after-nonint", real_sign(payload("storage", 5), keys[0]), keys[0]),
                    make_valid(keys[2], c.stored, "storage", [], force="higher")], "directed")
            ck.hit("directed:int-after-stored-nonint-seqnum")

        # the freshness memory must survive a loss of the introducer connection: K's seqnum 3 then 5 are accepted over a
        # (fake) introducer connection, the connection drops (the callback the client registered with notifyOnDisconnect
        # fires), optionally a new connection is made, and then a stale announcement of K arrives: the captured seqnum 3
        # replayed byte for byte, a freshly signed lower one, or a different one carrying the same seqnum 5.
        class FakePublisher(object):
            version = {ic_mod.V2: {}}
            def __init__(self):
                self.on_disconnect = []
            def notifyOnDisconnect(self, cb, *a, **kw):
                self.on_disconnect.append((cb, a, kw))
            def callRemote(self, name, *args):
                return defer.succeed(None)

        for stale_kind in ("replay-lower", "fresh-lower", "equal-different"):
            for reconnect in (False, True):
                c = ClientUnderTest("x")
                pub = FakePublisher()
                c.ic._got_versioned_introducer(pub)
                old3 = Item("valid:higher", real_sign(payload("storage", 3), keys[0]), keys[0])
                new5 = Item("valid:higher", real_sign(payload("storage", 5), keys[0]), keys[0])
                o = c.feed([old3], "directed-disconnect") + c.feed([new5], "directed-disconnect")
                if o != ["delivered", "delivered"]:
                    continue          # reported by feed()
                stale = {"replay-lower": Item("valid:replay", old3.ann_t, keys[0]),
                         "fresh-lower": Item("valid:lower", real_sign(payload("storage", 4), keys[0]), keys[0]),
                         "equal-different": Item("valid:equal", real_sign(payload("storage", 5), keys[0]), keys[0])}[stale_kind]
                if c.feed([stale], "directed-disconnect") != ["not-delivered"]:
                    continue          # control (connected): reported by feed() under the generic key
                # --- the connection drops
                if pub.on_disconnect:
                    for cb, a, kw in pub.on_disconnect:
                        cb(*a, **kw)
                else:
                    c.ic._disconnected()
                while env.evq.pending():
                    env.evq._turn()
                if reconnect:
                    c.ic._got_versioned_introducer(FakePublisher())
                # --- the first thing to arrive afterwards is the stale announcement, with an unrelated good one behind it
                other = make_valid(keys[1], c.stored, "storage", [], force="higher")
                c.batch = Batch([stale, other])
                del c.log[:]
                c.ic.remote_announce_v2(c.batch)
                while env.evq.pending():
                    env.evq._turn()
                c.batch = None
                ck.mon("client-automaton")
                ck.hit("directed:stale-after-disconnect")
                ck.hit("directed:stale-after-disconnect:" + stale_kind + (":reconnected" if reconnect else ""))
                redelivered = [a for (pos, n, k, a) in c.log if pos == 0]
                late = c.subscribe("storage", "late-after-disconnect")
                while env.evq.pending():
                    env.evq._turn()
                now_stored = [a for (k, a) in late if k == keys[0].v0]
                if redelivered or any(a == stale.payload for a in now_stored):
                    ck.violation("stale-seqnum-accepted-after-introducer-disconnect",
                                 "after seqnum 5 had been accepted for (storage, K) and the introducer connection was lost%s, a "
                                 "correctly signed announcement of K with seqnum %r (%s) replaced the stored one"
                                 % (" and re-made" if reconnect else "", stale.payload.get("seqnum"), stale_kind),
                                 {"stale": stale.describe(), "accepted_before": [3, 5], "reconnected": reconnect,
                                  "delivered_to_subscriber": [a.get("seqnum") for a in redelivered],
                                  "late_subscriber_sees_seqnum": [a.get("seqnum") for a in now_stored]})
                ck.case("directed-disconnect", key=(stale.ann_t, reconnect, "after-disconnect"), nontrivial=True,
                        sample={"stale": stale_kind, "reconnected": reconnect, "redelivered": bool(redelivered)})

        # -------------------------------------------------------------- 2. random histories (client, server, chained client)
        nhist = 120 if ck.tier == "quick" else 600
        for h in range(nhist):
            if ck.out_of_time():
                break
            keys = [Key(rng, "K%d" % i) for i in range(rng.randint(3, 4))]
            c = ClientUnderTest("h")
            chained = ClientUnderTest("c")
            srv = ServerUnderTest(chained)
            history = []         # every correctly signed item made so far (replay material)
            for b in range(rng.randint(12, 30)):
                items = []
                for _ in range(rng.choice([1, 1, 2, 3, 4, 6])):
                    key = rng.choice(keys)
                    others = [k for k in keys if k is not key]
                    service = rng.choice(["storage", "storage", "storage", "svc2", UNSUBSCRIBED])
                    r = rng.random()
                    if r < .15 and history:
                        # forgery re-using the signature of a genuine announcement this client has already processed;
                        # half the time the genuine one travels (again, or for the first time) just before it
                        genuine = rng.choice([x for x in history if x.service in SUBSCRIBED] or history)
                        if rng.random() < .5:
                            if rng.random() < .5:
                                genuine = make_valid(key, c.stored, rng.choice(SUBSCRIBED), [], force="higher")
                                history.append(genuine)
                            items.append(genuine)
                            ck.hit("class:genuine-just-before-its-forgery")
                        it = make_reuse(rng.choice(REUSE_KINDS), genuine, [k for k in keys if k.v0 != genuine.claimed])
                    elif r < .6:
                        it = make_valid(key, c.stored, service, [x for x in history if x.claimed == key.v0])
                    else:
                        old = c.stored.get((service, key.v0))
                        seq = (old.get("seqnum", 0) if isinstance(old, dict) and proper_int(old.get("seqnum", MISSING)) else 0) + rng.randint(1, 5)
                        it = make_bad(rng.choice(BAD_KINDS), key, others, seq, service, history)
                    ck.hit("class:" + it.kind)
                    items.append(it)
                    if it.sig_valid and it.wellformed:
                        history.append(it)
                if rng.random() < .3 and not any(x.kind.startswith("reuse-sig") for x in items):
                    rng.shuffle(items)
                c.feed(items, "history")
                for it in items:
                    srv.publish(it)
                if rng.random() < .12:
                    c.late_subscriber(rng.choice(SUBSCRIBED))
                if rng.random() < .08:
                    srv.late_subscriber(rng.choice(SUBSCRIBED + (UNSUBSCRIBED,)))
                env.reactor.advance(rng.choice([0, 1, 60]))
            c.late_subscriber("storage")
            srv.late_subscriber("storage")
    finally:
        ck.extra["failures_logged_by_code_under_test"] = logged_failures[0]
        ic_mod.time, is_mod.time = real_times
        shutil.rmtree(tmp, ignore_errors=True)
        env.evq.reset()

    ck.require_monitor("client-automaton", "server-automaton", "late-subscriber-catchup", "server-late-subscriber-catchup")
    ck.require_reach(*["directed:%s:%s" % (k, w) for k in REUSE_KINDS for w in ("same-batch", "later-batch")])
    ck.require_reach(*["class:" + k for k in REUSE_KINDS])
    ck.require_reach("class:genuine-just-before-its-forgery", "directed:stale-after-disconnect")
    ck.require_reach("accepted:new", "accepted:higher-seqnum", "rejected:unauthenticated", "rejected:equal-seqnum",
                     "rejected:lower-seqnum", "rejected:duplicate", "rejected:no-valid-seqnum", "rejected:unsubscribed-service",
                     "server-accepted:higher-seqnum", "server-rejected:unauthenticated", "server-rejected:lower-seqnum",
                     "server-rejected:equal-seqnum")
    ck.exhaustive = False


# MUST_CATCH -- planted in a scratch copy (VF_REPO=/var/tmp/auth_st/... ./check C34), removed afterwards.
# The unchanged tree already reports `malformed-announcement-aborts-batch` and `wellsigned-malformed-content-aborts-batch`
# (genuine, see report); a break counts as caught only when it adds another key.
#   client.py  `ann["seqnum"] <= old["seqnum"]` -> `<` (equal accepted) ............ caught: stale-seqnum-replaces-stored
#   client.py  `<=` -> `>=` (inverted) .............................................. caught: stale-seqnum-replaces-stored, fresh-announcement-not-delivered
#   client.py  `if "seqnum" in old:` -> `if False:` (rule dropped) .................. caught: stale-seqnum-replaces-stored,
#                                                                                            replaced-by-announcement-without-valid-seqnum
#   client.py  duplicate test disabled .............................................. caught: duplicate-redelivered
#   client.py  index = (service_name, b"") (one slot for all keys) .................. caught: fresh-announcement-not-delivered, late-subscriber-gets-wrong-set
#   client.py  subscribe_to() no longer replays stored announcements ................ caught: late-subscriber-gets-wrong-set
#   common.py  unsign_from_foolscap without verify_signature ........................ caught: delivers-unauthenticated-announcement,
#                                                                                            server-delivers-unauthenticated-announcement
#   common.py  key_vs altered (attributed to another key) ........................... caught: announcement-misattributed
#   server.py  `<=` -> `<` .......................................................... caught: server-stale-seqnum-replaces-stored
#   server.py  `if "seqnum" in old_ann:` -> `if False:` ............................. caught: server-stale-seqnum-replaces-stored,
#                                                                                            server-replaced-by-announcement-without-valid-seqnum
#   not breaks of the property (exit unchanged, as expected): the no-valid-seqnum test replaced by `if False:` only turns such
#   announcements into KeyError/TypeError aborts (already reported key); storing announcements of unsubscribed services.
# (both abort-batch keys were genuine findings on the original tree; fixed in /repo since.)
#   seeded/C34-3 and selftest c34-signature-checked-against-first-message-only: a memo of verified signature strings lets a
#   re-used signature through with another message / key ...... caught: delivers-unauthenticated-announcement (reuse-sig-* kinds)
# The list lives in selftest/breaks_c34.py (tools/selftest.py --prop C34): 11/11 caught; seeded C34-1..4: 4/4 caught.
