"""C38 on-disk and wire encodings round-trip; malformed encodings are rejected, not read as another value."""
META = {
    "level": 'exploration',
    "technique": 'round-trip and mutation testing of the real codecs (base32, base62, netstring, UEB, lease records, share container headers) with the decode/re-encode oracle of DESIGN §5 C38',
    "text": 'Executes the real encoders/decoders: base32 b2a/a2b/could_be_base32_encoded and base62 b2a/a2b for every length 0..64 (base32 additionally exhaustively over all 1- and 2-byte strings), util.netstring netstring/split_netstring (lists, nesting, position, required_trailer), uri.pack_extension/unpack_extension/unpack_extension_readable, LeaseInfo to/from immutable and mutable data through the v1 (cleartext) and v2 (hashed) lease serializers with field values at the edges of their ranges (owner 0/2^32-1, expiry 0/2^32-1), and share container headers v1/v2 written and re-opened through ShareFile / MutableShareFile. Oracle: decode(encode(v)) == v and, where the byte layout is documented, encode(v) == an independent packing; for each mutated encoding m of v: decode raises, or returns v itself (lenient accept, counted, not judged), or returns v\' with encode(v\') == m (m is a genuine encoding of another value); anything else is "silently read as a different value". Sampled except the enumerated base32 sub-space.',
    "note": 'Trusts struct/hashlib, the bit-level base32 and big-integer base62 references written here, and that a value which re-encodes to the mutated bytes is a legitimate reading. Lenient spellings that decode to the same value, unsorted/unknown UEB keys and float expiry truncation to whole seconds are left open by the statement and only counted.',
}
LEVEL = "exploration"
BUDGET = {"quick": 45, "thorough": 240}
SHARDS = {"quick": 1, "thorough": 6}

import hashlib
import os
import shutil
import struct
import tempfile

from vf import env  # noqa

B32_ALPHABET = "abcdefghijklmnopqrstuvwxyz234567"      # RFC 3548 lower case (uri.rst: "expressed in lower-case, with the trailing '=' signs removed")
B62_ALPHABET = b"0123456789ABCDEFGHIJKLMNOPQRSTUVWXYZabcdefghijklmnopqrstuvwxyz"


# ------------------------------------------------------------------ references
def ref_b32encode(b):
    bits = "".join("{:08b}".format(x) for x in b)
    bits += "0" * (-len(bits) % 5)
    return "".join(B32_ALPHABET[int(bits[i:i + 5], 2)] for i in range(0, len(bits), 5)).encode("ascii")


def ref_b32decode(s):
    """Strict: canonical lower-case alphabet, legal length, zero padding bits.  None = malformed."""
    try:
        vals = [B32_ALPHABET.index(chr(c)) for c in s]
    except ValueError:
        return None
    bits = "".join("{:05b}".format(v) for v in vals)
    nbytes = len(bits) // 8
    if len(s) != (nbytes * 8 + 4) // 5:
        return None
    if "1" in bits[nbytes * 8:]:
        return None
    return bytes(int(bits[i:i + 8], 2) for i in range(0, nbytes * 8, 8))


def b62_value(s):
    """integer denoted by a base62 string, or None when a byte is outside the alphabet."""
    v = 0
    for c in s:
        i = B62_ALPHABET.find(bytes([c]))
        if i < 0:
            return None
        v = v * 62 + i
    return v


def ref_netstring(s):
    return str(len(s)).encode("ascii") + b":" + s + b","


def ref_lease_immutable(owner, renew, cancel, expiry):
    # storage/immutable.py layout comment: owner 4 bytes BE, renew 32, cancel 32, expiration 4 bytes BE
    return owner.to_bytes(4, "big") + renew + cancel + expiry.to_bytes(4, "big")


def ref_lease_mutable(owner, renew, cancel, expiry, nodeid):
    # storage/mutable.py layout comment: ownerid 4, expiration 4, renewal 32, cancel 32, nodeid 20
    return owner.to_bytes(4, "big") + expiry.to_bytes(4, "big") + renew + cancel + nodeid


def blake(secret):
    return hashlib.blake2b(secret, digest_size=32).digest()


# ------------------------------------------------------------------ the check
def run(ck):
    from allmydata.util import base32, base62, netstring as ns
    from allmydata import uri
    from allmydata.storage.lease import LeaseInfo, HashedLeaseInfo
    from allmydata.storage import lease_schema, immutable_schema, mutable_schema
    from allmydata.storage.immutable import ShareFile
    from allmydata.storage.mutable import MutableShareFile
    from allmydata.storage.common import UnknownContainerVersionError
    from allmydata.interfaces import BadWriteEnablerError

    ck.rule = ("values: byte strings of every length 0..64 (random, all-zero, all-0xff), netstring lists/nesting, UEB "
               "dictionaries with the documented keys, lease fields at range edges, containers of both schema "
               "versions; mutations: one directed operator per decoder check (case, padding, trailing bits, alphabet, "
               "length fields, separators, truncation, duplication, header fields); distinct = (codec, value, operator)")
    rng = ck.rng("c38")
    quick = ck.tier == "quick"
    counter = [0]

    def mine():
        counter[0] += 1
        return ck.mine(counter[0])

    def rb(n):
        r = rng.random()
        if r < 0.8 or n == 0:
            return rng.randbytes(n)
        if r < 0.9:
            return b"\x00" * n
        return b"\xff" * n

    def judge(codec, op, v, m, decode, encode, classify=None, eq=None, lenient_name=None):
        """DESIGN §5 C38 oracle for a mutated encoding m of v."""
        ck.mon("mutation-oracle")
        ck.hit("mutation:%s:%s" % (codec, op))
        try:
            d = decode(m)
        except Exception as e:  # noqa
            ck.hit("rejects:" + codec)
            if isinstance(e, AssertionError):
                ck.observe("rejection-by-assert:" + codec)   # would vanish under python -O
            return "rejected"
        same = eq(d, v) if eq else d == v
        if same:
            ck.skip(lenient_name or "lenient-accept:%s:%s" % (codec, op))
            return "lenient"
        try:
            e = encode(d)
        except Exception:  # noqa
            e = None
        if e == m:
            ck.hit("legit-other-value:" + codec)
            return "other"
        verdict = classify(op, v, m, d) if classify else ("violation", "%s-misread:%s" % (codec, op), "")
        kind, key, why = verdict
        if kind == "skip":
            ck.skip(key)
            return "open"
        ck.violation(key, "%s decoder accepted a malformed encoding and returned a different value instead of "
                          "rejecting it (statement: 'Malformed encodings are rejected rather than silently read "
                          "as a different value'); %s" % (codec, why),
                     {"operator": op, "encoded": v if isinstance(v, (bytes, int)) else repr(v)[:300],
                      "mutated_encoding": m, "decoded_as": d if isinstance(d, bytes) else repr(d)[:300],
                      "reencodes_to": e})
        return "violation"

    # ================================================================ base32
    def b32_section():
        def roundtrip(v):
            ck.mon("roundtrip-oracle")
            try:
                enc = base32.b2a(v)
                dec = base32.a2b(enc)
                cb = base32.could_be_base32_encoded(enc)
            except Exception as e:  # noqa
                ck.violation("base32-raises-on-valid", "base32 raised %s on a valid value" % type(e).__name__, {"v": v})
                return None
            ck.hit("base32-roundtrip")
            if dec != v:
                ck.violation("base32-roundtrip-mismatch", "a2b(b2a(v)) != v", {"v": v, "enc": enc, "dec": dec})
            if enc != ref_b32encode(v):
                ck.violation("base32-encoding-differs-from-rfc3548", "b2a(v) is not the lower-case unpadded RFC 3548 "
                             "encoding", {"v": v, "enc": enc, "want": ref_b32encode(v)})
            if not cb:
                ck.violation("base32-could_be-rejects-valid", "could_be_base32_encoded(b2a(v)) is False", {"v": v})
            return enc

        ALPHA = B32_ALPHABET.encode("ascii")
        JUNK = b"0189=-_ \n\t\x00\xff.:/"

        def only_padding_bits_differ(m, d):
            """m has the canonical length for len(d) bytes and equals b2a(d) except in the padding bits."""
            want = ref_b32encode(d)
            if len(m) != len(want) or not m or m[:-1] != want[:-1] or m[-1:] not in ALPHA:
                return False
            pad = len(m) * 5 - len(d) * 8
            return (ALPHA.index(m[-1:]) >> pad) == (ALPHA.index(want[-1:]) >> pad)

        def classify(op, v, m, d):
            if only_padding_bits_differ(m, d):
                return ("violation", "base32-nonzero-padding-bits-accepted",
                        "the last character carries non-zero padding bits (no b2a() output does); base32.py builds "
                        "could_be_base32_encoded()'s last-character table to refuse exactly this but allows one bit "
                        "too many, so a2b() hands the string to base64.b32decode which ignores the bits")
            return ("violation", "base32-misread:" + op, "")

        def mutants(enc):
            n = len(enc)
            yield "uppercase-all", enc.upper()
            if n:
                i = rng.randrange(n)
                yield "uppercase-one", enc[:i] + enc[i:i + 1].upper() + enc[i + 1:]
                yield "set-trailing-bit", enc[:-1] + bytes([ALPHA[ALPHA.index(enc[-1:]) | 1]])
                yield "set-trailing-bits", enc[:-1] + bytes([ALPHA[ALPHA.index(enc[-1:]) ^ rng.choice([1, 2, 3, 4, 8, 16, 31])]])
                yield "nonalphabet-char", enc[:i] + bytes([rng.choice(JUNK)]) + enc[i + 1:]
                yield "alphabet-substitution", enc[:i] + bytes([rng.choice(ALPHA)]) + enc[i + 1:]
                yield "truncate-1", enc[:-1]
                yield "delete-char", enc[:i] + enc[i + 1:]
                yield "insert-char", enc[:i] + bytes([rng.choice(ALPHA)]) + enc[i:]
            yield "pad-equals-rfc", enc + b"=" * (-len(enc) % 8)
            yield "pad-one-equals", enc + b"="
            yield "append-a", enc + b"a"
            yield "append-aa", enc + b"aa"
            yield "append-newline", enc + b"\n"
            yield "append-space", enc + b" "
            yield "prepend-space", b" " + enc
            yield "append-nul", enc + b"\x00"

        per_len = 6 if quick else 150
        for n in range(0, 65):
            for j in range(per_len):
                if not mine():
                    continue
                if ck.out_of_time():
                    return
                v = b"\x00" * n if j == 0 else b"\xff" * n if j == 1 else rng.randbytes(n)
                enc = roundtrip(v)
                ck.case("base32", key=(n, v), nontrivial=n > 0, sample={"v": v, "enc": enc} if (n, j) == (5, 2) else None)
                if enc is None:
                    continue
                for op, m in mutants(enc):
                    if m == enc:
                        continue
                    r = judge("base32", op, v, m, base32.a2b, base32.b2a, classify)
                    # the predicate and the decoder must agree on what is acceptable
                    try:
                        cb = bool(base32.could_be_base32_encoded(m))
                    except Exception:  # noqa
                        cb = False
                    strict = ref_b32decode(m)
                    ck.mon("could_be-oracle")
                    if cb and strict is None:
                        if all(bytes([c]) in ALPHA for c in m) and len(m) % 8 in (0, 2, 4, 5, 7):
                            # predicate, not a decoder: the consequence is judged through a2b above
                            ck.observe("could_be_base32_encoded-true-for-nonzero-padding-bits")
                        else:
                            ck.violation("base32-could_be-accepts-malformed", "could_be_base32_encoded() is True for a "
                                         "string with a byte outside the alphabet or an impossible length", {"m": m})
                    if not cb and strict is not None:
                        ck.violation("base32-could_be-rejects-valid", "could_be_base32_encoded() is False for a "
                                     "canonical encoding", {"m": m})
                    ck.case("base32-mutant", key=(v, op, m), nontrivial=True)
                    del r
        # complete sub-space: every 1- and 2-byte string (thorough) / 1-byte + 2-byte over a 72-symbol set (quick)
        syms = list(range(256)) if not quick else sorted(set(ALPHA + ALPHA.upper() + b"0189=-_ \n\t\x00\xff"))
        full = True
        for a in [None] + syms:
            if ck.out_of_time():
                full = False
                break
            for b in (range(256) if a is None or not quick else syms):
                if not mine():
                    continue
                s = bytes([b]) if a is None else bytes([a, b])
                strict = ref_b32decode(s)
                ck.mon("enumeration-oracle")
                try:
                    d = base32.a2b(s)
                except Exception:  # noqa
                    d = None
                    ck.hit("rejects:base32")
                if d is not None and strict is None:
                    if only_padding_bits_differ(s, d):
                        # an alias of the canonical spelling of d: DESIGN §2 leaves lenient spellings of the same
                        # value open; the mutation oracle above decides the mechanism
                        ck.skip("base32-enum-alias-with-nonzero-padding-bits")
                    else:
                        ck.violation("base32-accepts-noncanonical", "a2b accepted a string that is not an encoding "
                                     "of any value", {"s": s, "decoded": d})
                elif d is not None and d != strict:
                    ck.violation("base32-roundtrip-mismatch", "a2b(s) differs from the RFC 3548 value", {"s": s, "decoded": d})
                elif d is None and strict is not None:
                    ck.violation("base32-raises-on-valid", "a2b rejected a canonical encoding", {"s": s})
                ck.case("base32-enum", key=s, nontrivial=True)
        ck.extra["base32_enumeration_complete_le2"] = bool(full and not quick)

    # ================================================================ base62
    def b62_section():
        def classify(op, v, m, d):
            val = b62_value(m)
            if val is None:
                return ("violation", "base62-accepts-nonalphabet-byte",
                        "base62.a2b maps bytes outside [0-9A-Za-z] through an identity translate table and uses their "
                        "byte value as a digit")
            if val >= 256 ** len(d):
                return ("violation", "base62-out-of-range-value-wraps",
                        "the digits denote %d which does not fit the %d-byte result; a2b_l drops the high part "
                        "(value mod 256^n)" % (val, len(d)))
            # same integer with leading zero digits / non-minimal length: a faithful reading
            return ("skip", "base62-nonminimal-length-same-number", "")

        def mutants(enc):
            n = len(enc)
            i = rng.randrange(n) if n else 0
            if n:
                yield "nonalphabet-char", enc[:i] + bytes([rng.choice(b"-_=+/ \n\t\x00\xff.:")]) + enc[i + 1:]
                yield "alphabet-substitution", enc[:i] + bytes([rng.choice(B62_ALPHABET)]) + enc[i + 1:]
                yield "first-digit-max", b"z" + enc[1:]
                yield "all-digits-max", b"z" * n
                yield "truncate-1", enc[:-1]
                yield "delete-char", enc[:i] + enc[i + 1:]
            yield "append-digit", enc + bytes([rng.choice(B62_ALPHABET)])
            yield "prepend-zero", b"0" + enc
            yield "append-newline", enc + b"\n"
            yield "append-space", enc + b" "
            yield "prepend-space", b" " + enc

        per_len = 5 if quick else 120
        for n in range(0, 65):
            for j in range(per_len):
                if not mine():
                    continue
                if ck.out_of_time():
                    return
                v = b"\x00" * n if j == 0 else b"\xff" * n if j == 1 else rng.randbytes(n)
                ck.mon("roundtrip-oracle")
                try:
                    enc = base62.b2a(v)
                    dec = base62.a2b(enc)
                except Exception as e:  # noqa
                    ck.violation("base62-raises-on-valid", "base62 raised %s on a valid value" % type(e).__name__, {"v": v})
                    continue
                ck.hit("base62-roundtrip")
                if dec != v:
                    ck.violation("base62-roundtrip-mismatch", "a2b(b2a(v)) != v", {"v": v, "enc": enc, "dec": dec})
                if b62_value(enc) != int.from_bytes(v, "big"):
                    ck.violation("base62-encoding-not-positional", "b2a(v) does not denote int(v) in base 62", {"v": v, "enc": enc})
                ck.case("base62", key=(n, v), nontrivial=n > 0, sample={"v": v, "enc": enc} if (n, j) == (3, 2) else None)
                for op, m in mutants(enc):
                    if m == enc:
                        continue
                    judge("base62", op, v, m, base62.a2b, base62.b2a, classify)
                    ck.case("base62-mutant", key=(v, op, m), nontrivial=True)

    # ------------------------------------------------ exhaustive byte insertion around decimal fields
    def insertions(field):
        """every byte value 0..255 inserted before, between and after the digits of a decimal field."""
        for j in range(len(field) + 1):
            where = "before" if j == 0 else "after" if j == len(field) else "between"
            for b in range(256):
                yield where, b, field[:j] + bytes([b]) + field[j:]

    def judge_insertion(codec, fieldname, where, b, v, mm, decode, encode, classify=None, eq=None):
        """Same oracle as every other mutant.  A string that is accepted and read as the value it was derived
        from is a lenient accept (statement and DESIGN §5 C38 leave it open): counted under
        lenient-accept-same-value, with the byte that was tolerated recorded as an observation."""
        r = judge(codec, "insert-byte-%s-%s" % (where, fieldname), v, mm, decode, encode, classify, eq,
                  lenient_name="lenient-accept-same-value:%s:%s:%s" % (codec, fieldname, where))
        if r == "lenient":
            ck.observe("tolerated-byte:%s:%s:%s:0x%02x" % (codec, fieldname, where, b))
        ck.hit("exhaustive-insertion:%s:%s" % (codec, fieldname))
        return r

    # ================================================================ netstrings
    def netstring_section():
        def enc_list(xs):
            return b"".join(ns.netstring(x) for x in xs)

        def mutants(v, m):
            # directed at: int() leniency, the two asserts, the trailer comparison
            first_len = str(len(v[0])).encode()
            rest = m[len(first_len):]
            yield "length+1", str(len(v[0]) + 1).encode() + rest
            if len(v[0]):
                yield "length-1", str(len(v[0]) - 1).encode() + rest
            yield "length-leading-zero", b"0" + m
            yield "length-plus-sign", b"+" + m
            yield "length-leading-space", b" " + m
            yield "length-trailing-space", first_len + b" " + rest
            yield "length-negative", b"-" + m
            yield "length-empty", rest
            yield "length-nondigit", b"x" + rest
            yield "length-hex", b"0x" + m
            if len(first_len) >= 2:
                yield "length-underscore", first_len[:1] + b"_" + first_len[1:] + rest
            yield "length-huge", b"9" * 30 + rest
            yield "drop-last-comma", m[:-1]
            yield "comma-replaced", m[:-1] + b";"
            yield "truncate-2", m[:-2]
            yield "trailing-garbage", m + b"x"
            yield "trailing-newline", m + b"\n"
            yield "trailing-extra-netstring", m + b"0:,"
            yield "drop-first-byte", m[1:]
            i = rng.randrange(len(m))
            yield "flip-random-byte", m[:i] + bytes([m[i] ^ (1 << rng.randrange(8))]) + m[i + 1:]

        def judge_positional(op, v, data, start, numstrings, note):
            """split_netstring without required_trailer, as dirnode._unpack_contents calls it: the result is
            (elements, position).  The position is part of what is decoded ("points to the first byte which was not
            consumed"): it can never lie beyond the end of the input."""
            ck.mon("mutation-oracle")
            ck.mon("netstring-position-oracle")
            ck.hit("mutation:netstring:%s" % op)
            try:
                got, pos = ns.split_netstring(data, numstrings, position=start)
            except Exception as e:  # noqa
                ck.hit("rejects:netstring")
                if isinstance(e, AssertionError):
                    ck.observe("rejection-by-assert:netstring")
                return
            wit = {"operator": op, "mode": note, "data": data, "position": start, "numstrings": numstrings,
                   "returned_elements": repr(got)[:300], "returned_position": pos, "len_data": len(data)}
            if pos > len(data):
                ck.violation("netstring-position-past-end-of-data",
                             "split_netstring accepted a buffer whose last netstring has no terminating ',' and returned "
                             "position %d for %d bytes of input: it claims to have consumed a byte that does not exist "
                             "(statement: 'Malformed encodings are rejected rather than silently read as a different "
                             "value'; docstring: 'The new position index points to the first byte which was not consumed')"
                             % (pos, len(data)), wit)
            elif got == v[:len(got)] and len(got) == min(numstrings, len(v)):
                ck.skip("lenient-accept:netstring:%s" % op)
            elif enc_list(got) == data[start:pos]:
                ck.hit("legit-other-value:netstring")
            else:
                ck.violation("netstring-misread:" + op, "netstring decoder accepted a malformed encoding and returned a "
                             "different value instead of rejecting it (statement: 'Malformed encodings are rejected rather "
                             "than silently read as a different value')", wit)

        def final_terminator_cases(v, m, k, exhaustive):
            """truncation by exactly one byte / missing or wrong terminator of the LAST netstring, in every calling mode."""
            variants = [("final-comma-dropped", m[:-1]), ("final-comma-nul", m[:-1] + b"\x00"),
                        ("final-comma-semicolon", m[:-1] + b";"), ("final-comma-colon", m[:-1] + b":"),
                        ("final-comma-space", m[:-1] + b" "), ("final-comma-newline", m[:-1] + b"\n"),
                        ("final-two-bytes-dropped", m[:-2])]
            if exhaustive:
                variants += [("final-comma-replaced-any-byte", m[:-1] + bytes([b])) for b in range(256) if b != 0x2c]
            pre = rb(rng.randint(1, 4))
            for op, mm in variants:
                # a) as many strings as there are, no trailer (dirnode's inner call: split_netstring(entry, 4))
                judge_positional(op, v, mm, 0, k, "numstrings=k")
                # b) the same behind a position offset
                judge_positional(op, v, pre + mm, len(pre), k, "numstrings=k,position")
                # c) more strings requested than present
                judge_positional(op, v, mm, 0, k + 1, "numstrings=k+1")
                # d) required_trailer=b"" (the existing oracle)
                judge("netstring", op, v, mm, lambda x: ns.split_netstring(x, k, required_trailer=b"")[0], enc_list)
                # e) dirnode layout: the outer list holds one netstring per entry, each entry is k inner netstrings.
                #    outer intact / inner damaged, and outer damaged / inner intact; parsed the way
                #    dirnode._unpack_contents does (one string at a time, no trailer)
                for outer, which in ((ns.netstring(b"first") + ns.netstring(mm), "inner"),
                                     ((ns.netstring(b"first") + ns.netstring(m))[:-1] if op == "final-comma-dropped"
                                      else (ns.netstring(b"first") + ns.netstring(m))[:-1] + mm[-1:], "outer")):
                    ck.mon("netstring-position-oracle")
                    try:
                        pos = 0
                        entries = []
                        while pos < len(outer):
                            (entry,), pos = ns.split_netstring(outer, 1, pos)
                            entries.append(entry)
                            if pos > len(outer):
                                raise OverflowError(pos)
                        inner, sub = ns.split_netstring(entries[1], k)
                        if sub > len(entries[1]):
                            raise OverflowError(sub)
                    except OverflowError as e:
                        ck.violation("netstring-position-past-end-of-data",
                                     "parsed the way dirnode._unpack_contents does, a directory-shaped blob whose last "
                                     "netstring lost its ',' is accepted and split_netstring returns a position (%s) beyond "
                                     "the end of the input (statement: 'Malformed encodings are rejected rather than "
                                     "silently read as a different value')" % e,
                                     {"operator": op, "damaged": which, "blob": outer})
                    except Exception:  # noqa
                        ck.hit("rejects:netstring")
                    else:
                        if inner == v and entries[0] == b"first":
                            ck.skip("lenient-accept:netstring-nested:%s" % op)
                        elif enc_list(inner) == entries[1][:sub] and enc_list(entries) == outer[:pos]:
                            ck.hit("legit-other-value:netstring")
                        else:
                            ck.violation("netstring-misread:nested-" + op, "a damaged directory-shaped blob was split into "
                                         "other strings than it holds (statement: 'Malformed encodings are rejected rather "
                                         "than silently read as a different value')",
                                         {"operator": op, "damaged": which, "blob": outer, "inner": repr(inner)[:300]})
                ck.case("netstring-final-terminator", key=(tuple(v), op, mm), nontrivial=True)

        n_exhaustive = 6 if quick else 40          # per shard
        done_exhaustive = [0]
        n_cases = 500 if quick else 30000
        for i in range(n_cases):
            if not mine():
                continue
            if ck.out_of_time():
                return
            k = rng.choice([1, 1, 2, 3, 4, 7])
            v = []
            for _ in range(k):
                ln = rng.choice(list(range(0, 12)) + [9, 10, 11, 99, 100, 101, 64, 999, 1000, rng.randint(0, 3000)])
                style = rng.random()
                if style < 0.6:
                    v.append(rb(ln))
                elif style < 0.8:
                    v.append(bytes(rng.choice(b"0123456789:,") for _ in range(ln)))     # netstring look-alikes
                else:
                    v.append(ns.netstring(rb(ln // 2)) + ns.netstring(rb(ln // 3)))       # nested
            ck.mon("roundtrip-oracle")
            try:
                m = enc_list(v)
                if m != b"".join(ref_netstring(x) for x in v):
                    ck.violation("netstring-encoding-differs", "netstring(s) is not '<decimal length>:<s>,'", {"v": v[0]})
                got, pos = ns.split_netstring(m, k, required_trailer=b"")
                if got != v or pos != len(m):
                    ck.violation("netstring-roundtrip-mismatch", "split_netstring(concat(netstring(x))) != x", {"v": repr(v)[:300]})
                # position offset + explicit trailer
                pre = rb(rng.randint(0, 5)); trailer = rb(rng.randint(0, 4))
                got, pos = ns.split_netstring(pre + m + trailer, k, position=len(pre), required_trailer=trailer)
                if got != v or pos != len(pre + m + trailer):
                    ck.violation("netstring-roundtrip-mismatch", "round trip with position/required_trailer failed",
                                 {"v": repr(v)[:300], "pre": pre, "trailer": trailer})
                # no trailer requested: position must point at the first unconsumed byte
                got, pos = ns.split_netstring(m + trailer, k)
                if got != v or pos != len(m):
                    ck.violation("netstring-roundtrip-mismatch", "position returned without required_trailer is wrong", {"v": repr(v)[:300]})
                # nesting, as dirnode entries use it: netstring(concat(netstrings))
                outer = ns.netstring(m)
                (inner,), pos = ns.split_netstring(outer, 1, required_trailer=b"")
                got, _ = ns.split_netstring(inner, k, required_trailer=b"")
                if got != v:
                    ck.violation("netstring-roundtrip-mismatch", "nested round trip failed", {"v": repr(v)[:300]})
                ck.hit("netstring-roundtrip")
            except Exception as e:  # noqa
                ck.violation("netstring-raises-on-valid", "%s: %s" % (type(e).__name__, e), {"v": repr(v)[:300]})
                continue
            ck.case("netstring", key=tuple(v), nontrivial=True, sample={"v": v, "enc": m} if i == 3 else None)
            # wrong trailer must be refused
            ck.mon("mutation-oracle")
            try:
                ns.split_netstring(m + b"a", k, required_trailer=b"b")
                ck.violation("netstring-wrong-trailer-accepted", "required_trailer not enforced", {"m": m})
            except ValueError:
                ck.hit("rejects:netstring")
            # asking for more strings than present must be refused
            try:
                ns.split_netstring(m, k + 1, required_trailer=b"")
                ck.violation("netstring-missing-strings-accepted", "fewer netstrings than requested accepted", {"m": m})
            except ValueError:
                ck.hit("rejects:netstring")
            for op, mm in mutants(v, m):
                if mm == m:
                    continue
                judge("netstring", op, v, mm,
                      lambda x: ns.split_netstring(x, k, required_trailer=b"")[0], enc_list)
                ck.case("netstring-mutant", key=(tuple(v), op, mm), nontrivial=True)
            final_terminator_cases(v, m, k, exhaustive=done_exhaustive[0] < n_exhaustive)
            if done_exhaustive[0] < n_exhaustive:
                done_exhaustive[0] += 1
                encs = [ns.netstring(x) for x in v]
                for idx_, e_ in enumerate(encs):
                    field = str(len(v[idx_])).encode()
                    for where, b, nf in insertions(field):
                        mm = b"".join(encs[:idx_]) + nf + e_[len(field):] + b"".join(encs[idx_ + 1:])
                        judge_insertion("netstring", "length", where, b, v, mm,
                                        lambda x: ns.split_netstring(x, k, required_trailer=b"")[0], enc_list)
                        ck.case("netstring-insertion", key=(tuple(v), idx_, where, b), nontrivial=True)

    # ================================================================ URI extension block
    INTKEYS = ("size", "segment_size", "num_segments", "needed_shares", "total_shares")   # URI-extension.rst

    def ueb_section():
        def gen_ueb():
            d = {}
            big = rng.choice([0, 1, 9, 10, 255, 256, 2 ** 32 - 1, 2 ** 32, 2 ** 64 - 1, 2 ** 64, rng.randint(0, 10 ** 12)])
            n = rng.randint(1, 256); k = rng.randint(1, n)
            seg = rng.choice([1, k, 131072, 131073, rng.randint(1, 2 ** 21)])
            d["size"] = big
            d["segment_size"] = seg
            d["num_segments"] = rng.choice([0, 1, 2, (big + seg - 1) // seg])
            d["needed_shares"] = k
            d["total_shares"] = n
            d["codec_name"] = b"crs"
            d["codec_params"] = b"%d-%d-%d" % (seg, k, n)
            d["tail_codec_params"] = b"%d-%d-%d" % (rng.randint(1, seg), k, n)
            for h in ("share_root_hash", "crypttext_hash", "crypttext_root_hash"):
                d[h] = rb(32)
            if rng.random() < 0.3:
                d["plaintext_hash"] = rb(32)
            if rng.random() < 0.3:
                d[rng.choice(["future_key", "x-y", "A", "_"])] = rb(rng.choice([0, 1, 10, 100]))    # unknown keys pass through
            for kk in list(d):
                if kk not in INTKEYS[:1] and rng.random() < 0.08:
                    del d[kk]
            # values that look like syntax
            if rng.random() < 0.2:
                d["codec_name"] = bytes(rng.choice(b"0123456789:,") for _ in range(rng.randint(0, 12)))
            return d

        def pieces_of(m):
            """strict split into 'key:len:value,' pieces, None when m is not piecewise canonical."""
            out = []
            pos = 0
            while pos < len(m):
                c1 = m.find(b":", pos)
                if c1 < 0:
                    return None
                c2 = m.find(b":", c1 + 1)
                if c2 < 0:
                    return None
                num = m[c1 + 1:c2]
                if not num.isdigit() or (len(num) > 1 and num[:1] == b"0") or len(num) > 12:
                    return None
                end = c2 + 1 + int(num)
                if m[end:end + 1] != b",":
                    return None
                out.append(m[pos:end + 1])
                pos = end + 1
            return out

        def faithful(m):
            """Lenient-but-faithful reading of m: python int() spellings allowed for lengths and integer
            fields, every byte accounted for.  Returns list of (key, value) or None."""
            out = []
            pos = 0
            while pos < len(m):
                c1 = m.find(b":", pos)
                c2 = m.find(b":", c1 + 1) if c1 >= 0 else -1
                if c1 < 0 or c2 < 0:
                    return None
                try:
                    ln = int(m[c1 + 1:c2])
                except ValueError:
                    return None
                end = c2 + 1 + ln
                if ln < 0:
                    return "negative-length"
                if end >= len(m) or m[end:end + 1] != b",":
                    return None
                out.append((m[pos:c1], m[c2 + 1:end]))
                pos = end + 1
            return out

        def classify(op, v, m, d):
            import re as _re
            fr = faithful(m)
            if fr == "negative-length":
                return ("violation", "ueb-negative-length-accepted",
                        "a negative length field is used as a python slice index: value = data[:length], and the "
                        "separator check data[length:length+1] == b',' succeeds whenever some comma sits |length| bytes "
                        "before the end of the block, so the field swallows or drops following fields")
            if fr is None:
                return ("violation", "ueb-misread:" + op, "the bytes cannot be split into key:length:value, pieces at all")
            keys = [k for k, _ in fr]
            if len(set(keys)) != len(keys):
                return ("violation", "ueb-duplicate-key-last-wins",
                        "URI-extension.rst: 'This block is a serialized dictionary ... sort all the keys "
                        "lexicographically; for k in keys: write(\"%s:\" % k); write(netstring(data[k]))' -- a block "
                        "that carries the same key twice is not a serialized dictionary; unpack_extension silently "
                        "keeps the last occurrence")
            try:
                want = {}
                for k, val in fr:
                    ks = k.decode("utf-8")
                    want[ks] = int(val) if ks in INTKEYS else val
            except ValueError:
                return ("violation", "ueb-misread:" + op, "a field that cannot be read faithfully was accepted")
            if want != d:
                return ("violation", "ueb-misread:" + op, "the decoded dictionary is not what the bytes say")
            # a faithful reading of a non-canonical spelling of another dictionary: left open by the statement
            if any(not _re.match(br'^[a-zA-Z_\-]+\Z', k) for k in keys):
                return ("skip", "ueb-unencodable-key-name-passed-through", "")
            if keys != sorted(keys):
                return ("skip", "ueb-unsorted-keys-accepted", "")
            return ("skip", "ueb-lenient-number-spelling-of-another-value", "")

        def eq(d, v):
            return d == {str(k): val for k, val in v.items()}

        def mutants(v, m):
            ps = pieces_of(m)
            i = rng.randrange(len(ps))
            p = ps[i]
            key, num, rest = p.split(b":", 2)
            pre = b"".join(ps[:i]); post = b"".join(ps[i + 1:])
            val = rest[:-1]

            def rebuild(newp):
                return pre + newp + post
            yield "length+1", rebuild(key + b":" + str(len(val) + 1).encode() + b":" + rest)
            if len(val):
                yield "length-1", rebuild(key + b":" + str(len(val) - 1).encode() + b":" + rest)
            yield "length-leading-zero", rebuild(key + b":0" + num + b":" + rest)
            yield "length-plus-sign", rebuild(key + b":+" + num + b":" + rest)
            yield "length-space", rebuild(key + b": " + num + b":" + rest)
            yield "length-negative", rebuild(key + b":-" + num + b":" + rest)
            yield "length-empty", rebuild(key + b"::" + rest)
            # directed at value = data[:length] / data[length:length+1] == b',' with a negative length:
            # choose -N so that a comma sits N bytes before the end of the block
            tail = rest + post
            commas = [j for j in range(len(tail) - 1) if tail[j:j + 1] == b","]
            if commas:
                j = rng.choice(commas)
                yield "length-negative-aligned", rebuild(key + b":-%d:" % (len(tail) - j) + rest)
            yield "length-huge", rebuild(key + b":" + b"9" * 25 + b":" + rest)
            yield "drop-comma", rebuild(key + b":" + num + b":" + val)
            yield "comma-replaced", rebuild(key + b":" + num + b":" + val + b";")
            yield "truncate-1", m[:-1]
            yield "truncate-half", m[:len(m) // 2]
            yield "trailing-garbage", m + b"x"
            yield "trailing-newline", m + b"\n"
            yield "empty-key", rebuild(b":" + num + b":" + rest)
            yield "key-with-digit", rebuild(key + b"9:" + num + b":" + rest)
            yield "key-non-utf8", rebuild(b"\xff" + key + b":" + num + b":" + rest)
            yield "duplicate-piece", pre + p + p + post
            other = val + b"1" if key.decode() in INTKEYS else val + b"x"
            dup = key + b":" + str(len(other)).encode() + b":" + other + b","
            yield "duplicate-key-other-value", pre + p + dup + post
            yield "duplicate-key-other-value-at-end", m + dup
            if len(ps) > 1:
                j = (i + 1) % len(ps)
                sw = list(ps); sw[i], sw[j] = sw[j], sw[i]
                yield "swap-pieces", b"".join(sw)
            ik = [q for q in ps if q.split(b":", 1)[0].decode() in INTKEYS]
            if ik:
                q = rng.choice(ik)
                qi = ps.index(q)
                qk, _qn, qrest = q.split(b":", 2)
                qv = qrest[:-1]
                for name, nv in (("int-leading-zero", b"0" + qv), ("int-plus", b"+" + qv), ("int-space", b" " + qv),
                                 ("int-trailing-space", qv + b" "), ("int-newline", qv + b"\n"), ("int-empty", b""),
                                 ("int-hex", b"0x" + qv), ("int-float", qv + b".0"), ("int-nondigit", qv + b"a"),
                                 ("int-underscore", qv[:1] + b"_" + qv[1:] if len(qv) > 1 else qv + b"_0"),
                                 ("int-negative", b"-" + qv)):
                    yield name, b"".join(ps[:qi]) + qk + b":" + str(len(nv)).encode() + b":" + nv + b"," + b"".join(ps[qi + 1:])

        n_exhaustive = 3 if quick else 25           # per shard
        done_exhaustive = [0]
        n_cases = 300 if quick else 15000
        for i in range(n_cases):
            if not mine():
                continue
            if ck.out_of_time():
                return
            v = gen_ueb()
            ck.mon("roundtrip-oracle")
            try:
                keyed = v if i % 2 else {k.encode("ascii"): val for k, val in v.items()}    # str or bytes keys
                m = uri.pack_extension(keyed)
                d = uri.unpack_extension(m)
            except Exception as e:  # noqa
                ck.violation("ueb-raises-on-valid", "%s: %s" % (type(e).__name__, e), {"v": repr(v)[:400]})
                continue
            ck.hit("ueb-roundtrip")
            if d != v:
                ck.violation("ueb-roundtrip-mismatch", "unpack_extension(pack_extension(v)) != v",
                             {"v": repr(v)[:400], "decoded": repr(d)[:400]})
            want = b"".join(k.encode() + b":" + ref_netstring(b"%d" % val if isinstance(val, int) else val)
                            for k, val in sorted(v.items()))
            if m != want:
                ck.violation("ueb-encoding-differs-from-spec", "pack_extension output is not the sorted 'key:' + "
                             "netstring(value) serialisation of URI-extension.rst", {"got": m, "want": want})
            try:
                r = uri.unpack_extension_readable(m)
                ok = r.get("UEB_hash") == ref_b32encode(
                    hashlib.sha256(hashlib.sha256(ref_netstring(b"allmydata_uri_extension_v1") + m).digest()).digest())
                for k, val in v.items():
                    if "hash" in k:
                        ok = ok and r[k] == ref_b32encode(val)
                    else:
                        ok = ok and r[k] == val
                if not ok:
                    ck.violation("ueb-readable-mismatch", "unpack_extension_readable disagrees with the packed values", {"m": m})
            except Exception as e:  # noqa
                ck.violation("ueb-raises-on-valid", "unpack_extension_readable: %s: %s" % (type(e).__name__, e), {"m": m})
            ck.case("ueb", key=m, nontrivial=True, sample={"v": {k: v[k] for k in list(v)[:5]}, "len": len(m)} if i == 1 else None)
            for op, mm in mutants(v, m):
                if mm == m:
                    continue
                judge("ueb", op, v, mm, uri.unpack_extension, uri.pack_extension, classify, eq)
                ck.case("ueb-mutant", key=(m, op, mm), nontrivial=True)
            if done_exhaustive[0] < n_exhaustive:
                done_exhaustive[0] += 1
                ps = pieces_of(m)
                for pi, p in enumerate(ps):
                    key, num, rest = p.split(b":", 2)
                    pre = b"".join(ps[:pi]); post = b"".join(ps[pi + 1:])
                    for where, b, nf in insertions(num):
                        mm = pre + key + b":" + nf + b":" + rest + post
                        judge_insertion("ueb", "length", where, b, v, mm, uri.unpack_extension, uri.pack_extension, classify, eq)
                        ck.case("ueb-insertion", key=(m, pi, "len", where, b), nontrivial=True)
                    if key.decode() in INTKEYS:
                        val = rest[:-1]
                        for where, b, nv in insertions(val):
                            mm = pre + key + b":" + str(len(nv)).encode() + b":" + nv + b"," + post
                            judge_insertion("ueb", "integer-value", where, b, v, mm, uri.unpack_extension,
                                            uri.pack_extension, classify, eq)
                            ck.case("ueb-insertion", key=(m, pi, "int", where, b), nontrivial=True)

    # ================================================================ lease records
    def lease_section():
        U32 = 2 ** 32 - 1
        OWNERS = [0, 1, 2, 255, 2 ** 31 - 1, 2 ** 31, U32 - 1, U32]
        EXPIRIES = [0, 1, 2 ** 31 - 1, 2 ** 31, U32 - 1, U32, 1_700_000_000, 1_700_000_000 + 31 * 86400]
        ser = {("immutable", 1): lease_schema.v1_immutable, ("immutable", 2): lease_schema.v2_immutable,
               ("mutable", 1): lease_schema.v1_mutable, ("mutable", 2): lease_schema.v2_mutable}
        n_cases = 400 if quick else 30000
        for i in range(n_cases):
            if not mine():
                continue
            if ck.out_of_time():
                return
            owner = rng.choice(OWNERS + [rng.randint(0, U32)])
            expiry = rng.choice(EXPIRIES + [rng.randint(0, U32)])
            renew, cancel, nodeid = rb(32), rb(32), rb(20)
            if renew == cancel:
                cancel = bytes([cancel[0] ^ 1]) + cancel[1:]
            try:
                li = LeaseInfo(owner, renew, cancel, expiry, nodeid)
            except Exception as e:  # noqa
                ck.violation("lease-raises-on-valid", "LeaseInfo(): %s: %s" % (type(e).__name__, e), {"owner": owner})
                continue
            for (kind, ver), s in sorted(ser.items()):
                ck.mon("roundtrip-oracle")
                wit = {"format": kind, "schema": ver, "owner": owner, "expiry": expiry, "renew": renew,
                       "cancel": cancel, "nodeid": nodeid}
                try:
                    data = s.serialize(li)
                    back = s.unserialize(data)
                    again = s.serialize(back)
                except Exception as e:  # noqa
                    ck.violation("lease-raises-on-valid", "%s v%d: %s: %s" % (kind, ver, type(e).__name__, e), wit)
                    continue
                ck.hit("lease-roundtrip:%s-v%d" % (kind, ver))
                r_, c_ = (renew, cancel) if ver == 1 else (blake(renew), blake(cancel))
                want = (ref_lease_immutable(owner, r_, c_, expiry) if kind == "immutable"
                        else ref_lease_mutable(owner, r_, c_, expiry, nodeid))
                if data != want:
                    ck.violation("lease-layout-differs", "serialized lease differs from the documented byte layout "
                                 "(storage/immutable.py, storage/mutable.py layout comments)", dict(wit, got=data, want=want))
                bad = []
                if back.owner_num != owner:
                    bad.append("owner_num")
                if back.get_expiration_time() != expiry:
                    bad.append("expiration_time")
                if kind == "mutable" and back.nodeid != nodeid:
                    bad.append("nodeid")
                if not back.is_renew_secret(renew) or back.is_renew_secret(cancel):
                    bad.append("renew_secret")
                if not back.is_cancel_secret(cancel) or back.is_cancel_secret(renew):
                    bad.append("cancel_secret")
                if ver == 1 and (back.renew_secret != renew or back.cancel_secret != cancel):
                    bad.append("cleartext secrets")
                if ver == 2 and not isinstance(back, HashedLeaseInfo):
                    bad.append("type")
                if again != data:
                    bad.append("re-serialisation")
                if bad:
                    ck.violation("lease-roundtrip-mismatch", "lease fields changed across serialize/unserialize: %s"
                                 % ",".join(bad), dict(wit, data=data))
                ck.case("lease", key=(kind, ver, owner, expiry, renew, cancel, nodeid), nontrivial=True,
                        sample=wit if i == 0 and ver == 2 and kind == "mutable" else None)
                # every bit pattern of the right size is a record: decode then encode must reproduce it
                m = rng.randbytes(len(data))
                if kind == "immutable":
                    judge("lease-" + kind, "random-record", None, m, LeaseInfo.from_immutable_data,
                          lambda L: L.to_immutable_data())
                else:
                    judge("lease-" + kind, "random-record", None, m, LeaseInfo.from_mutable_data,
                          lambda L: L.to_mutable_data())
                # wrong sizes must be refused
                for op, mm in (("truncate-1", data[:-1]), ("extend-1", data + b"\x00"), ("empty", b""),
                               ("other-format-size", data + b"\x00" * 20 if kind == "immutable" else data[:72])):
                    judge("lease-" + kind, op, (owner, expiry), mm,
                          lambda x: (lambda L: (L.owner_num, L.get_expiration_time()))(s.unserialize(x)),
                          lambda t: None)
            # values outside the field ranges must not be written as something else
            for field, val in (("owner", U32 + 1), ("owner", -1), ("expiry", U32 + 1), ("expiry", -1), ("expiry", 2 ** 40)):
                ck.mon("range-oracle")
                o, e = (val, expiry) if field == "owner" else (owner, val)
                for kind in ("immutable", "mutable"):
                    try:
                        L = LeaseInfo(o, renew, cancel, e, nodeid)
                        data = L.to_immutable_data() if kind == "immutable" else L.to_mutable_data()
                    except Exception:  # noqa
                        ck.hit("lease-out-of-range-refused")
                        continue
                    ck.violation("lease-field-out-of-range-wraps", "a lease with %s=%d was serialized (as another value) "
                                 "instead of being refused" % (field, val), {"field": field, "value": val, "data": data})
            # float expiry (what the server passes): whole seconds are stored; the statement leaves sub-second
            # precision open
            fexp = expiry + rng.random() if expiry < U32 else float(expiry)
            try:
                L = LeaseInfo(owner, renew, cancel, fexp, nodeid)
                b = LeaseInfo.from_immutable_data(L.to_immutable_data())
                if abs(b.get_expiration_time() - fexp) >= 1:
                    ck.violation("lease-expiry-off-by-seconds", "float expiry changed by >= 1 s", {"expiry": fexp, "got": b.get_expiration_time()})
                ck.skip("lease-float-expiry-subsecond-truncation")
            except Exception as e:  # noqa
                ck.observe("lease-float-expiry-raises:" + type(e).__name__)
        # API-forbidden inputs (secrets that are not 32 bytes): struct pads/truncates; not judged
        for ln in (0, 31, 33):
            try:
                LeaseInfo(1, b"r" * ln, b"c" * 32, 5, b"n" * 20).to_immutable_data()
            except Exception:  # noqa
                pass
            ck.skip("lease-secret-length-forbidden")

    # ================================================================ share container headers
    def container_section():
        class Parent(object):
            def log(self, *a, **k):
                return None

        n_cases = 40 if quick else 1500
        for i in range(n_cases):
            if not mine():
                continue
            if ck.out_of_time():
                return
            base = tempfile.mkdtemp(prefix="vf-")
            try:
                for ver in (1, 2):
                    # ---------- immutable
                    size = rng.choice([0, 1, 71, 72, 73, 100, 1000, rng.randint(0, 5000)])
                    data = rb(size)
                    leases = [LeaseInfo(rng.choice([1, 2 ** 32 - 1, rng.randint(1, 2 ** 32 - 1)]), rb(32), rb(32),
                                        rng.choice([0, 2 ** 32 - 1, rng.randint(0, 2 ** 32 - 1)]), rb(20))
                              for _ in range(rng.choice([0, 1, 2, 5]))]
                    fn = os.path.join(base, "imm-%d" % ver)
                    wit = {"container": "immutable", "schema": ver, "size": size, "leases": len(leases)}
                    ck.mon("roundtrip-oracle")
                    try:
                        sf = ShareFile(fn, max_size=size, create=True, schema=immutable_schema.schema_from_version(ver))
                        sf.write_share_data(0, data)
                        for L in leases:
                            sf.add_lease(L)
                        raw = open(fn, "rb").read()
                        rd = ShareFile(fn)
                        got_leases = list(rd.get_leases())
                        bad = []
                        if raw[:12] != ver.to_bytes(4, "big") + min(size, 2 ** 32 - 1).to_bytes(4, "big") + len(leases).to_bytes(4, "big"):
                            bad.append("header bytes differ from the documented layout (version, data length, lease count)")
                        if ShareFile.is_valid_header(raw[:12]) is not True:
                            bad.append("is_valid_header false")
                        if rd.get_length() != size or rd.read_share_data(0, size + 10) != data:
                            bad.append("share data")
                        if len(got_leases) != len(leases):
                            bad.append("lease count")
                        for a, b in zip(leases, got_leases):
                            if (b.owner_num, b.get_expiration_time()) != (a.owner_num, a.get_expiration_time()) \
                                    or not b.is_renew_secret(a.renew_secret) or not b.is_cancel_secret(a.cancel_secret):
                                bad.append("lease fields")
                            if (ver == 2) != isinstance(b, HashedLeaseInfo):
                                bad.append("lease secrecy does not follow the schema version")
                        if bad:
                            ck.violation("immutable-container-roundtrip-mismatch", "re-opened immutable container "
                                         "differs: " + "; ".join(sorted(set(bad))), wit)
                        ck.hit("immutable-container-roundtrip-v%d" % ver)
                    except Exception as e:  # noqa
                        ck.violation("container-raises-on-valid", "immutable v%d: %s: %s" % (ver, type(e).__name__, e), wit)
                        continue
                    ck.case("immutable-container", key=(ver, data, len(leases)), nontrivial=True,
                            sample=dict(wit, header=raw[:12]) if i == 0 else None)

                    def imm_decode(path):
                        # what a reader of the share gets: constructor, length, data; the lease list is a
                        # separate consumer (expirer) and may fail on its own
                        s = ShareFile(path)
                        head = (s._schema.version, s.get_length(), s.read_share_data(0, 10 ** 6))
                        try:
                            ls = [(L.owner_num, L.get_expiration_time()) for L in s.get_leases()]
                        except (OSError, struct.error):
                            ls = "unreadable"
                        return head + (ls,)
                    v = (ver, size, data, [(L.owner_num, L.get_expiration_time()) for L in leases])

                    def imm_judge(op, newraw, classify=None):
                        p = os.path.join(base, "mut-imm")
                        with open(p, "wb") as f:
                            f.write(newraw)

                        def enc(d):
                            # re-encode what was read through the real writer; the data-length field (bytes 4..8)
                            # is documented as unused by readers, so it is taken from the mutated file
                            q = os.path.join(base, "re-imm")
                            if os.path.exists(q):
                                os.unlink(q)
                            s = ShareFile(q, max_size=d[1], create=True, schema=immutable_schema.schema_from_version(d[0]))
                            s.write_share_data(0, d[2])
                            with open(q, "rb") as f:
                                head = f.read(12)
                            out = head[:4] + newraw[4:8] + struct.pack(">L", len(d[3])) + d[2] + newraw[12 + len(d[2]):]
                            return out
                        r = judge("immutable-header", op, v, newraw, lambda _x: imm_decode(p), enc, classify)
                        ck.case("immutable-header-mutant", key=(raw, op), nontrivial=True)
                        return r

                    def cls_imm(op, v_, m_, d_):
                        if d_[1] < 0:
                            return ("violation", "immutable-lease-count-beyond-file-read-as-empty",
                                    "the header's lease count needs more bytes than the file holds; ShareFile computes a "
                                    "negative data length (%d) and read_share_data returns b'' instead of refusing the "
                                    "container" % d_[1])
                        return ("violation", "immutable-header-misread:" + op, "")
                    imm_judge("unknown-version-0", struct.pack(">L", 0) + raw[4:])
                    imm_judge("unknown-version-3", struct.pack(">L", 3) + raw[4:])
                    imm_judge("unknown-version-high-bit", struct.pack(">L", ver | 0x80000000) + raw[4:])
                    imm_judge("version-little-endian", struct.pack("<L", ver) + raw[4:])
                    imm_judge("other-known-version", struct.pack(">L", 3 - ver) + raw[4:])
                    imm_judge("truncated-header", raw[:rng.randint(0, 11)])
                    imm_judge("unused-length-field-changed", raw[:4] + struct.pack(">L", rng.randint(0, 2 ** 32 - 1)) + raw[8:])
                    imm_judge("lease-count-beyond-file", raw[:8] + struct.pack(">L", len(leases) + (size // 72) + 1 + rng.randint(0, 3)) + raw[12:], cls_imm)
                    imm_judge("lease-count-max", raw[:8] + struct.pack(">L", 2 ** 32 - 1) + raw[12:], cls_imm)
                    if size >= 72:
                        imm_judge("lease-count+1-fits", raw[:8] + struct.pack(">L", len(leases) + 1) + raw[12:], cls_imm)

                    # ---------- mutable
                    nodeid, we = rb(20), rb(32)
                    mdata = rb(rng.choice([0, 1, 10, 1000]))
                    fn = os.path.join(base, "mut-%d" % ver)
                    sch = [s for s in mutable_schema.ALL_SCHEMAS if s.version == ver][0]
                    wit = {"container": "mutable", "schema": ver, "nodeid": nodeid, "write_enabler": we, "datalen": len(mdata)}
                    ck.mon("roundtrip-oracle")
                    try:
                        ms = MutableShareFile(fn, parent=Parent(), schema=sch)
                        ms.create(nodeid, we)
                        mleases = [LeaseInfo(rng.randint(1, 2 ** 32 - 1), rb(32), rb(32), rng.choice([0, 2 ** 32 - 1, 17]), rb(20))
                                   for _ in range(rng.choice([0, 1, 4, 5, 6, 9]))]
                        for L in mleases:
                            ms.add_lease(10 ** 9, L)
                        ms.writev([(0, mdata)], None)
                        raw = open(fn, "rb").read()
                        rd = MutableShareFile(fn, parent=Parent())
                        bad = []
                        magic = b"Tahoe mutable container v%d\n" % ver
                        if not raw.startswith(magic) or raw[32:52] != nodeid or raw[52:84] != we \
                                or raw[84:92] != len(mdata).to_bytes(8, "big"):
                            bad.append("header bytes differ from the documented layout (magic, nodeid, write enabler, data size)")
                        if ver == 1 and raw[27:32] != b"\x75\x09\x44\x03\x8e":
                            bad.append("v1 magic tail")
                        if MutableShareFile.is_valid_header(raw[:100]) is not True:
                            bad.append("is_valid_header false")
                        if rd._schema.version != ver:
                            bad.append("schema version")
                        if rd.readv([(0, len(mdata) + 10)]) != [mdata] or rd.get_length() != len(mdata):
                            bad.append("share data")
                        try:
                            rd.check_write_enabler(we, b"si")
                        except BadWriteEnablerError:
                            bad.append("write enabler rejected")
                        try:
                            rd.check_write_enabler(bytes([we[0] ^ 1]) + we[1:], b"si")
                            bad.append("wrong write enabler accepted")
                        except BadWriteEnablerError as e:
                            if ref_b32encode(nodeid).decode() not in str(e):
                                bad.append("nodeid reported by BadWriteEnablerError")
                        gl = list(rd.get_leases())
                        if len(gl) != len(mleases):
                            bad.append("lease count")
                        for a, b in zip(mleases, gl):
                            if (b.owner_num, b.get_expiration_time(), b.nodeid) != (a.owner_num, a.get_expiration_time(), a.nodeid) \
                                    or not b.is_renew_secret(a.renew_secret) or not b.is_cancel_secret(a.cancel_secret):
                                bad.append("lease fields")
                            if (ver == 2) != isinstance(b, HashedLeaseInfo):
                                bad.append("lease secrecy does not follow the schema version")
                        if bad:
                            ck.violation("mutable-container-roundtrip-mismatch", "re-opened mutable container differs: "
                                         + "; ".join(sorted(set(bad))), wit)
                        ck.hit("mutable-container-roundtrip-v%d" % ver)
                    except Exception as e:  # noqa
                        ck.violation("container-raises-on-valid", "mutable v%d: %s: %s" % (ver, type(e).__name__, e), wit)
                        continue
                    ck.case("mutable-container", key=(ver, nodeid, we, mdata, len(mleases)), nontrivial=True,
                            sample=dict(wit, magic=raw[:32]) if i == 0 else None)

                    def mut_decode(path):
                        s = MutableShareFile(path, parent=Parent())
                        out = [s._schema.version, s.readv([(0, 10 ** 6)])[0], s.get_length()]
                        try:
                            s.check_write_enabler(we, b"si")
                            out.append(True)
                        except BadWriteEnablerError:
                            out.append(False)
                        out.append(len(list(s.get_leases())))
                        return tuple(out)
                    mv = (ver, mdata, len(mdata), True, len(mleases))

                    def mut_judge(op, newraw, classify=None):
                        p = os.path.join(base, "mut-mut")
                        with open(p, "wb") as f:
                            f.write(newraw)
                        r = judge("mutable-header", op, mv, newraw, lambda _x: mut_decode(p), lambda d: None, classify)
                        ck.case("mutable-header-mutant", key=(raw, op), nontrivial=True)
                        return r

                    def cls_mut(op, v_, m_, d_):
                        if op == "write-enabler-byte-changed" and d_ == v_[:3] + (False,) + v_[4:]:
                            return ("skip", "mutable-write-enabler-is-another-value", "")    # a different, valid header
                        if op.startswith("data-length") and (d_[2] > capacity or len(d_[1]) > capacity):
                            return ("violation", "mutable-data-length-beyond-container-reads-lease-area",
                                    "the header's data size (%d) exceeds the container's data region (%d bytes between the "
                                    "header and the extra-lease block); readv returns %d bytes, i.e. the share data followed "
                                    "by the extra-lease count / lease records, instead of refusing the container"
                                    % (d_[2], capacity, len(d_[1])))
                        if op.startswith("data-length") and d_[2] != len(d_[1]):
                            return ("violation", "mutable-data-length-beyond-file-read-short",
                                    "the header's data size (%d) exceeds what the file holds; readv silently returns the "
                                    "%d bytes up to end of file (lease area included) instead of refusing the container"
                                    % (d_[2], len(d_[1])))
                        if op.startswith("data-length") or op.startswith("extra-lease-offset") or op == "nodeid-byte-changed":
                            return ("skip", "mutable-header-field-is-another-value", "")
                        return ("violation", "mutable-header-misread:" + op, "")
                    capacity = struct.unpack(">Q", raw[92:100])[0] - 468       # extra-lease offset - DATA_OFFSET
                    if len(mleases) > 4:
                        ck.hit("mutable-container-with-extra-leases")
                    # data-size field = capacity + d, boundary-biased around DATA_OFFSET (468): a bound check that forgets
                    # the header size lets exactly d <= 468 through
                    for d_extra in (1, 2, 3, 4, 5, 92, 96, 97, 188, 189, 466, 467, 468, 469, 470, 471, 936,
                                    rng.randint(1, 468), rng.randint(469, 2000)):
                        mut_judge("data-length-capacity-plus-%s" % ("le-468" if d_extra <= 468 else "gt-468"),
                                  raw[:84] + struct.pack(">Q", capacity + d_extra) + raw[92:], cls_mut)
                    vpos = magic.index(b"v") + 1
                    mut_judge("magic-first-byte", b"X" + raw[1:], cls_mut)
                    mut_judge("magic-version-digit-only", raw[:vpos] + (b"2" if ver == 1 else b"1") + raw[vpos + 1:], cls_mut)
                    mut_judge("magic-version-digit-3", raw[:vpos] + b"3" + raw[vpos + 1:], cls_mut)
                    mut_judge("magic-tail-byte", raw[:31] + bytes([raw[31] ^ 1]) + raw[32:], cls_mut)
                    mut_judge("magic-lowercase", raw[:32].lower() + raw[32:], cls_mut)
                    mut_judge("truncated-inside-magic", raw[:rng.randint(0, 31)], cls_mut)
                    mut_judge("truncated-after-magic", raw[:rng.randint(32, 99)], cls_mut)
                    mut_judge("write-enabler-byte-changed", raw[:60] + bytes([raw[60] ^ 0x40]) + raw[61:], cls_mut)
                    mut_judge("nodeid-byte-changed", raw[:40] + bytes([raw[40] ^ 0x40]) + raw[41:], cls_mut)
                    mut_judge("data-length-beyond-file", raw[:84] + struct.pack(">Q", len(raw) + rng.randint(1, 10 ** 6)) + raw[92:], cls_mut)
                    mut_judge("data-length-max", raw[:84] + struct.pack(">Q", 2 ** 64 - 1) + raw[92:], cls_mut)
                    mut_judge("extra-lease-offset-beyond-file", raw[:92] + struct.pack(">Q", len(raw) + rng.randint(1, 10 ** 6)) + raw[100:], cls_mut)
            finally:
                shutil.rmtree(base, ignore_errors=True)

    # ================================================================ SDMF share header (mutable/layout.py)
    def sdmf_share_section():
        """pack_share/unpack_share: the share header carries the offsets of every field up to EOF.  A strict prefix
        of a packed share is a malformed encoding (the header announces more bytes than are present): it must be
        refused, never sliced into shorter fields.  Cut points are directed at every field boundary and inside
        every field, the last one (enc_privkey) in particular."""
        from allmydata.mutable import layout as ml

        def encode(d):
            (seqnum, root_hash, IV, k, N, segsize, datalen, pubkey, sig, chain, bht, sdata, priv) = d
            return ml.pack_share(ml.pack_prefix(seqnum, root_hash, IV, k, N, segsize, datalen),
                                 pubkey, sig, chain, bht, sdata, priv)

        n_cases = 6 if quick else 200
        for i in range(n_cases):
            if not mine():
                continue
            if ck.out_of_time():
                return
            datalen = rng.choice([0, 1, 100, 2000, rng.randint(0, 3000)])
            privlen = rng.choice([1, 2, 33, 1216, rng.randint(1, 1500)])
            N = rng.randint(1, 255); k = rng.randint(1, N)
            chain = {rng.randrange(0, 600): rb(32) for _ in range(rng.randint(0, 4))}
            v = (rng.choice([0, 1, 2 ** 64 - 1, rng.randint(0, 2 ** 64 - 1)]), rb(32), rb(16), k, N, datalen, datalen,
                 rb(rng.choice([0, 1, 292])), rb(rng.choice([0, 1, 256])), chain,
                 [rb(32) for _ in range(rng.choice([0, 1, 3]))], rb(datalen), rb(privlen))
            ck.mon("roundtrip-oracle")
            try:
                share = encode(v)
                got = ml.unpack_share(share)
                o = ml.unpack_header(share)[-1]
            except Exception as e:  # noqa
                ck.violation("sdmf-share-raises-on-valid", "%s: %s" % (type(e).__name__, e), {"v": repr(v)[:300]})
                continue
            ck.hit("sdmf-share-roundtrip")
            if got != v or o["EOF"] != len(share):
                ck.violation("sdmf-share-roundtrip-mismatch", "unpack_share(pack_share(v)) != v, or the header's EOF "
                             "offset is not the length of the packed share", {"v": repr(v)[:300], "got": repr(got)[:300]})
                continue
            ck.case("sdmf-share", key=share, nontrivial=True,
                    sample={"len": len(share), "offsets": dict(o)} if i == 0 else None)
            names = ["signature", "share_hash_chain", "block_hash_tree", "share_data", "enc_privkey", "EOF"]
            cuts = {}
            prev = ml.HEADER_LENGTH
            for fi, name in enumerate(names):
                field = ("pubkey",) + tuple(names)
                lo, hi = prev, o[name]            # field[fi] occupies share[lo:hi]
                for c in (lo, lo + 1, hi - 1, rng.randint(lo, max(lo, hi - 1))):
                    if lo <= c < hi and c < len(share):
                        cuts.setdefault(c, field[fi])
                prev = hi
            cuts.setdefault(ml.HEADER_LENGTH - 1, "header")
            cuts.setdefault(0, "header")

            def classify(op, v_, m_, d_):
                return ("violation", "sdmf-share-%s-accepted" % op,
                        "a share whose header announces %d bytes was cut to %d bytes and unpack_share returned fields "
                        "instead of raising NeedMoreDataError; enc_privkey came back as %d bytes instead of %d"
                        % (len(share), len(m_), len(d_[-1]), len(v_[-1])))
            for c, where in sorted(cuts.items()):
                judge("sdmf-share", "truncated-inside-%s" % where, v, share[:c], ml.unpack_share, encode, classify)
                ck.case("sdmf-share-truncation", key=(share, c), nontrivial=True)

    sections = [("base32", b32_section), ("base62", b62_section), ("netstring", netstring_section),
                ("ueb", ueb_section), ("lease", lease_section), ("container", container_section),
                ("sdmf-share", sdmf_share_section)]
    for name, fn in sections:
        try:
            fn()
        except Exception:  # noqa
            import traceback
            ck.inconclusive_because("harness exception in section %s: %s" % (name, traceback.format_exc()[-1200:]))
    ck.require_monitor("roundtrip-oracle", "mutation-oracle", "enumeration-oracle", "range-oracle", "netstring-position-oracle")
    ck.require_reach("base32-roundtrip", "base62-roundtrip", "netstring-roundtrip", "ueb-roundtrip",
                     "lease-roundtrip:immutable-v1", "lease-roundtrip:immutable-v2",
                     "lease-roundtrip:mutable-v1", "lease-roundtrip:mutable-v2",
                     "immutable-container-roundtrip-v1", "immutable-container-roundtrip-v2",
                     "mutable-container-roundtrip-v1", "mutable-container-roundtrip-v2",
                     "rejects:base32", "rejects:netstring", "rejects:ueb", "rejects:immutable-header",
                     "rejects:mutable-header", "lease-out-of-range-refused", "mutable-container-with-extra-leases",
                     "mutation:mutable-header:data-length-capacity-plus-le-468",
                     "exhaustive-insertion:ueb:length", "exhaustive-insertion:ueb:integer-value",
                     "exhaustive-insertion:netstring:length",
                     "sdmf-share-roundtrip", "rejects:sdmf-share", "mutation:sdmf-share:truncated-inside-enc_privkey")
    ck.exhaustive = False
    ck.assumptions.append("a decoded value that re-encodes to the mutated bytes is a legitimate reading of those bytes")
    ck.assumptions.append("python is not run with -O: several decoders reject malformed input with assert (counted as observations)")


# MUST_CATCH (scratch copies under /var/tmp, VF_REPO=..., quick tier; "caught" = a violation key that the
# unchanged tree does not produce)
#  1. util/netstring.netstring: length written as len(s) % 1000                    -> caught (netstring-encoding-differs)
#  2. util/netstring.split_netstring: the `assert data[position] == b","` removed  -> MISSED by design: every such
#     input still decodes to the encoded value, which DESIGN §5 C38 counts as a lenient accept, not a violation
#  3. util/base32.a2b: precondition(could_be_base32_encoded) removed               -> caught (base32-misread:nonalphabet-char, base32-accepts-noncanonical)
#  4. storage/lease.to_immutable_data: expiry & 0x7fffffff                         -> caught (lease-roundtrip-mismatch, lease-layout-differs, ...)
#  5. uri.unpack_extension: 'num_segments' dropped from the integer keys           -> caught (ueb-roundtrip-mismatch, ueb-misread:*)
#  6. storage/immutable_schema.schema_from_version: unknown version -> newest      -> caught (immutable-header-misread:unknown-version-3 ...)
#  7. storage/lease_schema v2: cancel secret stored in clear                       -> caught (lease-layout-differs, *-container-roundtrip-mismatch)
#  8. storage/lease.to_mutable_data: owner_num & 0xffffffff                        -> caught (lease-field-out-of-range-wraps)
#  9. uri.unpack_extension: length field parsed leniently into ANOTHER number (b"x" read as "1")   -> caught only by the
#     exhaustive byte-insertion generator (ueb-misread:insert-byte-after-length)
# 10. seeded/C38-2 (length check `^NUMBER$` lets "<digits>\n" through; int(b"32\n") == 32)     -> NOT caught, by design:
#     the mangled block is read as the SAME value, which the statement ("rejected rather than silently read as a
#     different value") and DESIGN §5 C38 leave open.  The generator reaches it and records it:
#     dont_care lenient-accept-same-value:ueb:length:after, observation tolerated-byte:ueb:length:after:0x0a
# 11. seeded/C38-4 and twins in selftest/breaks_c38.py (terminator test `data[position:position+1] in b","` / bounds guard:
#     a buffer whose LAST netstring lost its comma is accepted)                                     -> caught
#     (netstring-position-past-end-of-data: split_netstring without required_trailer returns a position > len(data);
#     also in the dirnode-shaped nested layout, damaged inner and damaged outer)
# 12. seeded/C38-5 and twin in selftest/breaks_c38.py (MutableShareFile._read_share_data bound check without DATA_OFFSET:
#     data-size field = capacity + 1..468 accepted, readv returns data + extra-lease block)            -> caught
#     (mutable-data-length-beyond-container-reads-lease-area; data-size set to capacity + d for d around 468, containers
#     with up to 9 leases so that lease records lie behind the data)
# 13. seeded/C38-9 (mutable/layout.unpack_share completeness check against o['enc_privkey'] instead of o['EOF']: an SDMF
#     share cut inside its last field is sliced into a shorter enc_privkey instead of NeedMoreDataError)   -> caught
#     (sdmf-share-truncated-inside-enc_privkey-accepted; cut points at both ends of and inside every field)
