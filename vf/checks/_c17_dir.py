"""C17 helper: directory child-cap keys decided at the stored-bytes boundary.

Directories are created on an in-process grid of real storage servers through every creation path
(create_dirnode with and without initial_children, create_subdirectory(initial_children=...),
set_node / set_uri / set_children / set_nodes afterwards, a re-pack after creation; SDMF and MDMF).
The plaintext of the directory's backing mutable file is then downloaded through a *fresh* client from the
directory cap string, split into netstrings here, and every rwcapdata field is opened with a key derived
here with hashlib only:

    key = SHA256d(netstring(TAG) + netstring(salt) + netstring(directory WRITE key))[:16]     (AES-128-CTR)

(docs/specifications/dirnodes.rst: "Each rwcap is stored as IV + ciphertext + MAC ... using a key that is
formed from a tagged hash of the IV and the dirnode's writekey"; tag string from the hashutil.py table).
The plaintext must be the child's write cap (empty for children linked without write authority).
"""
import base64

from vf.models import tagged_pair_hash

# re-typed from the hashutil.py tag table, not imported
CHILD_CAPKEY_TAG = b"allmydata_mutable_writekey_and_salt_to_dirnode_child_capkey_v1"


def _unb32(s):
    s = s.decode("ascii").upper()
    return base64.b32decode(s + "=" * (-len(s) % 8))


def dir_writekey(dircap):
    """16-byte write key out of 'URI:DIR2:<writekey>:<fingerprint>' / 'URI:DIR2-MDMF:...' (uri.rst, mutable.rst)."""
    parts = dircap.split(b":")
    if parts[0] != b"URI" or parts[1] not in (b"DIR2", b"DIR2-MDMF"):
        raise ValueError("not a mutable directory write cap: %r" % dircap[:20])
    wk = _unb32(parts[2])
    if len(wk) != 16:
        raise ValueError("writekey is not 16 bytes")
    return wk


def dir_file_cap(dircap):
    """the cap of the mutable file behind a directory write cap: DIR2 -> SSK, DIR2-MDMF -> MDMF."""
    parts = dircap.split(b":")
    kind = {b"DIR2": b"SSK", b"DIR2-MDMF": b"MDMF"}[parts[1]]
    return b":".join([b"URI", kind] + parts[2:])


def _netstrings(data, want=None):
    out = []
    pos = 0
    while pos < len(data):
        colon = data.index(b":", pos)
        num = data[pos:colon]
        if not num.isdigit():
            raise ValueError("bad netstring length %r" % num)
        n = int(num)
        body = data[colon + 1:colon + 1 + n]
        if len(body) != n or data[colon + 1 + n:colon + 2 + n] != b",":
            raise ValueError("truncated netstring")
        out.append(body)
        pos = colon + 2 + n
    if want is not None and len(out) != want:
        raise ValueError("expected %d netstrings, found %d" % (want, len(out)))
    return out


def parse_directory(plaintext):
    """{name(utf-8 bytes): (rocap, rwcapdata)} from the stored directory bytes (dirnodes.rst: 'a serialized list of
    netstrings, one per child. Each child is a list of four netstrings: (name, rocap, rwcap, metadata)')."""
    entries = {}
    for child in _netstrings(plaintext):
        name, rocap, rwcapdata, _metadata = _netstrings(child, 4)
        entries[name] = (rocap, rwcapdata)
    return entries


def open_rwcap(rwcapdata, keymaterial):
    from cryptography.hazmat.primitives.ciphers import Cipher, algorithms, modes
    if len(rwcapdata) < 48:
        raise ValueError("rwcapdata shorter than IV + MAC")
    salt, ct = rwcapdata[:16], rwcapdata[16:-32]
    key = tagged_pair_hash(CHILD_CAPKEY_TAG, salt, keymaterial, 16)
    dec = Cipher(algorithms.AES(key), modes.CTR(b"\x00" * 16)).decryptor()
    return dec.update(ct) + dec.finalize()


def dir_workload(ck):
    from vf.grid import VGrid, KEYPOOL
    from allmydata.immutable.upload import Data
    from allmydata.mutable.publish import MutableData
    from allmydata.interfaces import SDMF_VERSION, MDMF_VERSION

    rng = ck.rng("dirs")
    ncases = 6 if ck.tier == "quick" else 30
    for case in range(ncases):
        if not ck.mine(case):
            continue
        if ck.out_of_time() and case >= 2:
            break
        KEYPOOL.rewind()
        g = VGrid(nservers=3, seed=rng.getrandbits(32), keep_log=False)
        try:
            c = g.make_client(k=1, happy=1, n=rng.choice([1, 3]), mutable_format=rng.choice([None, "SDMF", "MDMF"]))
            reader = g.make_client(k=1, happy=1, n=3)

            def ok(d, what):
                st, res = g.wait(d)
                if st != "ok":
                    raise RuntimeError("%s: %s %s" % (what, st, getattr(res, "value", res)))
                return res

            def children(tag):
                """name -> (node, expected write cap as stored): a mutable file, a directory and an immutable file."""
                out = {}
                fver = rng.choice([SDMF_VERSION, MDMF_VERSION])
                mf = ok(c.create_mutable_file(MutableData(b"m-" + tag + rng.randbytes(rng.randint(0, 80))), version=fver), "create mutable file")
                out["file-" + tag.decode() + ("-mdmf" if fver == MDMF_VERSION else "-sdmf")] = mf
                sub = ok(c.create_dirnode(version=rng.choice([SDMF_VERSION, MDMF_VERSION])), "create child dir")
                out["dir-" + tag.decode()] = sub
                res = ok(c.upload(Data(b"immutable-" + tag + rng.randbytes(rng.randint(60, 200)), convergence=b"")), "upload")
                out["chk-" + tag.decode() + "-é"] = c.create_node_from_uri(res.get_uri())
                return out

            def judge(dirnode, expected, path):
                """expected: name -> child node linked with its full authority."""
                dircap = dirnode.get_write_uri()
                ck.mon("dir-child-capkey-oracle")
                ck.hit("dir-path:" + path)
                ck.hit("dir-format:" + ("mdmf" if dircap.startswith(b"URI:DIR2-MDMF:") else "sdmf"))
                wit = {"path": path, "dircap_kind": dircap.split(b":")[1]}
                try:
                    wk = dir_writekey(dircap)
                    fnode = reader.create_node_from_uri(dir_file_cap(dircap))
                    plaintext = ok(fnode.download_best_version(), "download directory bytes")
                    entries = parse_directory(plaintext)
                except Exception as e:  # noqa
                    ck.violation("dir-stored-bytes-unreadable:" + path, "the stored directory could not be fetched/"
                                 "split into (name, rocap, rwcap, metadata) netstrings: %s: %s" % (type(e).__name__, e), wit)
                    return
                if set(entries) != set(n.encode("utf-8") for n in expected):
                    ck.violation("dir-stored-children-differ:" + path, "stored child names %r, linked %r"
                                 % (sorted(entries), sorted(expected)), wit)
                    return
                for name, child in sorted(expected.items()):
                    rocap, blob = entries[name.encode("utf-8")]
                    want = child.get_write_uri() or b""
                    try:
                        got = open_rwcap(blob, wk)
                    except Exception as e:  # noqa
                        got = "unopenable: %s" % e
                    ck.mon("dir-child-capkey-oracle")
                    if want:
                        ck.hit("dir-writeable-child-opened")
                    if got != want:
                        ck.violation("dir-child-capkey-not-from-writekey:" + path,
                                     "a child's rwcap slot in the stored directory does not open to the child's write cap "
                                     "under the specified key SHA256d-pair(tag, salt, directory WRITE key)[:16] "
                                     "(statement: 'directory child-cap keys ... are computed exactly as the specification "
                                     "describes'; dirnodes.rst: 'a key that is formed from a tagged hash of the IV and the "
                                     "dirnode's writekey')",
                                     dict(wit, child=name, want=want, got=got if isinstance(got, str) else got[:80],
                                          opens_with_readkey=_opens_with_readkey(blob, dircap, want)))
                    if rocap != (child.get_readonly_uri() or b""):
                        ck.observe("dir-stored-rocap-differs")
                ck.case("dir:" + path, key=(case, path, dircap), nontrivial=any(ch.get_write_uri() for ch in expected.values()),
                        sample={"path": path, "children": sorted(expected), "dircap_kind": wit["dircap_kind"]})

            def judge_immutable(dirnode, expected, path):
                from allmydata.util.consumer import download_to_data
                cap = dirnode.get_readonly_uri()
                ck.mon("dir-child-capkey-oracle")
                ck.hit("dir-path:" + path)
                wit = {"path": path, "dircap_kind": cap.split(b":")[1]}
                try:
                    kind = cap.split(b":")[1]
                    filecap = b":".join([b"URI", {b"DIR2-CHK": b"CHK", b"DIR2-LIT": b"LIT"}[kind]] + cap.split(b":")[2:])
                    plaintext = ok(download_to_data(reader.create_node_from_uri(filecap)), "download immutable directory bytes")
                    entries = parse_directory(plaintext)
                except Exception as e:  # noqa
                    ck.violation("dir-stored-bytes-unreadable:" + path, "the stored immutable directory could not be "
                                 "fetched/split: %s: %s" % (type(e).__name__, e), wit)
                    return
                if set(entries) != set(n.encode("utf-8") for n in expected):
                    ck.violation("dir-stored-children-differ:" + path, "stored child names %r, linked %r"
                                 % (sorted(entries), sorted(expected)), wit)
                    return
                for name in sorted(expected):
                    _rocap, blob = entries[name.encode("utf-8")]
                    ck.mon("dir-child-capkey-oracle")
                    if blob != b"":
                        ck.violation("dir-immutable-has-rwcap-slot:" + path,
                                     "an immutable directory has no write key, yet the stored entry carries a %d-byte rwcap "
                                     "slot (encrypted under some other directory's key); statement: 'directory child-cap "
                                     "keys ... are computed exactly as the specification describes'" % len(blob),
                                     dict(wit, child=name, slot=blob[:80]))
                ck.case("dir:" + path, key=(case, path, cap), nontrivial=True, sample={"path": path, "children": sorted(expected)})

            for version, vname in ((SDMF_VERSION, "sdmf"), (MDMF_VERSION, "mdmf")):
                # A. empty directory, children linked afterwards (every linking call)
                ch = children(b"a" + vname.encode())
                d1 = ok(c.create_dirnode(version=version), "create_dirnode")
                names = sorted(ch)
                ok(d1.set_node(names[0], ch[names[0]]), "set_node")
                judge(d1, {names[0]: ch[names[0]]}, "create_dirnode+set_node")
                n1 = ch[names[1]]
                ok(d1.set_uri(names[1], n1.get_write_uri(), n1.get_readonly_uri()), "set_uri")
                judge(d1, {k: ch[k] for k in names[:2]}, "set_uri")
                n2 = ch[names[2]]
                ok(d1.set_children({names[2]: (n2.get_write_uri(), n2.get_readonly_uri())}), "set_children")
                judge(d1, ch, "set_children")
                ch2 = children(b"b" + vname.encode())
                ok(d1.set_nodes({k: (v, None) for k, v in ch2.items()}), "set_nodes")
                both = dict(ch); both.update(ch2)
                judge(d1, both, "set_nodes")
                # B. create_dirnode(initial_children=...)
                ch_b = children(b"c" + vname.encode())
                d2 = ok(c.create_dirnode({k: (v, {}) for k, v in ch_b.items()}, version=version), "create_dirnode(initial)")
                judge(d2, ch_b, "create_dirnode(initial_children)")
                # C. create_subdirectory(name, initial_children=...)
                ch_c = children(b"d" + vname.encode())
                d3 = ok(d1.create_subdirectory("sub-" + vname, initial_children={k: (v, {}) for k, v in ch_c.items()},
                                               mutable_version=version), "create_subdirectory(initial)")
                judge(d3, ch_c, "create_subdirectory(initial_children)")
                both["sub-" + vname] = d3
                judge(d1, both, "parent-after-create_subdirectory")
                # D. a later modification re-packs every entry of a directory that was born with children
                late = ok(c.create_mutable_file(MutableData(b"late")), "create late child")
                ok(d2.set_node("late", late), "set_node on a directory with initial children")
                after = dict(ch_b); after["late"] = late
                judge(d2, after, "repack-after-initial_children")
                # E. "clone": the listing of directory A (what DirectoryNode.list() returns, an AuxValueDict that carries
                #    A's pre-packed entries) handed to every creation/linking call of ANOTHER directory.  Each slot of the
                #    new directory must open under the NEW directory's write key.
                def listing_of(dn):
                    lst = ok(dn.list(), "list")
                    return lst, {name: node for name, (node, _md) in lst.items()}
                lst, exp = listing_of(d1)
                d4 = ok(c.create_dirnode(lst, version=version), "create_dirnode(A.list())")
                judge(d4, exp, "clone:create_dirnode(A.list())")
                lst, exp = listing_of(d2)
                d5 = ok(d3.create_subdirectory("clone-" + vname, initial_children=lst, mutable_version=version),
                        "create_subdirectory(A.list())")
                judge(d5, exp, "clone:create_subdirectory(A.list())")
                lst, exp = listing_of(d3)
                d6 = ok(c.create_dirnode(version=version), "create_dirnode")
                ok(d6.set_nodes(lst), "set_nodes(A.list())")
                judge(d6, exp, "clone:set_nodes(A.list())")
                lst, exp = listing_of(d1)
                d7 = ok(c.create_dirnode(version=version), "create_dirnode")
                ok(d7.set_children({name: (node.get_write_uri(), node.get_readonly_uri(), md)
                                    for name, (node, md) in lst.items()}), "set_children(A.list()-derived)")
                judge(d7, exp, "clone:set_children(A.list()-derived)")
                # F. immutable clone: a mutable directory that holds only immutable children, its listing handed to
                #    create_immutable_dirnode.  An immutable directory has no write key: every rwcap slot must be empty.
                src = ok(c.create_dirnode(version=version), "create_dirnode")
                imm_children = {}
                for t in (b"x", b"y"):
                    res = ok(c.upload(Data(b"imm-" + t + vname.encode() + rng.randbytes(rng.randint(60, 150)), convergence=b"")), "upload")
                    imm_children["imm-" + t.decode()] = c.create_node_from_uri(res.get_uri())
                ok(src.set_nodes({k: (v, None) for k, v in imm_children.items()}), "set_nodes(immutable children)")
                lst, exp = listing_of(src)
                idir = ok(c.create_immutable_dirnode(lst), "create_immutable_dirnode(A.list())")
                judge_immutable(idir, exp, "clone:create_immutable_dirnode(A.list())")
        except RuntimeError as e:
            ck.inconclusive_because("directory workload operation did not succeed on an honest grid (case %d): %s" % (case, e))
        finally:
            g.close()


def _opens_with_readkey(blob, dircap, want):
    """diagnostic only: does the slot open under the directory's READ key (writekey -> readkey hash)?"""
    try:
        from vf.models import tagged_hash
        rk = tagged_hash(b"allmydata_mutable_writekey_to_readkey_v1", dir_writekey(dircap), 16)
        return bool(want) and open_rwcap(blob, rk) == want
    except Exception:  # noqa
        return None
