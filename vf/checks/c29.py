"""C29 share containers survive a server crash (SIGKILL at every file-system operation, then restart)."""
META = {
    "level": "fault_enumeration",
    "technique": "syscall-granular crash-point enumeration (vf.fsx) of the real StorageServer on real directories: the operation is re-executed once per crash index, a fresh StorageServer is built on the surviving directory and the statement's invariants are evaluated through the server API; in-process crash model cross-checked against strace (syscall trace equality per workload, real SIGKILL at the N-th system call for sampled crash points)",
    "text": "Seeded workloads on a real allmydata.storage.server.StorageServer next to bystander shares (immutable and mutable, sharing prefix directories with the target): immutable upload (new storage index / next to existing shares, batched and unbatched writes, interleaved closes, a second upload still in progress), add_lease / renew_lease on immutable shares with 1..10 and mutable shares with 0..10 leases (renewals at a later clock time, of the first / a middle / the last record and of mutable leases number 5+ whose records live behind the share data), mutable create, in-place write, grow (extra-lease relocation, zero fill), truncate, delete, multi-share writev, and the lease expirer (real LeaseCheckingCrawler.start_slice, cutoff-date mode) cancelling leases and deleting shares.  For EVERY operation index n of the workload (every completed write(2)/ftruncate/rename/unlink/mkdir/rmdir/creat, as decided by CPython's real buffering over a counting FileIO) the process is 'killed' before operation n, a fresh StorageServer is constructed on the directory and: (1) every share the operation does not target has identical data (full read through get_buckets/slot_readv, same length) and identical lease list, (2) after a lease-only operation every share's data is identical, (3) every immutable share present equals the model (complete) -- else it must be absent, (4) incoming/ is empty and the interrupted upload can be repeated.  Damage to the leases/data of the share being written is counted as observation only (the statement exempts it).  Every workload is first run to completion without a crash and judged by the same invariants, and every uncrashed set-up operation (the add_lease calls that give shares their 0..10 leases, the uploads and writes that create the bystanders) is judged as well: a lease-only operation changes no share's data and drops no lease, no operation changes a share it does not name; an exception of the code under test during set-up is reported through those findings, and makes the workload inconclusive only when nothing was found.",
    "note": "Crash model: SIGKILL (kernel keeps completed system calls, user-space buffers are lost); no power loss, no torn single write(2).  Trusts vf.fsx (validated against strace in the same run: a mismatch makes the run inconclusive) and the virtual clock substituted for time.time in storage.lease/crawler/expirer.",
}
LEVEL = "fault_enumeration"
BUDGET = {"quick": 38, "thorough": 240}
SHARDS = {"quick": 1, "thorough": 8}

from vf import env  # noqa  MUST be first
import json
import os
import shutil
import sys
import tempfile

NODEID = b"\x29" * 20
HUGE = 1 << 40
# scratch directories (always vf-*, always removed): tmpfs when there is one -- rmdir on the root file system
# costs 2 ms here, and every crash point makes a dozen of them
FAST_TMP = "/dev/shm" if (os.path.isdir("/dev/shm") and os.access("/dev/shm", os.W_OK)) else None


# ---------------------------------------------------------------- op language
# (shared by the in-process enumeration and by the forked children of fsx.KillServer)

def H(b):
    return b.hex()


def U(s):
    return bytes.fromhex(s)


def make_ss(storedir, kw=None):
    from allmydata.storage.server import StorageServer
    from vf.checks import _storage
    _storage.install_virtual_time()
    kw = dict(kw or {})
    if "expiration_sharetypes" in kw:
        kw["expiration_sharetypes"] = tuple(kw["expiration_sharetypes"])
    return StorageServer(storedir, NODEID, clock=env.reactor, **kw)


def set_clock(t):
    """Virtual time := t (also backwards: every workload is replayed at the instant it was generated for,
    so that lease expiry times are reproducible).  No timer may be pending."""
    from vf.checks import _storage
    _storage.cancel_timers()
    env.reactor.rightNow = t


def apply_op(ss, op):
    k = op["op"]
    if k == "advance":
        env.reactor.advance(op["dt"])
    elif k == "upload":
        _got, bws = ss.allocate_buckets(U(op["si"]), U(op["renew"]), U(op["cancel"]),
                                        set(op["shnums"]), op["size"])
        for (sh, off, data) in op["writes"]:
            if sh in bws:
                bws[sh].write(off, U(data))
        for sh in op["close"]:
            if sh in bws:
                bws[sh].close()
    elif k == "add_lease":
        ss.add_lease(U(op["si"]), U(op["renew"]), U(op["cancel"]))
    elif k == "renew_lease":
        ss.renew_lease(U(op["si"]), U(op["renew"]))
    elif k == "writev":
        tw = {}
        for (sh, testv, datav, newlen) in op["tw"]:
            tw[sh] = ([(o, l, b"eq", U(s)) for (o, l, s) in testv], [(o, U(d)) for (o, d) in datav], newlen)
        ss.slot_testv_and_readv_and_writev(U(op["si"]), tuple(U(x) for x in op["secrets"]), tw, [],
                                           renew_leases=op.get("renew_leases", True))
    elif k == "expire":
        ss.lease_checker.start_slice()
    else:
        raise ValueError(k)


def child_job(job, fx):
    """Runs in a forked child of fsx.KillServer (under strace)."""
    env.reactor.advance(max(0.0, job["now"] - env.reactor.seconds()))
    with fx:
        ss = make_ss(job["root"], job.get("ss_kw"))
        for op in job.get("prelude", []):
            apply_op(ss, op)
        fx.begin_op()
        apply_op(ss, job["op"])
        fx.end_op()


# ------------------------------------------------------------------ observing

def read_share(ss, si, shnum, path):
    """data/length through the StorageServer API, leases through the repo's share-file API.
    `error` = the DATA cannot be read; `lease_error` = the lease list cannot be read."""
    from allmydata.storage.shares import get_share_file
    rec = {"type": None, "data": None, "length": None, "leases": None, "error": None, "lease_error": None}
    sf = None
    try:
        sf = get_share_file(path)
        rec["type"] = sf.sharetype
        if sf.sharetype == "immutable":
            rec["data"] = ss.get_buckets(si)[shnum].read(0, HUGE)
            rec["length"] = ss.get_immutable_share_length(si, shnum)
        else:
            rec["data"] = ss.slot_readv(si, [shnum], [(0, HUGE)])[shnum][0]
            rec["length"] = ss.get_mutable_share_length(si, shnum)
    except Exception as e:
        rec["error"] = "%s: %s" % (type(e).__name__, str(e)[:160])
    if sf is not None:
        try:
            if sf.sharetype == "immutable":
                rec["leases"] = [l.to_immutable_data() for l in sf.get_leases()]
            else:
                rec["leases"] = [l.to_mutable_data() for l in sf.get_leases()]
        except Exception as e:
            rec["lease_error"] = "%s: %s" % (type(e).__name__, str(e)[:160])
    return rec


def snapshot(ss):
    """{(si_hex, shnum): record} of every share below shares/ (not incoming/), through the server API."""
    from allmydata.storage.common import si_a2b
    out = {}
    for prefix in sorted(os.listdir(ss.sharedir)):
        pdir = os.path.join(ss.sharedir, prefix)
        if prefix == "incoming" or not os.path.isdir(pdir):
            continue
        for sidir in sorted(os.listdir(pdir)):
            try:
                si = si_a2b(sidir.encode("ascii"))
            except Exception:
                continue
            bdir = os.path.join(pdir, sidir)
            if not os.path.isdir(bdir):
                continue
            for fn in sorted(os.listdir(bdir)):
                if fn.isdigit():
                    out[(H(si), int(fn))] = read_share(ss, si, int(fn), os.path.join(bdir, fn))
    return out


def raw_tree(path):
    from vf.checks._storage import snapshot_dir
    return snapshot_dir(path)


# ------------------------------------------------------------------ scenarios

class Scenario(object):
    """template directory + (prelude, op) + what the op targets + the immutable model."""

    def __init__(self, name, rng):
        self.name = name
        self.rng = rng
        self.tmp = tempfile.mkdtemp(prefix="vf-c29-", dir=FAST_TMP)
        self.template = os.path.join(self.tmp, "template")
        self.setup_ops = []
        self.prelude = []
        self.op = None
        self.ss_kw = {}
        self.write_targets = set()     # (si_hex, shnum) whose data the op writes
        self.lease_targets = set()     # (si_hex, shnum) whose leases the op may touch
        self.lease_only = False
        self.new_immutable = {}        # (si_hex, shnum) -> full data of shares the op uploads
        self.may_vanish = set()        # shares the op may legitimately delete
        self.params = {}
        self.now = None

    def close(self):
        shutil.rmtree(self.tmp, ignore_errors=True)

    def build(self, cutoff_marker=None):
        """Run the set-up operations (no crash) on the template.  Every one of them is judged too: an
        operation that only adds/renews leases must leave every share's data alone, any operation must leave the
        shares of other storage indexes (and the shares it does not name) alone.  -> cut-off time (expire)"""
        from vf.checks import _storage
        self.setup_findings = []
        self.setup_lease_ops = 0
        ss = make_ss(self.template)
        cutoff = None
        prev = snapshot(ss)
        try:
            for i, op in enumerate(self.setup_ops):
                if i == cutoff_marker:
                    cutoff = int(env.reactor.seconds())
                if op["op"] == "advance":
                    apply_op(ss, op)
                    continue
                err = None
                try:
                    apply_op(ss, op)
                except Exception as e:          # raised by the code under test
                    err = e
                cur = snapshot(ss)
                if op["op"] in ("add_lease", "renew_lease"):
                    self.setup_lease_ops += 1
                self.setup_findings += judge_uncrashed(op, prev, cur, "set-up of " + self.name)
                prev = cur
                if err is not None:
                    raise SetupFailed(err, op, self.setup_findings)
        finally:
            _storage.cancel_timers()
        # an upload left open by the set-up belongs to a previous process: its incoming files go away
        shutil.rmtree(os.path.join(self.template, "shares", "incoming"), ignore_errors=True)
        self.now = env.reactor.seconds()
        return cutoff

    def describe(self):
        return {"scenario": self.name, "params": self.params, "op": _short(self.op),
                "prelude": [_short(o) for o in self.prelude]}


def _short(op):
    if op is None:
        return None
    out = {}
    for k, v in op.items():
        if k == "writes":
            out[k] = [(sh, off, len(d) // 2) for (sh, off, d) in v][:12]
        elif k == "tw":
            out[k] = [(sh, len(t), [(o, len(d) // 2) for (o, d) in dv], nl) for (sh, t, dv, nl) in v]
        elif isinstance(v, str) and len(v) > 24:
            out[k] = v[:16] + ".."
        elif k == "secrets":
            out[k] = [x[:8] for x in v]
        else:
            out[k] = v
    return out


def rb(rng, n):
    return bytes(rng.getrandbits(8) for _ in range(n)) if n < 4096 else rng.randbytes(n)


def secret(rng):
    return H(rb(rng, 32))


def si_with_prefix(rng, prefix):
    return prefix + rb(rng, 14)


def up_op(rng, si, shnums, size, batched, renew=None, cancel=None, close=None, interleave=False):
    """allocate + write everything + close; data per share random."""
    datas = {sh: rb(rng, size) for sh in shnums}
    writes = []
    per = {}
    for sh in shnums:
        if batched:
            chunks = [(0, size)]
        else:
            cuts = sorted(set([0, size] + [rng.randrange(size + 1) for _ in range(rng.randint(1, 4))]))
            chunks = [(a, b - a) for a, b in zip(cuts, cuts[1:]) if b > a]
            if rng.random() < .5:
                rng.shuffle(chunks)       # out-of-order writes are allowed by the API
        per[sh] = [(sh, off, H(datas[sh][off:off + ln])) for (off, ln) in chunks]
    if interleave:
        pending = [list(v) for v in per.values()]
        while any(pending):
            lst = rng.choice([p for p in pending if p])
            writes.append(lst.pop(0))
    else:
        for sh in shnums:
            writes += per[sh]
    op = {"op": "upload", "si": H(si), "renew": renew or secret(rng), "cancel": cancel or secret(rng),
          "shnums": list(shnums), "size": size, "writes": writes,
          "close": list(shnums) if close is None else list(close)}
    return op, datas


SIZES = [1, 2, 71, 72, 73, 100, 143, 144, 1000, 4095, 4096, 4097, 8192, 9000]


def bystanders(sc, rng, prefix):
    """An immutable SI (2 shares, 2 leases) and a mutable SI (1 share, 6 leases) in the same prefix dir."""
    isi = si_with_prefix(rng, prefix)
    op, _d = up_op(rng, isi, [0, 3], rng.choice([5, 100, 300]), True)
    sc.setup_ops.append(op)
    sc.setup_ops.append({"op": "advance", "dt": 100})
    sc.setup_ops.append({"op": "add_lease", "si": H(isi), "renew": secret(rng), "cancel": secret(rng)})
    msi = si_with_prefix(rng, prefix)
    secs = [secret(rng), secret(rng), secret(rng)]
    sc.setup_ops.append({"op": "writev", "si": H(msi), "secrets": secs,
                         "tw": [(1, [], [(0, H(rb(rng, rng.choice([10, 500]))))], None)]})
    for _ in range(5):
        sc.setup_ops.append({"op": "add_lease", "si": H(msi), "renew": secret(rng), "cancel": secret(rng)})


def mutable_share_setup(sc, rng, si, shnum, secs, size, nleases):
    """Create mutable share with `nleases` leases (0..10) holding `size` bytes."""
    sc.setup_ops.append({"op": "writev", "si": H(si), "secrets": secs, "renew_leases": nleases > 0,
                         "tw": [(shnum, [], [(0, H(rb(rng, size)))], None)]})
    for _ in range(max(0, nleases - 1)):
        sc.setup_ops.append({"op": "advance", "dt": rng.choice([0, 10])})
        sc.setup_ops.append({"op": "add_lease", "si": H(si), "renew": secret(rng), "cancel": secret(rng)})


def immutable_share_setup(sc, rng, si, shnums, size, nleases):
    r, c = secret(rng), secret(rng)
    op, datas = up_op(rng, si, shnums, size, True, renew=r, cancel=c)
    sc.setup_ops.append(op)
    extra = []
    for _ in range(nleases - 1):
        sc.setup_ops.append({"op": "advance", "dt": rng.choice([0, 10])})
        r2, c2 = secret(rng), secret(rng)
        extra.append(r2)
        sc.setup_ops.append({"op": "add_lease", "si": H(si), "renew": r2, "cancel": c2})
    return r, extra, datas


SCENARIOS = ["upload-new", "upload-next-to-existing", "upload-while-other-in-progress",
             "imm-add-lease", "imm-renew", "mut-add-lease", "mut-renew", "mut-renew-extra-slot",
             "mut-create", "mut-write-inplace", "mut-grow", "mut-grow-extra-leases", "mut-truncate", "mut-delete",
             "mut-multi-share", "expire"]


def make_scenario(name, rng):
    sc = Scenario(name, rng)
    try:
        return _make_scenario(sc, name, rng)
    except BaseException:
        sc.close()
        raise


def _make_scenario(sc, name, rng):
    prefix = rb(rng, 2)
    bystanders(sc, rng, prefix)
    p = sc.params
    if name in ("upload-new", "upload-while-other-in-progress"):
        si = si_with_prefix(rng, prefix if rng.random() < .7 else rb(rng, 2))
        shnums = sorted(rng.sample(range(6), rng.randint(1, 3)))
        p.update(size=rng.choice(SIZES), batched=rng.random() < .4, shnums=shnums, interleave=rng.random() < .5)
        sc.op, datas = up_op(rng, si, shnums, p["size"], p["batched"], interleave=p["interleave"])
        if rng.random() < .3 and len(shnums) > 1:
            sc.op["close"] = shnums[:-1]             # the client never closes the last one
            p["unclosed"] = shnums[-1]
        for sh in shnums:
            sc.write_targets.add((H(si), sh))
            sc.new_immutable[(H(si), sh)] = datas[sh]
        if name == "upload-while-other-in-progress":
            osi = si_with_prefix(rng, prefix)
            oop, _d = up_op(rng, osi, [0, 1], 200, False, close=[])
            oop["writes"] = oop["writes"][:1]
            sc.prelude.append(oop)
    elif name == "upload-next-to-existing":
        si = si_with_prefix(rng, prefix)
        have = sorted(rng.sample(range(4), rng.randint(1, 2)))
        p.update(size=rng.choice(SIZES), nleases=rng.randint(1, 10), have=have, same_secret=rng.random() < .3,
                 batched=rng.random() < .5)
        r, _extra, _datas = immutable_share_setup(sc, rng, si, have, p["size"], p["nleases"])
        sc.setup_ops.append({"op": "advance", "dt": 1000})
        new = sorted(set(rng.sample(range(4, 8), rng.randint(1, 2))))
        asked = sorted(set(new) | set(have[:1]))
        sc.op, datas = up_op(rng, si, asked, p["size"], p["batched"], renew=r if p["same_secret"] else None)
        for sh in new:
            sc.write_targets.add((H(si), sh))
            sc.new_immutable[(H(si), sh)] = datas[sh]
        for sh in have:
            sc.lease_targets.add((H(si), sh))
    elif name in ("imm-add-lease", "imm-renew"):
        si = si_with_prefix(rng, prefix)
        shnums = sorted(rng.sample(range(5), rng.randint(1, 3)))
        p.update(size=rng.choice(SIZES), nleases=rng.randint(1, 10), shnums=shnums)
        r, extra, _d = immutable_share_setup(sc, rng, si, shnums, p["size"], p["nleases"])
        sc.setup_ops.append({"op": "advance", "dt": 5000})
        sc.lease_only = True
        for sh in shnums:
            sc.lease_targets.add((H(si), sh))
        if name == "imm-add-lease":
            sc.op = {"op": "add_lease", "si": H(si), "renew": secret(rng), "cancel": secret(rng)}
        else:
            which = rng.choice([r] + extra) if rng.random() < .5 else ([r] + extra)[-1]   # first/middle/last record
            p["which"] = ([r] + extra).index(which)
            p["via"] = rng.choice(["renew_lease", "add_lease"])
            if p["via"] == "renew_lease":
                sc.op = {"op": "renew_lease", "si": H(si), "renew": which}
            else:
                sc.op = {"op": "add_lease", "si": H(si), "renew": which, "cancel": secret(rng)}
    elif name in ("mut-add-lease", "mut-renew", "mut-renew-extra-slot"):
        si = si_with_prefix(rng, prefix)
        secs = [secret(rng), secret(rng), secret(rng)]
        shnums = sorted(rng.sample(range(4), rng.randint(1, 2)))
        # lease-slot boundaries: 4 slots in the header, then the extra-lease block
        p.update(size=rng.choice([0, 1, 100, 2000]),
                 nleases=rng.choice([0, 1, 2, 3, 3, 4, 4, 5, 7, 10][0 if name == "mut-add-lease" else 1:]),
                 shnums=shnums)
        if name == "mut-renew-extra-slot":
            # the renewed lease is number 5+ : its record lives behind the share data, not in the header
            p.update(size=rng.choice([8, 100, 2000]), nleases=rng.choice([5, 6, 8, 10]))
        for sh in shnums:
            mutable_share_setup(sc, rng, si, sh, secs, p["size"], 1 if p["nleases"] else 0)
        renewable = [secs[1]] if p["nleases"] else []
        for _ in range(max(0, p["nleases"] - 1)):
            r2 = secret(rng)
            renewable.append(r2)
            sc.setup_ops.append({"op": "add_lease", "si": H(si), "renew": r2, "cancel": secret(rng)})
        sc.setup_ops.append({"op": "advance", "dt": 5000})
        sc.lease_only = True
        for sh in shnums:
            sc.lease_targets.add((H(si), sh))
        if name == "mut-add-lease":
            sc.op = {"op": "add_lease", "si": H(si), "renew": secret(rng), "cancel": secret(rng)}
        else:
            p["via"] = rng.choice(["renew_lease", "add_lease"])
            which = rng.choice(renewable if name == "mut-renew" else renewable[4:])
            p["which"] = renewable.index(which)      # = lease slot number (slots fill in order)
            if p["via"] == "renew_lease":
                sc.op = {"op": "renew_lease", "si": H(si), "renew": which}
            else:
                sc.op = {"op": "add_lease", "si": H(si), "renew": which, "cancel": secret(rng)}
    elif name == "mut-create":
        si = si_with_prefix(rng, prefix)
        secs = [secret(rng), secret(rng), secret(rng)]
        shnums = sorted(rng.sample(range(4), rng.randint(1, 2)))
        p.update(size=rng.choice([1, 100, 5000]), shnums=shnums)
        sc.op = {"op": "writev", "si": H(si), "secrets": secs,
                 "tw": [(sh, [], [(0, H(rb(rng, p["size"])))], None) for sh in shnums]}
        for sh in shnums:
            sc.write_targets.add((H(si), sh))
    elif name in ("mut-write-inplace", "mut-grow", "mut-grow-extra-leases", "mut-truncate", "mut-delete",
                  "mut-multi-share"):
        si = si_with_prefix(rng, prefix)
        secs = [secret(rng), secret(rng), secret(rng)]
        size = rng.choice([100, 1000, 3000])
        nshares = 3 if name == "mut-multi-share" else rng.randint(1, 2)
        shnums = sorted(rng.sample(range(5), nshares))
        nleases = rng.randint(0, 10) if name != "mut-grow" else rng.choice([0, 3, 4, 5, 6, 8, 10])
        if name == "mut-grow-extra-leases":
            nleases = rng.choice([5, 6, 7, 8, 10])       # an extra-lease block exists and has to be relocated
        p.update(size=size, nleases=nleases, shnums=shnums)
        for sh in shnums:
            mutable_share_setup(sc, rng, si, sh, secs, size, 1 if nleases else 0)
        for _ in range(max(0, nleases - 1)):
            sc.setup_ops.append({"op": "add_lease", "si": H(si), "renew": secret(rng), "cancel": secret(rng)})
        sc.setup_ops.append({"op": "advance", "dt": 5000})
        tgt = shnums[0]
        same = rng.random() < .5
        use_secs = secs if same else [secs[0], secret(rng), secret(rng)]   # a new lease is added with the write
        p["lease_with_write"] = "renew" if same else "new"
        if name == "mut-write-inplace":
            off = rng.randrange(size - 10)
            tw = [(tgt, [], [(off, H(rb(rng, rng.randint(1, size - off))))], None)]
        elif name == "mut-grow":
            kind = rng.choice(["append", "append-small", "gap", "far"])
            p["grow"] = kind
            if kind == "append":
                tw = [(tgt, [], [(size, H(rb(rng, rng.choice([500, 2000]))))], None)]
            elif kind == "append-small":       # grows by less than the extra-lease block: old and new overlap
                tw = [(tgt, [], [(size, H(rb(rng, rng.choice([1, 50, 95]))))], None)]
            elif kind == "gap":
                tw = [(tgt, [], [(size + rng.choice([1, 300]), H(rb(rng, 100)))], None)]
            else:
                tw = [(tgt, [], [(size - 10, H(rb(rng, 20))), (size + 5000, H(rb(rng, 10)))], None)]
        elif name == "mut-grow-extra-leases":
            # container growth relative to the size of the extra-lease block (count + records): old and new block
            # overlap / touch / are apart.  The write itself may add one more lease (lease_with_write = new).
            block = 4 + 92 * (nleases - 4)
            p["block"] = block
            p["growth"] = g_ = rng.choice([1, block - 1, block, block + 1, 10 * block])
            tw = [(tgt, [], [(size, H(rb(rng, g_)))], None)]
        elif name == "mut-truncate":
            tw = [(tgt, [], [], rng.choice([1, size // 2, size - 1]))]
            if rng.random() < .5:
                tw = [(tgt, [], [(0, H(rb(rng, 10)))], size // 3)]
        elif name == "mut-delete":
            tw = [(tgt, [], [], 0)]
            sc.may_vanish.add((H(si), tgt))
        else:
            tw = [(shnums[0], [], [(size, H(rb(rng, 700)))], None), (shnums[1], [], [(3, H(rb(rng, 9)))], None)]
        sc.op = {"op": "writev", "si": H(si), "secrets": use_secs, "tw": tw}
        for t in tw:
            sc.write_targets.add((H(si), t[0]))
    elif name == "expire":
        # old leases (granted before the cut-off) and new ones; shares with only old leases get deleted
        p.update(sharetypes=rng.choice([["mutable", "immutable"], ["immutable"], ["mutable", "immutable"]]))
        plan = []
        for j in range(rng.randint(2, 3)):
            si = si_with_prefix(rng, prefix if j else rb(rng, 2))
            shnums = sorted(rng.sample(range(4), rng.randint(1, 2)))
            n_old, n_new = rng.randint(1, 3), rng.randint(0, 2)
            plan.append(("immutable", si, shnums, n_old, n_new, rng.choice([1, 100, 1000])))
        for j in range(rng.randint(1, 2)):
            si = si_with_prefix(rng, prefix)
            plan.append(("mutable", si, [rng.randrange(3)], rng.randint(1, 6), rng.randint(0, 2), 300))
        p["plan"] = [(t, H(si)[:8], shn, o, n_, sz) for (t, si, shn, o, n_, sz) in plan]
        msecs = {}
        for (t, si, shnums, n_old, n_new, sz) in plan:
            if t == "immutable":
                immutable_share_setup(sc, rng, si, shnums, sz, n_old)
            else:
                msecs[si] = [secret(rng), secret(rng), secret(rng)]
                for sh in shnums:
                    mutable_share_setup(sc, rng, si, sh, msecs[si], sz, 1)
                for _ in range(n_old - 1):
                    sc.setup_ops.append({"op": "add_lease", "si": H(si), "renew": secret(rng), "cancel": secret(rng)})
        sc.setup_ops.append({"op": "advance", "dt": 100000})
        cutoff_marker = len(sc.setup_ops)
        sc.setup_ops.append({"op": "advance", "dt": 100000})
        for (t, si, shnums, n_old, n_new, sz) in plan:
            for _ in range(n_new):
                sc.setup_ops.append({"op": "add_lease", "si": H(si), "renew": secret(rng), "cancel": secret(rng)})
        sc.params["_cutoff_marker"] = cutoff_marker
        sc.op = {"op": "expire"}
    else:
        raise ValueError(name)
    # build the template; the expire scenario needs the cut-off time observed during the build
    if name == "expire":
        cutoff = sc.build(cutoff_marker=sc.params.pop("_cutoff_marker"))
        sc.ss_kw = {"expiration_enabled": True, "expiration_mode": "cutoff-date",
                    "expiration_cutoff_date": cutoff, "expiration_sharetypes": p["sharetypes"]}
        sc.cutoff = cutoff
    else:
        sc.build()
    return sc


class SetupFailed(Exception):
    """The code under test raised during an uncrashed set-up operation."""

    def __init__(self, err, op, findings):
        Exception.__init__(self, "%s: %s" % (type(err).__name__, str(err)[:200]))
        self.err, self.op, self.findings = err, op, findings


def judge_uncrashed(op, prev, cur, where):
    """One operation ran to completion (no crash) between the snapshots prev and cur.
    -> findings [(key, what, detail)] for the parts of the statement that need no crash: a lease-only
    operation changes no share's data (and drops no lease), no operation touches shares it does not name."""
    out = []
    si = op.get("si")
    kind = op["op"]
    named = set()
    if kind == "writev":
        named = set(t[0] for t in op["tw"])
    elif kind == "upload":
        named = set(op["shnums"])
    for key, before in sorted(prev.items()):
        after = cur.get(key)
        same_si = key[0] == si
        if same_si and kind in ("writev",) and key[1] in named:
            continue                                  # the share being written
        label = "share %s/%d (%s)" % (key[0][:8], key[1], before["type"])
        if after is None:
            out.append(("share-vanished", "%s is gone after an uncrashed %s on %s [%s]" % (
                label, kind, "its storage index" if same_si else "another storage index", where),
                {"share": key, "op": _short(op)}))
            continue
        data_same = (after["error"] is None and after["data"] == before["data"]
                     and after["length"] == before["length"])
        if same_si and kind in ("add_lease", "renew_lease", "upload"):
            if not data_same:
                k = ("lease-op-changed-%s-data" % before["type"]) if kind != "upload" else "immutable-share-damaged"
                out.append((k, "uncrashed %s changed the data of %s: %s [%s]" % (kind, label, diff(before, after),
                                                                                  where),
                            {"share": key, "op": _short(op), "diff": diff(before, after),
                             "leases_before": len(before["leases"] or [])}))
            elif after["lease_error"] is not None or lost_leases(before, after):
                out.append(("uncrashed-lease-op-lost-leases", "uncrashed %s on %s: %s [%s]" % (
                    kind, label, diff(before, after), where), {"share": key, "op": _short(op)}))
            continue
        if not data_same or after["lease_error"] is not None or after["leases"] != before["leases"]:
            out.append(("non-target-share-changed", "%s, not named by the uncrashed %s, differs afterwards: %s [%s]" % (
                label, kind, diff(before, after), where), {"share": key, "op": _short(op)}))
    return out


# ------------------------------------------------------------------ judging

def evaluate(workdir, sc, pre, fx):
    """Restart on workdir and evaluate the statement.  -> (findings, observations, post)
    findings: [(key, what, detail)]"""
    from vf.checks import _storage
    _storage.cancel_timers()
    findings, obs = [], []
    ss2 = make_ss(workdir)           # the restart
    post = snapshot(ss2)
    completed = not fx.crashed and getattr(fx, "op_error", None) is None
    untouched = 0
    for key, before in sorted(pre.items()):
        after = post.get(key)
        is_wt = key in sc.write_targets
        is_lt = key in sc.lease_targets
        may_vanish = key in sc.may_vanish
        if sc.name == "expire":
            # documented rule (docs/garbage-collection.rst, cutoff-date mode): a lease whose last renewal
            # (expiry - 31 days) is before the cut-off is expired; a share whose leases are all expired goes
            n_exp, n_all = expired_leases(before, sc.cutoff)
            applies = before["type"] in sc.params["sharetypes"]
            is_lt = applies and n_exp > 0
            may_vanish = applies and n_all > 0 and n_exp == n_all
        imm = before["type"] == "immutable"
        # (3) an immutable share is complete or absent -- whatever the operation
        if imm and after is not None:
            if after["error"] is not None or after["data"] != before["data"] or after["length"] != before["length"]:
                findings.append((classify_imm(sc, before, after), "immutable share %s/%d present but not complete "
                                 "after restart: %s" % (key[0][:8], key[1], diff(before, after)),
                                 {"share": key, "diff": diff(before, after)}))
                continue
        if is_wt:
            # the share being written: exempt (observations only)
            if after is None:
                if not may_vanish:
                    obs.append(("written-share-vanished", key))
            elif after["error"] is not None:
                obs.append(("written-share-unreadable:" + after["error"].split(":")[0], key))
            elif after["lease_error"] is not None:
                prev = fx.ops[-1] if fx.ops else None
                where = after["lease_error"].split(":")[0]
                if prev and prev[0] == "write" and prev[2][0] == 92 and fx.crash_op and fx.crash_op[0] == "write":
                    # the header's extra-lease offset was the last thing written and more was to follow
                    where = "extra-lease-offset-written-before-the-block"
                obs.append(("written-share-leases-unreadable:" + where, key, after["lease_error"]))
                try:
                    ss2.add_lease(U(key[0]), b"\x01" * 32, b"\x02" * 32)
                except Exception as e:
                    obs.append(("lease-ops-on-storage-index-fail-after-crash:" + type(e).__name__, key))
            elif lost_leases(before, after):
                obs.append(("written-share-lost-leases", key, len(before["leases"]), len(after["leases"])))
            continue
        if after is None:
            if may_vanish:
                continue
            findings.append(("share-vanished" if not (sc.lease_only or is_lt) else "lease-target-share-vanished",
                             "share %s/%d (%s) is gone after restart" % (key[0][:8], key[1], before["type"]),
                             {"share": key}))
            continue
        data_same = (after["error"] is None and after["data"] == before["data"]
                     and after["length"] == before["length"])
        if is_lt:
            # (2) a lease-only operation never changes any share's data
            if sc.lease_only and not data_same:
                findings.append((classify_lease_op(sc, before, after),
                                 "%s changed the data of share %s/%d: %s" % (
                                     sc.op["op"], key[0][:8], key[1], diff(before, after)),
                                 {"share": key, "diff": diff(before, after)}))
            elif not data_same:
                obs.append(("lease-target-data-changed-in-non-lease-op:" + sc.name, key))
            elif completed and sc.lease_only and (after["lease_error"] is not None or lost_leases(before, after)):
                findings.append(("uncrashed-lease-op-lost-leases", "%s ran to completion and share %s/%d: %s" % (
                    sc.op["op"], key[0][:8], key[1], diff(before, after)), {"share": key}))
            elif completed and sc.name in ("imm-add-lease", "mut-add-lease") \
                    and len(after["leases"]) != len(before["leases"]) + 1:
                obs.append(("added-lease-not-visible:" + before["type"], key, len(before["leases"]),
                            len(after["leases"])))
            elif after["lease_error"] is not None:
                obs.append(("lease-target-leases-unreadable:%s:%s" % (before["type"], sc.op["op"]), key,
                            after["lease_error"]))
            elif after["leases"] != before["leases"] and lost_leases(before, after) and sc.name != "expire":
                obs.append(("lease-target-lost-leases", key, len(before["leases"]), len(after["leases"])))
            continue
        # (1) a share that is not being written keeps data and leases
        untouched += 1
        if not data_same or after["lease_error"] is not None or after["leases"] != before["leases"]:
            findings.append(("non-target-share-changed",
                             "share %s/%d (%s), not targeted by %s, differs after restart: %s" % (
                                 key[0][:8], key[1], before["type"], sc.name, diff(before, after)),
                             {"share": key, "diff": diff(before, after)}))
    # new immutable shares: complete or absent
    new_present = 0
    for key, data in sorted(sc.new_immutable.items()):
        after = post.get(key)
        if after is None:
            continue
        new_present += 1
        if after["error"] is not None or after["type"] != "immutable" or after["data"] != data:
            findings.append(("immutable-share-incomplete",
                             "uploaded share %s/%d is visible after restart but is not the complete share: %s" % (
                                 key[0][:8], key[1], diff({"data": data, "length": len(data), "leases": None,
                                                           "error": None}, after)),
                             {"share": key}))
    for key in post:
        if key not in pre and key not in sc.write_targets:
            findings.append(("unexpected-share-appeared", "share %s/%d exists after restart" % (key[0][:8], key[1]),
                             {"share": key}))
    # (4) uploads in progress are discarded at restart
    inc = []
    for dp, _dn, fns in os.walk(ss2.incomingdir):
        inc += [os.path.relpath(os.path.join(dp, f), ss2.incomingdir) for f in fns]
    if inc or os.listdir(ss2.incomingdir):
        findings.append(("incoming-not-empty-after-restart", "incoming/ holds %r after restart" % (
            inc or os.listdir(ss2.incomingdir),), {"incoming": inc}))
    if sc.name == "expire":
        try:
            ss2.lease_checker.get_state()
        except Exception as e:
            obs.append(("expirer-state-unreadable-after-crash:" + type(e).__name__, None))
    retry = None
    if sc.op["op"] == "upload" and not findings:
        retry = retry_upload(ss2, sc, post)
        if retry is not None:
            findings.append(("upload-not-repeatable-after-restart", retry, {}))
    _storage.cancel_timers()
    return findings, obs, {"untouched": untouched, "new_present": new_present, "completed": completed}


def expired_leases(rec, cutoff):
    n_exp = 0
    for b in rec["leases"] or []:
        expiry = int.from_bytes(b[4:8] if len(b) == 92 else b[68:72], "big")
        if expiry - 31 * 24 * 3600 < cutoff:
            n_exp += 1
    return n_exp, len(rec["leases"] or [])


def lost_leases(before, after):
    if not before.get("leases"):
        return False
    if after["leases"] is None:
        return True
    have = set(after["leases"])
    # a renewed lease differs in its expiry only: compare on the secrets part
    def ident(b):
        return b[:4] + b[8:72] if len(b) == 92 else b[:68]
    have_id = set(ident(x) for x in have)
    return any(ident(x) not in have_id for x in before["leases"])


def diff(before, after):
    if after is None:
        return "absent"
    if after.get("error"):
        return "unreadable (%s)" % after["error"]
    out = []
    if after.get("lease_error"):
        out.append("lease list unreadable (%s)" % after["lease_error"])
    if after["length"] != before["length"]:
        out.append("length %s -> %s" % (before["length"], after["length"]))
    if after["data"] != before["data"]:
        a, b = before["data"], after["data"]
        i = next((j for j, (x, y) in enumerate(zip(a, b)) if x != y), min(len(a), len(b)))
        out.append("data differs from offset %d (read %d bytes, expected %d)" % (i, len(b), len(a)))
    if before.get("leases") is not None and after["leases"] is not None and after["leases"] != before["leases"]:
        out.append("leases %d -> %d%s" % (len(before["leases"]), len(after["leases"]),
                                         "" if not lost_leases(before, after) else " (old leases lost/shifted)"))
    return "; ".join(out) or "same"


def classify_imm(sc, before, after):
    """Mechanism class of a damaged pre-existing immutable share (deterministic)."""
    grew = (after.get("error") is None and after["data"][:len(before["data"])] == before["data"]
            and (len(after["data"]) - len(before["data"])) > 0
            and (len(after["data"]) - len(before["data"])) % 72 == 0)
    if sc.name == "expire":
        return "immutable-lease-cancel-window" if grew else "immutable-share-damaged-by-expirer"
    if sc.op["op"] in ("add_lease", "upload") and grew:
        return "immutable-lease-append-window"
    return "immutable-share-damaged"


def classify_lease_op(sc, before, after):
    if before["type"] == "immutable":
        return classify_imm(sc, before, after) if classify_imm(sc, before, after) != "immutable-share-damaged" \
            else "lease-op-changed-immutable-data"
    return "lease-op-changed-mutable-data"


def retry_upload(ss2, sc, post):
    """After the restart the same client repeats the upload: every share that is not there is
    writable again and becomes complete."""
    op = sc.op
    si = U(op["si"])
    try:
        got, bws = ss2.allocate_buckets(si, U(op["renew"]), U(op["cancel"]), set(op["shnums"]), op["size"])
    except Exception as e:
        return "allocate_buckets after restart raised %s: %s" % (type(e).__name__, e)
    present = set(sh for (s, sh) in post if s == op["si"])
    want = set(op["shnums"]) - present
    if set(bws) != want:
        return "after restart allocate_buckets granted writers for %r, absent shares are %r" % (
            sorted(bws), sorted(want))
    if got != present:
        return "after restart allocate_buckets reports %r as present, on disk %r" % (sorted(got), sorted(present))
    for (sh, off, data) in op["writes"]:
        if sh in bws:
            bws[sh].write(off, U(data))
    for sh in list(bws):
        bws[sh].close()
    for sh in want:
        key = (op["si"], sh)
        if key in sc.new_immutable:
            d = ss2.get_buckets(si)[sh].read(0, HUGE)
            if d != sc.new_immutable[key]:
                return "repeated upload of share %d does not read back" % sh
    return None


# ------------------------------------------------------------------ driving

def run_point(sc, n, pre):
    """Copy the template, run prelude + op with a crash before op index n, restart, judge."""
    from vf import fsx
    from vf.checks import _storage
    _storage.cancel_timers()          # BucketWriter timeouts of earlier (dead) incarnations
    work = os.path.join(sc.tmp, "work")
    shutil.rmtree(work, ignore_errors=True)
    shutil.copytree(sc.template, work)
    set_clock(sc.now)
    ss = make_ss(work, sc.ss_kw)
    for op in sc.prelude:
        apply_op(ss, op)
    if pre is None:
        pre = snapshot(ss)
    fx = fsx.Fsx(root=work, crash_at=n)
    fx.op_error = None
    with fx:
        try:
            apply_op(ss, sc.op)
        except fsx.Crash:
            pass
        except Exception as e:                 # raised by the code under test (not a crash)
            fx.op_error = "%s: %s" % (type(e).__name__, str(e)[:200])
    del ss
    return work, fx, pre


def run(ck):
    from vf import fsx
    from vf.checks import _storage
    _storage.install_virtual_time()
    fsx.install()
    ck.rule = ("case = (workload scenario with seeded parameters, crash index n): the workload is re-executed with the "
               "process killed before its n-th file-system mutation, n = 0..N (N = no crash); distinct = distinct "
               "(scenario, parameters, n); non-trivial = at least one mutation completed and at least one not")
    ck.assumptions.append("crash = SIGKILL of the server process: completed system calls persist, user-space "
                          "buffers are lost; no power loss; a single write(2) is not torn")
    rounds = 0
    per_scenario = {}
    windows = {}
    fidelity_jobs = []          # workloads kept for the strace stage
    idx = 0
    reserve = 0.25 * ck.time_left()      # of the budget, for the strace stage

    def one_round():
        nonlocal idx
        for name in SCENARIOS:
            idx += 1
            if not ck.mine(idx):
                continue
            try:
                sc = make_scenario(name, ck.rng("scenario", rounds, name))
            except SetupFailed as e:
                # the code under test raised while the pre-state was built (no crash involved).  If an earlier
                # uncrashed operation already damaged what it must not touch, that is the finding (and the likely
                # cause); otherwise the workload simply cannot be judged.
                _storage.cancel_timers()
                for (key, what, detail) in e.findings:
                    ck.violation(key, what, detail)
                if e.findings:
                    ck.observe("set-up-raised-after-damage")
                else:
                    ck.inconclusive_because("workload %s could not be set up: %s raised %s" % (name, e.op["op"], e))
                continue
            try:
                with ck.watchdog(240, "%s round %d" % (name, rounds)):
                    enumerate_scenario(ck, sc, per_scenario, windows, fidelity_jobs, rounds)
            finally:
                _storage.cancel_timers()
                if not getattr(sc, "keep", False):
                    sc.close()

    if ck.tier == "quick":
        # a fixed amount of work (every scenario three times with different parameters): the same cases whatever the load
        for _ in range(3):
            rounds += 1
            one_round()
    else:
        # min_cases: at least ~2 workloads of every scenario type over the 8 shards even on a loaded machine
        while rounds < 200 and (ck.time_left() > reserve or ck.evaluations < 150) and ck.more(min_cases=150):
            rounds += 1
            one_round()
    ck.extra["rounds"] = rounds
    for k, v in sorted(per_scenario.items()):       # flat numeric extras: they add up over the shards
        ck.extra["workloads:" + k] = v["workloads"]
        ck.extra["crash_points:" + k] = v["crash_points"]
    ck.extra["observed_windows_on_written_shares"] = windows
    import time as _t
    ck.extra["wall_enumeration_s"] = round(_t.time() - ck.t0, 1)
    # ---- fidelity: strace traces + real kills
    try:
        with ck.watchdog(200, "strace fidelity stage"):
            fidelity_stage(ck, fidelity_jobs)
    finally:
        for (sc, _pts) in fidelity_jobs:
            sc.close()
    ck.extra["wall_total_s"] = round(_t.time() - ck.t0, 1)
    ck.exhaustive = True     # every crash index of every generated workload
    ck.require_monitor("non-target-unchanged", "lease-op-data-unchanged", "immutable-complete-or-absent",
                       "incoming-empty-after-restart", "strace-trace-equality", "real-kill-agreement")
    ck.require_reach("crash-in-lease-append", "crash-in-container-growth", "crash-in-rename-window",
                     "crash-in-expirer-cancel", "upload-discarded-and-repeated",
                     "renewed-mutable-lease-beyond-slot-4",
                     "crash-next-to-extra-lease-offset-update-with-more-than-4-leases")


def enumerate_scenario(ck, sc, per_scenario, windows, fidelity_jobs, rounds):
    from vf import fsx
    # counting run (no crash) gives N and the op log
    work, fx0, pre = run_point(sc, None, None)
    ops = list(fx0.ops)
    N = len(ops)
    desc = sc.describe()
    per = per_scenario.setdefault(sc.name, {"workloads": 0, "crash_points": 0, "ops_max": 0})
    per["workloads"] += 1
    per["ops_max"] = max(per["ops_max"], N)
    points = []
    # the uncrashed set-up operations were judged while the template was built
    if sc.setup_lease_ops:
        ck.mon("lease-op-data-unchanged", sc.setup_lease_ops)
    for (key, what, detail) in sc.setup_findings:
        ck.violation(key, what, dict(desc, detail=detail))
    # first the operation run to completion (index N), then every crash index
    for n in [N] + list(range(N)):
        # crash index N: the operation completes (no crash point armed: a system call that FAILS after the
        # last mutation -- rmdir of a non-empty directory -- must not count as one)
        work, fx, _pre = run_point(sc, n if n < N else None, pre)
        if fx.op_error is not None:
            # the code under test raised although nothing crashed: judge what it left behind; without any
            # finding the workload cannot be judged
            findings, _obs, _info = evaluate(work, sc, pre, fx)
            for (key, what, detail) in findings:
                ck.violation(key, "%s [%s, uncrashed operation raised %s]" % (what, sc.name, fx.op_error),
                             dict(desc, detail=detail))
            if findings or sc.setup_findings:
                ck.observe("uncrashed-operation-raised-after-damage")
            else:
                ck.inconclusive_because("workload %s: the uncrashed operation raised %s" % (sc.name, fx.op_error))
            return
        if fx.crashed != (n < N):
            ck.inconclusive_because("harness: workload %s not deterministic (crash index %d of %d)"
                                    % (sc.name, n, N))
            return
        if fx.ops != ops[:n]:
            ck.inconclusive_because("harness: op log of %s differs between runs" % sc.name)
            return
        findings, obs, info = evaluate(work, sc, pre, fx)
        per["crash_points"] += 1
        ck.mon("non-target-unchanged", info["untouched"])
        ck.mon("immutable-complete-or-absent")
        ck.mon("incoming-empty-after-restart")
        if sc.name == "mut-grow-extra-leases" and n < N and n and ops[n][0] == "write" and ops[n - 1][0] == "write" \
                and (ops[n][2][0] == 92 or ops[n - 1][2][0] == 92):
            ck.hit("crash-next-to-extra-lease-offset-update-with-more-than-4-leases")
        if sc.lease_only:
            ck.mon("lease-op-data-unchanged")
            if n == N and sc.name.startswith("mut-renew") and sc.params.get("which", 0) >= 4 and N > 0:
                ck.hit("renewed-mutable-lease-beyond-slot-4")     # N > 0: the renewal did write
        nxt = ops[n] if n < N else None
        if nxt is not None:
            reach(ck, sc, ops, n)
        if sc.op["op"] == "upload" and n < N and not findings:
            ck.hit("upload-discarded-and-repeated")
        for (key, what, detail) in findings:
            ck.violation(key, "%s [%s, crash before op %d/%d %r]" % (what, sc.name, n, N, nxt),
                         dict(desc, crash_index=n, n_ops=N, next_op=nxt, completed_ops=ops[:n][-6:], detail=detail))
        for o in obs:
            ck.observe(o[0])
            w = windows.setdefault(o[0], {"count": 0})
            w["count"] += 1
            if "first" not in w:
                w["first"] = {"scenario": sc.name, "params": sc.params, "crash_index": n, "next_op": nxt,
                              "previous_op": ops[n - 1] if n else None, "detail": list(o[1:])}
        points.append((n, sorted(set(f[0] for f in findings)), len(obs)))
        ck.case(sc.name, key=(sc.name, json.dumps(sc.params, sort_keys=True, default=str), n),
                nontrivial=0 < n < N, sample=dict(desc, crash_index=n, n_ops=N, next_op=nxt) if n == max(1, N // 2) else None)
    if rounds == 1 or (ck.tier == "thorough" and rounds <= 3):
        sc.keep = True
        sc.ops = ops
        fidelity_jobs.append((sc, points))


def reach(ck, sc, ops, n):
    """Behavioural reach counters: which window the crash fell into (from the op log, not from names)."""
    prev = ops[n - 1] if n else None
    nxt = ops[n]
    if prev and prev[0] == "write" and nxt[0] == "write" and prev[1] == nxt[1] and prev[2][1] == 72 \
            and nxt[2] == (8, 4):
        ck.hit("crash-in-lease-append")
    if sc.name.startswith("mut-grow") and prev and prev[0] == "write" and nxt[0] == "write" and nxt[2][0] == 92:
        ck.hit("crash-in-container-growth")
    if nxt[0] == "rename" or (prev and prev[0] == "rename"):
        ck.hit("crash-in-rename-window")
    if sc.name == "expire" and (nxt[0] in ("truncate", "unlink") or (prev and prev[0] == "truncate")):
        ck.hit("crash-in-expirer-cancel")


# ------------------------------------------------------------------ fidelity

def fidelity_stage(ck, jobs):
    """Same workloads, real process, real kernel: (a) the system-call trace of the operation equals the
    in-process op log, (b) a process really SIGKILLed on entering system call number n leaves the
    directory the in-process crash at index n predicts, and the invariant checker says the same."""
    from vf import fsx
    if not jobs:
        return
    if not fsx.strace_available():
        ck.inconclusive_because("harness fidelity: strace is not usable here")
        return
    try:
        srv = fsx.KillServer("vf.checks.c29:child_job", tmpdir=FAST_TMP)
    except Exception as e:
        ck.inconclusive_because("harness fidelity: strace server did not start: %s" % str(e)[-300:])
        return
    rng = ck.rng("fidelity")
    quick = ck.tier == "quick"
    n_kills = 8 if quick else 40
    per_type = 1 if quick else 4
    trace_jobs, kill_jobs = [], []
    try:
        # 1. full trace jobs: quick = 5 of the kept workloads (rotating with the seed), thorough = all
        tj = list(jobs)
        if quick:
            rng.shuffle(tj)
            tj = tj[:5]
        for (sc, points) in tj:
            root = os.path.join(srv.tmp, "t-%d" % len(trace_jobs))
            shutil.copytree(sc.template, root)
            res = srv.run({"root": root, "now": sc.now, "ss_kw": sc.ss_kw, "prelude": sc.prelude, "op": sc.op})
            trace_jobs.append((sc, root, res))
        # 2. real kills at sampled crash indices (kill-able kinds only), spread over the workload types;
        #    crash points at which the in-process run found a violation or a window first
        cands = []
        for (sc, points) in jobs:
            for (n, keys, nobs) in points:
                if n < len(sc.ops) and sc.ops[n][0] in fsx.KILL_K:
                    pri = 0 if keys else (1 if nobs else (2 if n and sc.ops[n - 1][0] != sc.ops[n][0] else 3))
                    cands.append((pri, rng.random(), sc, n, keys))
        cands.sort(key=lambda c: (c[0], c[1]))
        chosen, seen_sc = [], {}
        for c in cands:
            if len(chosen) >= n_kills:
                break
            if seen_sc.get(c[2].name, 0) >= per_type:
                continue
            seen_sc[c[2].name] = seen_sc.get(c[2].name, 0) + 1
            chosen.append(c)
        for (_pri, _r, sc, n, keys) in chosen:
            root = os.path.join(srv.tmp, "k-%d" % len(kill_jobs))
            shutil.copytree(sc.template, root)
            res = srv.run({"root": root, "now": sc.now, "ss_kw": sc.ss_kw, "prelude": sc.prelude, "op": sc.op,
                           "kill_at": n})
            kill_jobs.append((sc, n, keys, root, res))
        srv.close()
        # 3. compare traces (complete ones, and the prefix a killed process left)
        compared = 0
        for (sc, root, res) in trace_jobs:
            ck.mon("strace-trace-equality")
            if res["status"] != 0:
                ck.inconclusive_because("harness fidelity: trace child of %s failed (status %r): %s" % (
                    sc.name, res["status"], srv._stderr_tail()[-400:]))
                continue
            real = srv.trace_ops(res["id"], root)
            if real is None:
                ck.inconclusive_because("harness fidelity: markers of %s not found in the strace log" % sc.name)
                continue
            compared += len(real)
            why = fsx.compare_ops(sc.ops, real)
            if why is not None:
                ck.inconclusive_because("harness fidelity: in-process op log of %s differs from strace: %s" % (
                    sc.name, why))
            else:
                ck.hit("trace-identical:" + sc.name)
        # 4. compare surviving directories and verdicts of the real kills
        for (sc, n, keys, root, res) in kill_jobs:
            ck.mon("real-kill-agreement")
            if not res["killed"]:
                ck.inconclusive_because("harness fidelity: child of %s was not killed at op %d (status %r) %s" % (
                    sc.name, n, res["status"], srv._stderr_tail()[-300:]))
                continue
            real_ops = srv.trace_ops(res["id"], root, partial=True)
            ck.mon("strace-trace-equality")
            if real_ops is None:
                ck.inconclusive_because("harness fidelity: BEGIN marker of killed %s not found" % sc.name)
                continue
            compared += len(real_ops)
            why = fsx.compare_ops(sc.ops[:n], real_ops)
            if why is not None:
                ck.inconclusive_because("harness fidelity: system calls completed before the real kill at op %d of "
                                        "%s differ from the in-process log: %s" % (n, sc.name, why))
                continue
            work, fx, pre = run_point(sc, n, None)
            mine = raw_tree(work)
            real = raw_tree(root)
            if mine != real:
                d = sorted(k for k in set(mine) | set(real) if mine.get(k) != real.get(k))
                ck.inconclusive_because("harness fidelity: directory after a real SIGKILL before op %d of %s differs "
                                        "from the in-process prediction in %r" % (n, sc.name, d[:4]))
                continue
            f_mine, _o2, _i2 = evaluate(work, sc, pre, fx)
            f_real, _o, _i = evaluate(root, sc, pre, fx)
            if sorted(set(f[0] for f in f_real)) != sorted(set(f[0] for f in f_mine)) \
                    or sorted(set(f[0] for f in f_real)) != sorted(keys):
                ck.inconclusive_because("harness fidelity: verdicts differ between the real kill and the in-process "
                                        "crash at op %d of %s: %r vs %r vs %r" % (
                                            n, sc.name, [f[0] for f in f_real], [f[0] for f in f_mine], keys))
                continue
            ck.hit("real-kill-identical")
            for k in sorted(set(f[0] for f in f_real)):
                ck.hit("real-kill-reproduces:" + k)
        ck.extra["fidelity_traces"] = len(trace_jobs)
        ck.extra["fidelity_real_kills"] = len(kill_jobs)
        ck.extra["fidelity_trace_ops_compared"] = compared
    finally:
        srv.cleanup()


# MUST_CATCH (selftest/breaks_c29.py) -- each adds a key of its own on top of the two windows of the unchanged tree:
#   c29-incoming-not-cleaned                  _clean_incomplete does nothing                  -> incoming-not-empty-after-restart
#   c29-upload-into-final-dir                 BucketWriter writes directly into shares/       -> immutable-share-damaged / -incomplete
#   c29-delete-removes-bucket                 deleting one mutable share removes its siblings -> share-vanished
#   c29-renew-truncates-first                 immutable renew of the last lease truncates it first (only a crash between
#                                             ftruncate and write shows it)                   -> immutable-share-damaged
#   c29-mutable-lease-add-touches-data-length mutable add_lease bumps and restores the data length (only a crash between
#                                             the two writes shows it)                        -> lease-op-changed-mutable-data
#   seeded/C29-6 (mutable renew patches the expiry at the header-slot offset also for leases 5+ = share data bytes 4..7)
#                                             -> lease-op-changed-mutable-data (workload mut-renew-extra-slot, no crash)
#   seeded/C29-4 (fifth mutable lease written over the first 92 data bytes, no crash needed)
#                                             -> lease-op-changed-mutable-data (uncrashed set-up add_lease), uncrashed-lease-op-lost-leases
# Tried and dropped: mis-placing mutable lease slots (offset arithmetic) -- those breaks make every set-up fail
# (struct.error while the bystander shares are created): the run is inconclusive (exit 2), not a violation.
