"""C30 HTTP storage API authorization."""
META = {
    "level": "exploration",
    "technique": "hostile-request enumeration against the real HTTPServer over in-memory HTTP, judged by a before/after state fingerprint, status class and share-byte search",
    "text": "Runs the real StorageServer + HTTPServer behind treq's StubTreq. A legitimate client (real StorageClient*) keeps a completed immutable upload, an in-progress immutable upload and a mutable slot alive and advances them between hostile batches. Every route of the server's URL map (checked against the map at run time) gets at least one request that succeeds when sent with correct headers (positive control at the end of each case); that request is re-sent with every Authorization class (absent, empty, wrong scheme, swissnum with one bit flipped / truncated / extended / empty / other length / other case, header text truncated or extended, undecodable base64, non-UTF-8) and, with the right swissnum, with every X-Tahoe-Authorization class (one secret missing, all missing, unknown kind, extra kind, undecodable / empty base64, no separator, wrong lease-secret length, conflicting duplicates), with wrong upload secrets against another client's in-progress upload (write and abort) and wrong write enablers (read-test-write). Oracle per request: status is not 2xx/3xx, the body contains no 12-byte window of any stored share, and the fingerprint (every file below the storage directory, allocated_size(), pending upload-timeout deadlines, the server's open-writer and upload-secret tables) is identical before and after. Finally the legitimate uploader must still be able to finish and read back exactly its bytes.",
    "note": "Trusts treq.testing.StubTreq/twisted.web to deliver header lines as given, the 40-line fingerprint, and os.walk. Lenient spellings that still carry the correct swissnum (other scheme case, missing padding, duplicated header with one correct value) and identical duplicated secrets are generated but not judged.",
}
LEVEL = "exploration"
BUDGET = {"quick": 40, "thorough": 240}
SHARDS = {"quick": 1, "thorough": 8}

import base64
import hashlib
import os

from vf import env  # noqa  (first)

CBOR_CT = ("Content-Type", "application/cbor")


# ----------------------------------------------------------------- fingerprint

def snapshot(h):
    from vf.checks._storage import snapshot_dir
    return snapshot_dir(h.storedir)


def fingerprint(h):
    """(digest-able tuple, files dict).  Deciding parts: files, allocated_size(),
    upload-timeout deadlines (all observable: disk, public method, behaviour in
    time).  The two private tables only add sensitivity; a refactoring makes
    them None on both sides of every comparison."""
    files = snapshot(h)
    now = env.reactor.seconds()
    deadlines = tuple(sorted(round(dc.getTime(), 4) for dc in env.reactor.getDelayedCalls()
                             if dc.active() and dc.getTime() > now + 300))
    fh = hashlib.sha256()
    for k in sorted(files):
        fh.update(k.encode("utf-8", "replace") + b"\0")
        fh.update(b"-" if files[k] is None else hashlib.sha256(files[k]).digest())
    return ((fh.hexdigest(), h.ss.allocated_size(), deadlines,
             tuple(h.open_writers() or ()) if h.open_writers() is not None else None,
             tuple(h.uploads_in_progress() or ()) if h.uploads_in_progress() is not None else None),
            files)


def fp_diff(a, b):
    (da, fa), (db, fb) = a, b
    out = {}
    ch = sorted(k for k in set(fa) | set(fb) if fa.get(k, "<absent>") != fb.get(k, "<absent>"))
    if ch:
        out["files_changed"] = ch[:8]
    for i, name in ((1, "allocated_size"), (2, "upload_deadlines"), (3, "open_writers"), (4, "upload_secrets")):
        if da[i] != db[i]:
            out[name] = [repr(da[i])[:200], repr(db[i])[:200]]
    return out


# ------------------------------------------------------------------- generators

def rbytes(rng, n):
    return bytes(rng.getrandbits(8) for _ in range(n))


def flip_bit(b, bit):
    ba = bytearray(b)
    ba[bit // 8] ^= 1 << (bit % 8)
    return bytes(ba)


def auth_classes(S, rng):
    """[(class, family, [Authorization values], judged)] -- judged=False for
    spellings that still carry the correct swissnum (statement leaves them open)."""
    from vf.http import auth_value
    good = auth_value(S)
    b64 = good.split(b" ", 1)[1]
    out = []

    def add(name, fam, values, judged=True):
        out.append((name, fam, values, judged))

    add("absent", "missing", [])
    add("empty-value", "missing", [b""])
    add("scheme-only", "missing", [b"Tahoe-LAFS"])
    add("scheme-space", "empty-swissnum", [b"Tahoe-LAFS "])
    add("basic-other", "wrong-scheme", [auth_value(rbytes(rng, len(S)), b"Basic")])
    add("bearer-other", "wrong-scheme", [auth_value(S[::-1] if S[::-1] != S else S + b"x", b"Bearer")])
    add("bare-b64-no-scheme", "wrong-scheme", [b64])
    for nm, bit in (("first", 0), ("last", len(S) * 8 - 1), ("random", rng.randrange(len(S) * 8))):
        add("bitflip-" + nm, "bit-off", [auth_value(flip_bit(S, bit))])
    add("truncated-1", "truncated", [auth_value(S[:-1])])
    add("truncated-half", "truncated", [auth_value(S[:len(S) // 2])])
    add("first-byte-only", "truncated", [auth_value(S[:1])])
    add("tail-only", "truncated", [auth_value(S[1:])])
    add("extended-nul", "extended", [auth_value(S + b"\0")])
    add("extended-rand", "extended", [auth_value(S + rbytes(rng, rng.randint(1, 5)))])
    add("doubled", "extended", [auth_value(S + S)])
    add("other-length", "other-length", [auth_value(rbytes(rng, rng.choice([1, 3, len(S) + 7, 64])))])
    add("same-length-random", "other-value", [auth_value(rbytes(rng, len(S)))])
    if S.swapcase() != S:
        add("swapcase", "other-value", [auth_value(S.swapcase())])
    # near misses on the ENCODED text: the right base64 string with the case of some letters swapped is the
    # encoding of a different swissnum (catches case-folding / "canonicalising" comparisons)
    letters = [i for i, c in enumerate(b64) if bytes([c]).isalpha()]

    def case_variant(positions):
        t = bytearray(b64)
        for i in positions:
            t[i] = ord(bytes([t[i]]).swapcase())
        return bytes(t)
    if letters:
        variants = [("first-letter", letters[:1]), ("last-letter", letters[-1:]),
                    ("random-letter", [rng.choice(letters)]),
                    ("several-letters", rng.sample(letters, min(len(letters), rng.randint(2, 5)))),
                    ("all-letters", letters), ("all-lower", [i for i in letters if bytes([b64[i]]).isupper()]),
                    ("all-upper", [i for i in letters if bytes([b64[i]]).islower()])]
        for nm, pos in variants:
            t = case_variant(pos)
            try:
                same = base64.b64decode(t) == S
            except Exception:
                same = False
            if t == b64 or same:
                continue
            for sn, scheme in (("", b"Tahoe-LAFS"), ("-lower-scheme", b"tahoe-lafs"), ("-upper-scheme", b"TAHOE-LAFS")):
                add("b64-case-" + nm + sn, "encoded-text-case", [scheme + b" " + t])
    # the header *text* cut or grown (catches prefix / startswith comparisons either way round)
    for k in (1, 2, 4):
        if len(good) - k > len(b"Tahoe-LAFS "):
            add("header-cut-%d" % k, "header-prefix", [good[:-k]])
    add("header-plus-A", "header-extended", [good + b"A"])
    add("header-plus-junk", "header-extended", [good + b" " + b64])
    add("b64-garbage", "bad-base64", [b"Tahoe-LAFS !!!!"])
    add("b64-percent", "bad-base64", [b"Tahoe-LAFS %%%=%"])
    add("b64-one-char", "bad-base64", [b"Tahoe-LAFS " + b64[:1]])
    add("non-utf8", "bad-base64", [b"Tahoe-LAFS \xff\xfe\xfd"])
    add("non-utf8-whole", "bad-base64", [b"\x00\xff\x00\xff"])
    add("wrong-then-wrong", "duplicated", [auth_value(rbytes(rng, len(S))), auth_value(S[:-1])])
    # --- not judged: the correct swissnum is present in a lenient spelling
    add("lower-scheme", "lenient", [auth_value(S, b"tahoe-lafs")], False)
    add("two-spaces", "lenient", [b"Tahoe-LAFS  " + b64], False)
    add("trailing-space", "lenient", [good + b" "], False)
    if b64.endswith(b"="):
        add("no-padding", "lenient", [b64 and (b"Tahoe-LAFS " + b64.rstrip(b"="))], False)
    add("wrong-then-right", "lenient", [auth_value(rbytes(rng, len(S))), good], False)
    add("right-then-wrong", "lenient", [good, auth_value(rbytes(rng, len(S)))], False)
    return out


XT = "X-Tahoe-Authorization"


def secret_classes(req, rng):
    """[(class, [(header, value)...], kind)] of X-Tahoe-Authorization sets for a
    request whose correct secrets are req['secrets'] (list of (kind, value)).
    kind: 'bad' (must be rejected) | 'dup-conflict' | 'dup-same' (not judged)."""
    from vf.http import secret_value, SECRET_KINDS
    good = list(req["secrets"])
    out = []

    def hdrs(pairs):
        return [(XT, secret_value(k, v)) for k, v in pairs]

    for i, (k, _v) in enumerate(good):
        out.append(("missing-" + k, hdrs(good[:i] + good[i + 1:]), "bad"))
    if len(good) > 1:
        out.append(("missing-all", [], "bad"))
    out.append(("unknown-kind-added", hdrs(good) + [(XT, secret_value(b"foo-secret", rbytes(rng, 32)))], "bad"))
    absent = [k for k in ("renew", "cancel", "upload", "we") if k not in [g[0] for g in good]]
    if absent:
        k = rng.choice(absent)
        out.append(("extra-kind-" + k, hdrs(good) + hdrs([(k, rbytes(rng, 32))]), "bad"))
    for i, (k, v) in enumerate(good):
        rest = hdrs(good[:i] + good[i + 1:])
        name = SECRET_KINDS[k]
        out.append(("unknown-kind-instead-of-" + k, rest + [(XT, secret_value(b"x-" + name, v))], "bad"))
        out.append(("b64-garbage-" + k, rest + [(XT, name + b" !!!!")], "bad"))          # decodes to b""
        out.append(("b64-bad-padding-" + k, rest + [(XT, name + b" abcde")], "bad"))      # binascii.Error
        out.append(("empty-value-" + k, rest + [(XT, name + b" ")], "bad"))
        out.append(("no-separator-" + k, rest + [(XT, name)], "bad"))
        out.append(("kind-case-" + k, rest + [(XT, name.upper() + b" " + base64.b64encode(v))], "bad"))
        if k in ("renew", "cancel"):
            for n in (31, 33, 1, 64):
                out.append(("lease-secret-len-%d-%s" % (n, k), rest + hdrs([(k, (v * 3)[:n])]), "bad"))
        other = rbytes(rng, len(v))
        if True:
            out.append(("dup-wrong-then-right-" + k, rest + hdrs([(k, other), (k, v)]), "dup-conflict"))
            out.append(("dup-right-then-wrong-" + k, rest + hdrs([(k, v), (k, other)]), "dup-conflict"))
        if req.get("idempotent"):
            out.append(("dup-identical-" + k, rest + hdrs([(k, v), (k, v)]), "dup-same"))
    return out


def wrong_secret_variants(v, rng):
    """secrets that are close to, but not, v."""
    out = [("random-same-length", rbytes(rng, len(v))),
           ("bit-off", flip_bit(v, rng.randrange(len(v) * 8))),
           ("truncated", v[:-1]), ("first-byte", v[:1]),
           ("extended", v + b"\0"), ("doubled", v + v)]
    return [(n, w) for n, w in out if w and w != v]


# ----------------------------------------------------------------- the case

class State(object):
    pass


def window_set(blobs, w=12):
    s = set()
    for b in blobs:
        for i in range(0, max(0, len(b) - w + 1)):
            s.add(b[i:i + w])
    return s


def leaks(body, windows, w=12):
    if not body or len(body) < w:
        return False
    for i in range(len(body) - w + 1):
        if body[i:i + w] in windows:
            return True
    return False


def run(ck):
    from vf.http import HttpStorage, auth_value, secret_value, b32si, cbor_dumps
    from allmydata.storage.http_server import HTTPServer
    from allmydata.storage.http_client import (TestWriteVectors, WriteVector, ReadVector)

    ck.rule = ("case = seeded legitimate history (complete immutable upload, in-progress immutable upload kept open, "
               "mutable slot, leases) with hostile batches between its steps; hostile request = (route request that "
               "succeeds with correct headers) x (Authorization class | secret class | wrong upload secret | wrong "
               "write enabler); distinct = (route request, class, position in the history); every hostile request "
               "is non-trivial because its correctly-authorized twin is shown to succeed (positive control)")
    rng0 = ck.rng("c30")
    ncases = 3 if ck.tier == "quick" else 64
    routes_in_map = {}
    for r in HTTPServer._app.url_map.iter_rules():
        routes_in_map.setdefault(r.endpoint, set()).update(r.methods or ())
    ck.extra["routes_in_url_map"] = len(routes_in_map)
    covered_routes = set()
    auth_families = set()

    for case_no in range(ncases):
        case_seed = rng0.getrandbits(48)
        if not ck.mine(case_no):
            continue
        if ck.out_of_time():
            break
        with ck.watchdog(150, "case %d" % case_no):
            one_case(ck, case_no, case_seed, routes_in_map, covered_routes, auth_families,
                     HttpStorage, auth_value, secret_value, b32si, cbor_dumps,
                     TestWriteVectors, WriteVector, ReadVector)

    missing = sorted(set(routes_in_map) - covered_routes)
    ck.extra["routes_covered"] = len(covered_routes & set(routes_in_map))
    ck.extra["authorization_families"] = sorted(auth_families)
    if missing and ck.evaluations:
        ck.inconclusive_because("routes of the URL map without a request in this check: %r" % (missing,))
    ck.require_monitor("no-swissnum:status", "no-swissnum:state", "no-swissnum:share-bytes",
                       "bad-secrets:state", "wrong-upload-secret:state", "wrong-write-enabler:state",
                       "legit-upload-intact", "positive-control")
    ck.require_reach("rejected-401", "rejected-400", "upload-secret-mismatch-rejected",
                     "write-enabler-mismatch-rejected", "legit-upload-finished-after-attacks",
                     "share-byte-search-fires-on-authorized-read",
                     "write-enabler-mismatch-rejected-for-absent-share-numbers",
                     "stale-secret-rejected-after-abort", "stale-secret-rejected-after-timeout",
                     "reallocated-upload-finished-by-new-uploader")
    ck.require_monitor("current-uploader-accepted")
    ck.exhaustive = False


def one_case(ck, case_no, case_seed, routes_in_map, covered_routes, auth_families,
             HttpStorage, auth_value, secret_value, b32si, cbor_dumps,
             TestWriteVectors, WriteVector, ReadVector):
    import random
    rng = random.Random("c30-case/%d" % case_seed)
    alphabet = b"abcdefghijklmnopqrstuvwxyz234567"
    swiss = bytes(rng.choice(alphabet) for _ in range(rng.choice([4, 16, 32, 52])))
    h = HttpStorage(swissnum=swiss, nodeid=rbytes(rng, 20))
    st = State()
    GOOD = [("Authorization", auth_value(swiss))]
    try:
        # ------------------------------------------------ legitimate set-up
        def must(what, res):
            s, v = res
            if s != "ok":
                raise LegitFailure("%s: %s %r" % (what, s, v))
            return v

        st.R, st.C = rbytes(rng, 32), rbytes(rng, 32)
        st.done_si, st.prog_si, st.mut_si = rbytes(rng, 16), rbytes(rng, 16), rbytes(rng, 16)
        st.done_size = rng.choice([33, 64, 200, 300])
        st.done = {n: rbytes(rng, st.done_size) for n in (0, 1)}
        st.U_done = rbytes(rng, 20)
        must("create", h.drive(h.imm.create(st.done_si, set(st.done), st.done_size, st.U_done, st.R, st.C)))
        for n, data in st.done.items():
            p = must("write", h.drive(h.imm.write_share_chunk(st.done_si, n, st.U_done, 0, data)))
            if not p.finished:
                raise LegitFailure("complete write not reported finished")
        st.U = rbytes(rng, rng.choice([16, 20, 32]))
        st.prog_size = rng.choice([96, 128, 257])
        st.prog = {n: rbytes(rng, st.prog_size) for n in (2, 3)}
        st.prog_written = {2: 0, 3: 0}       # contiguous prefix written so far
        must("create-prog", h.drive(h.imm.create(st.prog_si, set(st.prog), st.prog_size, st.U, st.R, st.C)))

        def legit_write(n, upto):
            a = st.prog_written[n]
            if upto <= a:
                return None
            p = must("write-prog", h.drive(h.imm.write_share_chunk(st.prog_si, n, st.U, a, st.prog[n][a:upto])))
            st.prog_written[n] = upto
            return p
        legit_write(2, rng.randint(1, st.prog_size // 3))
        legit_write(3, rng.randint(1, st.prog_size // 3))
        st.WE = rbytes(rng, 32)
        st.mut = {n: rbytes(rng, rng.choice([40, 100, 180])) for n in (0, 1)}
        r = must("rtw-create", h.drive(h.mut.read_test_write_chunks(
            st.mut_si, st.WE, st.R, st.C,
            {n: TestWriteVectors(write_vectors=[WriteVector(offset=0, data=d)]) for n, d in st.mut.items()}, [])))
        if not r.success:
            raise LegitFailure("mutable create failed")
        st.extra_blobs = []

        def windows():
            blobs = list(st.done.values()) + list(st.mut.values()) + list(st.extra_blobs)
            blobs += [st.prog[n][:st.prog_written[n]] for n in st.prog]
            return window_set(blobs)

        # ------------------------------------------------ request table
        def build_requests():
            reqs = []

            def add(route, tag, method, path, secrets=(), headers=(), body=None, **kw):
                reqs.append(dict(route=route, tag=tag, method=method, path=path, secrets=list(secrets),
                                 headers=list(headers), body=body, **kw))
            sd, sp, sm = b32si(st.done_si), b32si(st.prog_si), b32si(st.mut_si)
            Rn, Cn, Un = rbytes(rng, 32), rbytes(rng, 32), rbytes(rng, 20)
            add("version", "get", "GET", "/storage/v1/version", idempotent=True)
            add("version", "head", "HEAD", "/storage/v1/version", idempotent=True)
            alloc = cbor_dumps({"share-numbers": {0, 5}, "allocated-size": 48})
            add("allocate_buckets", "new-si", "POST", "/storage/v1/immutable/" + b32si(rbytes(rng, 16)),
                [("renew", Rn), ("cancel", Cn), ("upload", Un)], [CBOR_CT], alloc, dup_ok=True)
            add("allocate_buckets", "existing-si-new-lease", "POST", "/storage/v1/immutable/" + sd,
                [("renew", Rn), ("cancel", Cn), ("upload", Un)], [CBOR_CT],
                cbor_dumps({"share-numbers": {0, 1, 4}, "allocated-size": st.done_size}))
            add("allocate_buckets", "in-progress-si-other-share", "POST", "/storage/v1/immutable/" + sp,
                [("renew", Rn), ("cancel", Cn), ("upload", Un)], [CBOR_CT],
                cbor_dumps({"share-numbers": {2, 3, 9}, "allocated-size": st.prog_size}))
            n = rng.choice([2, 3])
            add("abort_share_upload", "in-progress", "PUT", "/storage/v1/immutable/%s/%d/abort" % (sp, n),
                [("upload", st.U)], destructive=True)
            a = st.prog_written[3]
            b = min(st.prog_size - 1, a + rng.randint(1, 24))      # never completes share 3
            add("write_share_data", "next-chunk", "PATCH", "/storage/v1/immutable/%s/3" % sp,
                [("upload", st.U)], [("Content-Range", "bytes %d-%d/*" % (a, b - 1))], st.prog[3][a:b],
                advances=("chunk", b))
            add("write_share_data", "rewrite-identical", "PATCH", "/storage/v1/immutable/%s/2" % sp,
                [("upload", st.U)], [("Content-Range", "bytes 0-%d/*" % (st.prog_written[2] - 1))],
                st.prog[2][:st.prog_written[2]], idempotent=True, dup_ok=True)
            add("list_shares", "complete", "GET", "/storage/v1/immutable/%s/shares" % sd, idempotent=True)
            add("list_shares", "in-progress", "GET", "/storage/v1/immutable/%s/shares" % sp, idempotent=True)
            add("read_share_chunk", "range", "GET", "/storage/v1/immutable/%s/0" % sd,
                headers=[("Range", "bytes=0-%d" % (st.done_size - 1))], idempotent=True, returns_data=True)
            add("read_share_chunk", "whole", "GET", "/storage/v1/immutable/%s/1" % sd, idempotent=True,
                returns_data=True)
            add("read_share_chunk", "head", "HEAD", "/storage/v1/immutable/%s/1" % sd, idempotent=True)
            add("add_or_renew_lease", "immutable", "PUT", "/storage/v1/lease/" + sd,
                [("renew", Rn), ("cancel", Cn)], dup_ok=True)
            add("add_or_renew_lease", "mutable", "PUT", "/storage/v1/lease/" + sm,
                [("renew", Rn), ("cancel", Cn)], dup_ok=True)
            add("advise_corrupt_share_immutable", "existing", "POST", "/storage/v1/immutable/%s/0/corrupt" % sd,
                headers=[CBOR_CT], body=cbor_dumps({"reason": "c30 says so ☃"}))
            nw = rbytes(rng, 24)
            add("mutable_read_test_write", "overwrite", "POST", "/storage/v1/mutable/%s/read-test-write" % sm,
                [("we", st.WE), ("renew", st.R), ("cancel", st.C)], [CBOR_CT],
                cbor_dumps({"test-write-vectors": {0: {"test": [], "write": [{"offset": 3, "data": nw}],
                                                       "new-length": None}},
                            "read-vector": [{"offset": 0, "size": 400}]}),
                advances=("mut", 0, 3, nw), returns_data=True)
            add("mutable_read_test_write", "delete-share", "POST", "/storage/v1/mutable/%s/read-test-write" % sm,
                [("we", st.WE), ("renew", st.R), ("cancel", st.C)], [CBOR_CT],
                cbor_dumps({"test-write-vectors": {1: {"test": [], "write": [], "new-length": 0}},
                            "read-vector": []}), destructive=True)
            # the slot exists, the vectors name only share numbers it does not hold: a new share in somebody's slot
            absent = [n for n in range(2, 12) if n not in st.mut]
            pa = rng.sample(absent, 2)
            add("mutable_read_test_write", "new-share-in-existing-slot", "POST",
                "/storage/v1/mutable/%s/read-test-write" % sm,
                [("we", st.WE), ("renew", st.R), ("cancel", st.C)], [CBOR_CT],
                cbor_dumps({"test-write-vectors": {pa[0]: {"test": [{"offset": 0, "size": 1, "specimen": b""}],
                                                           "write": [{"offset": 0, "data": rbytes(rng, 40)}],
                                                           "new-length": None}},
                            "read-vector": []}), destructive=True)
            add("mutable_read_test_write", "two-new-shares-in-existing-slot", "POST",
                "/storage/v1/mutable/%s/read-test-write" % sm,
                [("we", st.WE), ("renew", st.R), ("cancel", st.C)], [CBOR_CT],
                cbor_dumps({"test-write-vectors": {n: {"test": [], "write": [{"offset": 0, "data": rbytes(rng, 30)}],
                                                       "new-length": None} for n in pa},
                            "read-vector": [{"offset": 0, "size": 10}]}), destructive=True)
            add("mutable_read_test_write", "absent-share-first-existing-second", "POST",
                "/storage/v1/mutable/%s/read-test-write" % sm,
                [("we", st.WE), ("renew", st.R), ("cancel", st.C)], [CBOR_CT],
                cbor_dumps({"test-write-vectors": {pa[1]: {"test": [], "write": [{"offset": 0, "data": rbytes(rng, 30)}],
                                                           "new-length": None},
                                                   0: {"test": [], "write": [{"offset": 1, "data": rbytes(rng, 9)}],
                                                       "new-length": None}},
                            "read-vector": []}), destructive=True)
            add("mutable_read_test_write", "new-slot", "POST",
                "/storage/v1/mutable/%s/read-test-write" % b32si(rbytes(rng, 16)),
                [("we", rbytes(rng, 32)), ("renew", Rn), ("cancel", Cn)], [CBOR_CT],
                cbor_dumps({"test-write-vectors": {0: {"test": [], "write": [{"offset": 0, "data": b"new slot"}],
                                                       "new-length": None}}, "read-vector": []}), dup_ok=True)
            add("read_mutable_chunk", "range", "GET", "/storage/v1/mutable/%s/0" % sm,
                headers=[("Range", "bytes=0-%d" % (len(st.mut[0]) - 1))], idempotent=True, returns_data=True)
            add("read_mutable_chunk", "whole", "GET", "/storage/v1/mutable/%s/1" % sm, idempotent=True,
                returns_data=True)
            add("enumerate_mutable_shares", "existing", "GET", "/storage/v1/mutable/%s/shares" % sm,
                idempotent=True)
            add("advise_corrupt_share_mutable", "existing", "POST", "/storage/v1/mutable/%s/1/corrupt" % sm,
                headers=[CBOR_CT], body=cbor_dumps({"reason": "mutable looks wrong"}))
            return reqs

        def send(req, auth_values, secret_hdrs, extra=()):
            hdrs = [("Authorization", v) for v in auth_values] + list(secret_hdrs) + list(req["headers"]) + list(extra)
            resp = h.raw(req["method"], req["path"], hdrs, req["body"])
            h.settle(1)
            return resp

        cur = [fingerprint(h)]

        def judged_send(kind, req, cls, auth_values, secret_hdrs, win, judged=True, accept_key=None):
            """kind: no-swissnum | bad-secrets | wrong-upload-secret | wrong-write-enabler"""
            before = cur[0]
            resp = send(req, auth_values, secret_hdrs)
            after = fingerprint(h)
            cur[0] = after
            wit = {"route": req["route"], "request": req["tag"], "method": req["method"], "path": req["path"],
                   "class": cls, "authorization": list(auth_values),
                   "x-tahoe-authorization": [v for _k, v in secret_hdrs],
                   "status": resp.code, "body": (resp.body or b"")[:80], "swissnum": swiss}
            if resp.status != "ok":
                ck.observe("no-http-response:" + resp.status)
            accepted = resp.status == "ok" and resp.code is not None and resp.code < 400
            if not judged:
                ck.skip("lenient-spelling:" + cls + (":accepted" if accepted else ":rejected"))
                return resp
            ck.mon(kind + ":status")
            if resp.status == "ok":
                if resp.code == 401:
                    ck.hit("rejected-401")
                elif resp.code == 400:
                    ck.hit("rejected-400")
                elif 400 <= resp.code < 500:
                    ck.hit("rejected-other-4xx")
                elif resp.code >= 500:
                    ck.observe("hostile-request-5xx:%s:%s" % (req["route"], cls))
            if accepted and accept_key:
                ck.violation(accept_key,
                             "%s %s (%s): %s class %r (two different values for one secret kind) answered %s, "
                             "expected a 4xx rejection" % (req["method"], req["route"], req["tag"], kind, cls, resp.code),
                             wit)
                return resp
            if accepted:
                ck.violation(kind + "-request-accepted",
                             "%s %s (%s) with %s class %r answered %s, expected a 4xx rejection"
                             % (req["method"], req["route"], req["tag"], kind, cls, resp.code), wit)
            # share bytes only matter for requests lacking the swissnum: with it, reading needs no secret at all
            if kind == "no-swissnum":
                ck.mon(kind + ":share-bytes")
            if kind == "no-swissnum" and resp.status == "ok" and leaks(resp.body, win):
                ck.violation(kind + "-response-has-share-bytes",
                             "response to %s %s with %s class %r (status %s) contains stored share bytes"
                             % (req["method"], req["route"], kind, cls, resp.code), wit)
            ck.mon(kind + ":state")
            if before[0] != after[0]:
                wit["state_diff"] = fp_diff(before, after)
                ck.violation(kind + "-request-changed-state",
                             "%s %s (%s) with %s class %r (status %s) changed server state: %s"
                             % (req["method"], req["route"], req["tag"], kind, cls, resp.code,
                                sorted(wit["state_diff"])), wit)
            return resp

        # ------------------------------------------------ the history
        rounds = 3 if ck.tier == "quick" else 4
        for rnd in range(rounds):
            if ck.out_of_time():
                break
            reqs = build_requests()
            win = windows()
            # (1) every route x every Authorization class (correct secrets and body, so that only the swissnum is wrong)
            classes = auth_classes(swiss, rng)
            for req in reqs:
                covered_routes.add(req["route"])
                good_secrets = [(XT, secret_value(k, v)) for k, v in req["secrets"]]
                for cls, fam, values, judged in classes:
                    if not judged and not req.get("idempotent"):
                        continue    # a lenient spelling may legitimately be accepted: only try it where that is harmless
                    auth_families.add(fam)
                    judged_send("no-swissnum", req, cls, values, good_secrets, win, judged=judged)
                    ck.case("no-swissnum", key=(req["route"], req["tag"], cls, rnd, case_no), nontrivial=True,
                            sample={"route": req["route"], "class": cls, "authorization": list(values)[:1]})
            # (2) right swissnum, broken secret sets
            for req in reqs:
                for cls, shdrs, skind in secret_classes(req, rng):
                    if skind == "dup-same":
                        judged_send("bad-secrets", req, cls, [GOOD[0][1]], shdrs, win, judged=False)
                        continue
                    if skind == "dup-conflict" and not req.get("dup_ok"):
                        continue    # if the server picks one of the two values the request takes effect: only
                        #             try it where that cannot disturb the legitimate history
                    judged_send("bad-secrets", req, cls, [GOOD[0][1]], shdrs, win,
                                accept_key="conflicting-duplicate-secret-accepted" if skind == "dup-conflict" else None)
                    ck.case("bad-secrets", key=(req["route"], req["tag"], cls, rnd, case_no),
                            sample={"route": req["route"], "class": cls, "headers": [v for _k, v in shdrs][:3]})
            # (3) another client's upload secret against the in-progress upload
            for req in reqs:
                if req["route"] not in ("write_share_data", "abort_share_upload"):
                    continue
                for vn, wrong in wrong_secret_variants(st.U, rng):
                    r = judged_send("wrong-upload-secret", req, vn, [GOOD[0][1]],
                                    [(XT, secret_value("upload", wrong))], win)
                    if r.status == "ok" and r.code == 401:
                        ck.hit("upload-secret-mismatch-rejected")
                    ck.case("wrong-upload-secret", key=(req["route"], req["tag"], vn, rnd, case_no),
                            sample={"route": req["route"], "variant": vn})
            # conflicting data / completing writes with a wrong secret
            sp = b32si(st.prog_si)
            for n in (2, 3):
                a = st.prog_written[n]
                for tag, rng_hdr, body in (
                        ("complete-the-share", "bytes %d-%d/*" % (a, st.prog_size - 1), rbytes(rng, st.prog_size - a)),
                        ("overwrite-written", "bytes 0-%d/*" % (a - 1), rbytes(rng, a))):
                    req = dict(route="write_share_data", tag=tag, method="PATCH",
                               path="/storage/v1/immutable/%s/%d" % (sp, n), secrets=[], body=body,
                               headers=[("Content-Range", rng_hdr)])
                    for vn, wrong in wrong_secret_variants(st.U, rng)[:3]:
                        r = judged_send("wrong-upload-secret", req, vn, [GOOD[0][1]],
                                        [(XT, secret_value("upload", wrong))], win)
                        if r.status == "ok" and r.code == 401:
                            ck.hit("upload-secret-mismatch-rejected")
                        ck.case("wrong-upload-secret", key=("write", tag, n, vn, rnd, case_no))
            # (4) wrong write enabler
            for req in reqs:
                if req["route"] != "mutable_read_test_write" or req["tag"] == "new-slot":
                    continue
                for vn, wrong in wrong_secret_variants(st.WE, rng):
                    shdrs = [(XT, secret_value(k, wrong if k == "we" else v)) for k, v in req["secrets"]]
                    r = judged_send("wrong-write-enabler", req, vn, [GOOD[0][1]], shdrs, win)
                    if r.status == "ok" and r.code == 401:
                        ck.hit("write-enabler-mismatch-rejected")
                        if "new-share" in req["tag"]:
                            ck.hit("write-enabler-mismatch-rejected-for-absent-share-numbers")
                    ck.case("wrong-write-enabler", key=(req["tag"], vn, rnd, case_no),
                            sample={"request": req["tag"], "variant": vn})
            # (5) legitimate progress between batches
            step = rng.choice(["chunk", "chunk", "mut", "lease", "alloc", "time"])
            if step == "chunk":
                n = rng.choice([2, 3])
                legit_write(n, min(st.prog_size - 1, st.prog_written[n] + rng.randint(1, 20)))
            elif step == "mut":
                nw = rbytes(rng, 30)
                off = rng.randint(0, 20)
                r = must("rtw", h.drive(h.mut.read_test_write_chunks(
                    st.mut_si, st.WE, st.R, st.C,
                    {0: TestWriteVectors(write_vectors=[WriteVector(offset=off, data=nw)])}, [ReadVector(0, 10)])))
                d = bytearray(st.mut[0])
                d[off:off + len(nw)] = nw
                st.mut[0] = bytes(d)
            elif step == "lease":
                must("lease", h.drive(h.gen.add_or_renew_lease(st.done_si, rbytes(rng, 32), rbytes(rng, 32))))
            elif step == "alloc":
                si = rbytes(rng, 16)
                blob = rbytes(rng, 50)
                u = rbytes(rng, 20)
                must("create2", h.drive(h.imm.create(si, {0}, 50, u, st.R, st.C)))
                must("write2", h.drive(h.imm.write_share_chunk(si, 0, u, 0, blob)))
                st.extra_blobs.append(blob)
            else:
                env.reactor.advance(rng.choice([1.0, 61.0, 600.0]))   # < 30 min: uploads stay open
            h.settle(1)
            cur[0] = fingerprint(h)

        # ------------------------------------------------ after the attacks: the legitimate uploader finishes
        ck.mon("legit-upload-intact")
        ok = True
        for n in (2, 3):
            p = h.drive(h.imm.write_share_chunk(st.prog_si, n, st.U, st.prog_written[n],
                                                st.prog[n][st.prog_written[n]:]))
            if p[0] != "ok" or not p[1].finished:
                ok = False
                ck.violation("legit-upload-damaged",
                             "after the hostile requests the legitimate uploader could not finish its upload",
                             {"share": n, "result": repr(p)[:300], "swissnum": swiss})
                continue
            rd = h.drive(h.imm.read_share_chunk(st.prog_si, n, 0, st.prog_size + 10))
            if rd[0] != "ok" or rd[1] != st.prog[n]:
                ok = False
                ck.violation("legit-upload-damaged",
                             "share finished by the legitimate uploader reads back different bytes",
                             {"share": n, "expected": st.prog[n], "got": repr(rd)[:300]})
        for n, d in st.done.items():
            rd = h.drive(h.imm.read_share_chunk(st.done_si, n, 0, st.done_size))
            if rd[0] != "ok" or rd[1] != d:
                ok = False
                ck.violation("stored-share-damaged", "completed immutable share changed during the attacks",
                             {"share": n, "got": repr(rd)[:200]})
        for n, d in st.mut.items():
            rd = h.drive(h.mut.read_share_chunk(st.mut_si, n, 0, len(d) + 50))
            if rd[0] != "ok" or rd[1] != d:
                ok = False
                ck.violation("stored-share-damaged", "mutable share changed during the attacks",
                             {"share": n, "got": repr(rd)[:200], "expected": d})
        if ok:
            ck.hit("legit-upload-finished-after-attacks")
        ck.case("legit-history", key=("legit", case_no, case_seed), sample={"swissnum": swiss, "rounds": rounds})

        # ------------------------------------------------ stale upload secret after abort / timeout + re-allocation
        # client A uploads shares {1, 2}; share 1 is aborted (or times out) while share 2 stays in progress; client B
        # re-allocates share 1 with its own secret.  From then on only B's secret may write to / abort share 1.
        def stale_secret_family(variant):
            si = rbytes(rng, 16)
            sz = rng.choice([64, 100, 200])
            SA, SB = rbytes(rng, 20), rbytes(rng, 20)
            dA = {1: rbytes(rng, sz), 2: rbytes(rng, sz)}
            dB = rbytes(rng, sz)
            r = must("stale:create-A", h.drive(h.imm.create(si, {1, 2}, sz, SA, st.R, st.C)))
            if set(r.allocated) != {1, 2}:
                raise LegitFailure("stale: A's allocation gave %r" % (r,))
            for n in (1, 2):
                must("stale:write-A", h.drive(h.imm.write_share_chunk(si, n, SA, 0, dA[n][:10])))
            if variant == "abort":
                must("stale:abort-A", h.drive(h.imm.abort_upload(si, 1, SA)))
            else:
                env.reactor.advance(29 * 60)
                h.settle(1)
                must("stale:keepalive-A", h.drive(h.imm.write_share_chunk(si, 2, SA, 10, dA[2][10:20])))
                env.reactor.advance(2 * 60)      # share 1: 31 minutes idle -> timed out; share 2: 2 minutes idle
                h.settle(1)
            r = must("stale:create-B", h.drive(h.imm.create(si, {1}, sz, SB, rbytes(rng, 32), rbytes(rng, 32))))
            if set(r.allocated) != {1}:
                ck.observe("stale:share-not-reallocatable-after-" + variant)
                return
            ck.hit("share-reallocated-after-" + variant)
            ck.mon("current-uploader-accepted")
            w = h.drive(h.imm.write_share_chunk(si, 1, SB, 0, dB[:10]))
            if w[0] != "ok":
                ck.violation("current-upload-secret-refused",
                             "after %s of share 1 and its re-allocation by another client, the new uploader's own "
                             "secret is refused: %s" % (variant, repr(w)[:200]),
                             {"variant": variant, "sibling_in_progress": 2, "result": repr(w)[:300]})
            h.settle(1)
            cur[0] = fingerprint(h)
            sp = b32si(si)
            hostile = [("stale-secret-of-previous-upload", SA)] + wrong_secret_variants(SB, rng)[:3]
            for tag, method, path, hdrs, body in (
                    ("next-chunk", "PATCH", "/storage/v1/immutable/%s/1" % sp,
                     [("Content-Range", "bytes 10-29/*")], rbytes(rng, 20)),
                    ("overwrite-written", "PATCH", "/storage/v1/immutable/%s/1" % sp,
                     [("Content-Range", "bytes 0-9/*")], rbytes(rng, 10)),
                    ("complete-the-share", "PATCH", "/storage/v1/immutable/%s/1" % sp,
                     [("Content-Range", "bytes 10-%d/*" % (sz - 1))], rbytes(rng, sz - 10)),
                    ("abort", "PUT", "/storage/v1/immutable/%s/1/abort" % sp, [], None)):
                req = dict(route="abort_share_upload" if method == "PUT" else "write_share_data",
                           tag="reallocated-share:" + tag, method=method, path=path, secrets=[], headers=hdrs, body=body)
                for vn, wrong in hostile:
                    r = judged_send("wrong-upload-secret", req, vn + "-after-" + variant, [GOOD[0][1]],
                                    [(XT, secret_value("upload", wrong))], None)
                    if r.status == "ok" and r.code == 401 and wrong == SA:
                        ck.hit("stale-secret-rejected-after-" + variant)
                    ck.case("wrong-upload-secret", key=("stale", variant, tag, vn, case_no),
                            sample={"variant": variant, "request": tag, "secret": vn})
            # B's secret is not A's: the sibling share still belongs to A
            req = dict(route="write_share_data", tag="sibling-share-with-other-clients-secret", method="PATCH",
                       path="/storage/v1/immutable/%s/2" % sp, secrets=[], body=rbytes(rng, 5),
                       headers=[("Content-Range", "bytes 30-34/*")])
            judged_send("wrong-upload-secret", req, "other-uploaders-secret-after-" + variant, [GOOD[0][1]],
                        [(XT, secret_value("upload", SB))], None)
            # both uploaders finish; the shares are theirs
            ck.mon("legit-upload-intact")
            fine = True
            for n, sec, data, frm in ((1, SB, dB, 10), (2, SA, dA[2], 20 if variant == "timeout" else 10)):
                p = h.drive(h.imm.write_share_chunk(si, n, sec, frm, data[frm:]))
                rd = h.drive(h.imm.read_share_chunk(si, n, 0, sz + 5))
                if p[0] != "ok" or not p[1].finished or rd[0] != "ok" or rd[1] != data:
                    fine = False
                    ck.violation("legit-upload-damaged",
                                 "after re-allocation (%s variant) the rightful uploader of share %d could not finish, "
                                 "or the share reads back different bytes" % (variant, n),
                                 {"variant": variant, "share": n, "write": repr(p)[:200], "read": repr(rd)[:120]})
            if fine:
                ck.hit("reallocated-upload-finished-by-new-uploader")
            h.settle(1)
            cur[0] = fingerprint(h)

        for variant in ("abort", "timeout"):
            stale_secret_family(variant)

        # ------------------------------------------------ positive controls: the same requests, correct headers
        # (a fresh in-progress upload for the write / abort routes, as the old one is complete now)
        st.prog_si = rbytes(rng, 16)
        st.prog = {n: rbytes(rng, st.prog_size) for n in (2, 3)}
        st.prog_written = {2: 0, 3: 0}
        must("create-prog2", h.drive(h.imm.create(st.prog_si, {2, 3}, st.prog_size, st.U, st.R, st.C)))
        legit_write(2, 10)
        legit_write(3, 10)
        reqs = build_requests()
        reqs.sort(key=lambda q: bool(q.get("destructive")))     # abort / delete last
        for req in reqs:
            good_secrets = [(XT, secret_value(k, v)) for k, v in req["secrets"]]
            resp = send(req, [GOOD[0][1]], good_secrets)
            ck.mon("positive-control")
            if resp.status != "ok" or resp.code is None or not (200 <= resp.code < 300):
                ck.inconclusive_because("positive control failed: %s %s (%s) with correct headers answered %r %r"
                                        % (req["method"], req["route"], req["tag"], resp.code, (resp.body or b"")[:120]))
            else:
                ck.hit("positive-control-2xx:" + req["route"])
                if req.get("returns_data") and leaks(resp.body, windows()):
                    ck.hit("share-byte-search-fires-on-authorized-read")
    except LegitFailure as e:
        # the legitimate client itself failed: either an earlier (reported) violation or a harness problem
        if not ck.violations:
            ck.inconclusive_because("legitimate operation failed: %s" % (e,))
        else:
            ck.observe("legit-op-failed-after-violation")
    finally:
        h.close()


class LegitFailure(Exception):
    pass


# MUST_CATCH (selftest/breaks_c30.py, 17 planted breaks + seeded/C30-1, seeded/C30-2; all caught):
#   swissnum: comparison removed; only the first 16 header characters compared; any prefix of the right header
#     accepted; right header followed by junk accepted; header compared case-insensitively (= seeded/C30-1: base64
#     text differing only in letter case); /corrupt routes without the check; GET routes without it
#   upload secret: abort does not validate it; never validated; only its first byte compared; previous uploader's
#     secret survives abort/timeout + re-allocation of the share number (seeded/C30-2, stale-secret family)
#   write enabler: not checked (server.py); only a prefix compared (mutable.py); checked only for the share numbers
#     named in the vectors (seeded/C30-5: wrong enabler plants a new share in an existing slot)
#   secrets: extra kinds tolerated; unknown kinds ignored; lease-secret length unchecked; empty secret accepted;
#     undecodable secret headers replaced by a default
# Finding on the originally pinned tree (fixed in /repo since): conflicting-duplicate-secret-accepted
