"""C14 mutable check and repair preserve the newest content."""
META = {
    "level": "exploration",
    "technique": "runtime monitoring of real check / repair / check_and_repair runs on composed grids (stale, missing, competing and corrupted shares); health, refusal and post-repair expectations are computed from the harness's own composition record, the wire log and an independent share parser",
    "text": "A history of up to 5 versions plus competing versions with equal sequence numbers (published by a second writer from a restored older state) is recorded with share-directory snapshots. Grids are composed from the snapshots (per server: some version, empty, unreachable) and selected shares are corrupted (signed header fields: dropped by any survey; signature bytes: consulted only for the first share of a version, left open; block, MDMF salt, block-hash tree, share-hash chain: detectable only by verification). On each composition fresh clients run check(verify=False/True), repair(check_results, force=False/True) and check_and_repair(verify). Oracles: is_healthy() <=> among the shares on servers that answered the survey there is exactly one version, it has N distinct valid shares, no share of another version exists (and with verify: no corrupt share); is_recoverable() <=> some version has k distinct valid shares; an unforced repair must not report success or send any write when an unrecoverable version with a higher sequence number than every recoverable one exists, or when two recoverable versions share the highest sequence number; after a successful repair a fresh reader gets the content of the best pre-repair version, and N distinct shares of the newly written version are on disk and suffice alone for that read.",
    "note": "Ground truth: composition and corruption record of the harness, publish history, wire log, independent struct-level parser. Corruption of bytes no checker consults (verification key copies after the first, encrypted private key, padding) is not generated for the health oracle. RSA keys from a fixed pool, salts from a seeded stream. Sampled exploration.",
}
LEVEL = "exploration"
BUDGET = {"quick": 42, "thorough": 240}
SHARDS = {"quick": 1, "thorough": 12}
MIN_CASES = {"quick": 600, "thorough": 0}

from vf import env  # noqa
import os

# One directed family per mechanism that a planted or seeded change has broken so far (every other round), general
# families in between.  Each directed family has a required reach counter.
DIRECTED = ["newest-unrecoverable", "newest-unrecoverable-dup-copies", "same-seqnum-top", "same-seqnum-top-plus-older",
            "corrupt-privkey", "corrupt-deep", "newest-plus-stale-extras", "newest-unrecoverable-dup-copies",
            "newest-plus-recoverable-extras", "same-seqnum-top-plus-older", "older-first-in-order", "missing-some",
            "corrupt-duplicate", "corrupt-newest-complete-older"]
OTHER = ["healthy", "old-and-new", "corrupt-invalid", "random", "same-seqnum-lower", "unreachable", "older-first-in-order",
         "old-and-new"]
FAMILIES = DIRECTED + OTHER
MAX_STEPS = 3000      # scheduler steps per operation (a check/repair here needs a few hundred): a client that loops
#                       forever (see C10 read-never-completes) must not stall the run
INVALID_KINDS = ["hdr"]                       # signed fields edited: every survey drops the share
DEEP_KINDS = ["block", "salt", "bht", "chain"]  # found by verification only
PRIVKEY_KINDS = ["encprivkey"]   # found only by a verifying check that holds the write-cap; generated only by the family
#                                  'corrupt-privkey', which runs exactly that operation
VERIFY_KINDS = DEEP_KINDS + PRIVKEY_KINDS
OPEN_KINDS = ["sig"]   # signature bytes are consulted only for the first share of a version a survey processes:
#                        whether such a share counts is left open (both readings are evaluated, disagreement => skip)


def run(ck):
    import allmydata.mutable.publish as publish_mod
    default_seg = publish_mod.DEFAULT_MUTABLE_MAX_SEGMENT_SIZE
    real_os = publish_mod.os
    from vf.checks._mut import virtual_time_on
    undo_time = virtual_time_on()
    ck.rule = ("history = (format, k<=N<=10, 3..10 servers, 1..5 versions, 0..2 competing same-seqnum versions); "
               "composition = per-server (version | empty | unreachable) + per-share corruption kind, from directed and "
               "random families; operations = check(verify), repair(force), check_and_repair(verify) by fresh clients; "
               "distinct = (k, N, servers, composition, corruption, operation, flags); non-trivial = not the pristine "
               "newest grid")
    counter = [ck.shard * 4, 0]
    i = 0
    try:
        # on a loaded machine the budget alone gave 230 histories (seed 21 sweep): two directed families were never
        # reached and the run was inconclusive; keep going to a minimum number of cases (bounded by 4x the budget)
        while ck.more(min_cases=MIN_CASES[ck.tier]):
            i += 1
            if not ck.mine(i):
                continue
            rng = ck.rng("case", i)
            h = History(ck, rng, counter, publish_mod)
            try:
                with ck.watchdog(240, "history %d %r" % (i, h.p)):
                    h.run()
            finally:
                h.close()
                publish_mod.DEFAULT_MUTABLE_MAX_SEGMENT_SIZE = default_seg
                publish_mod.os = real_os
            if ck.tier == "quick" and ck.evaluations >= 800:
                break
    finally:
        publish_mod.DEFAULT_MUTABLE_MAX_SEGMENT_SIZE = default_seg
        publish_mod.os = real_os
        undo_time()
    ck.observe("eventual-exceptions", len(env.evq.exceptions))
    ck.require_monitor("health-oracle", "recoverable-oracle", "unforced-repair-refusal-oracle", "post-repair-oracle",
                       "post-repair-results-oracle")
    ck.require_reach("healthy-reported", "unhealthy-reported", "verify-found-corrupt-share",
                     "unforced-repair-refused-newer-unrecoverable", "unforced-repair-refused-same-seqnum",
                     "forced-repair-over-newer-unrecoverable", "forced-repair-with-same-seqnum-competitors",
                     "repair-succeeded", "repair-replaced-corrupt-share", "check-and-repair-repaired",
                     "post-repair-n-distinct-shares-alone-suffice", "verify-found-corrupt-private-key",
                     "unforced-repair-refused-newer-unrecoverable-version-with-k-share-copies",
                     "unforced-repair-refused-same-seqnum-with-a-third-recoverable-version",
                     "check-and-repair-refused-to-repair", "unhealthy-only-because-of-older-unrecoverable-shares",
                     "repair-succeeded-with-an-older-version-on-the-servers-asked-first")


def gen_params(rng):
    fmt = rng.choice(["SDMF", "MDMF"])
    k, n = rng.choice([(1, 2), (1, 3), (2, 3), (2, 4), (2, 6), (3, 5), (3, 7), (3, 10), (2, 5), (1, 4), (2, 4), (2, 6),
                       (3, 7)])
    nservers = rng.choice([3, 4, 5, 6, 8, 10, max(3, n), max(3, n + 1)])
    nver = rng.choice([1, 2, 2, 3, 3, 3, 4, 4, 5])
    sizes = [rng.randint(8, 400) for _ in range(nver)]
    return dict(fmt=fmt, k=k, n=n, nservers=nservers, segsize=rng.choice([30, 64, 128, 1000]), sizes=sizes,
                nforks=rng.choice([0, 1, 1, 1, 2, 2, 2]))


def corrupt_raw(M, raw, kind, rng):
    """raw container bytes with one corruption of the given kind, or None when not applicable."""
    ms = M.MutShare(raw=raw)
    if ms.fmt is None:
        return None
    if kind == "sig":
        s, e = ms.regions()["signature"]
        ms.flip(s + rng.randrange(e - s), 1 << rng.randrange(8))
    elif kind == "hdr":
        names = ["seqnum", "root_hash", "k", "N", "segsize", "datalen"] + (["IV"] if ms.fmt == "SDMF" else [])
        name = rng.choice(names)
        off, ln = ms.field_span(name)
        if name == "seqnum":
            ms.set_field("seqnum", ms.f["seqnum"] + rng.choice([1, 2, 100]))
        else:
            ms.flip(off + rng.randrange(ln), 1 << rng.randrange(8))
            ms.parse()
    elif kind in ("block", "salt"):
        n = ms.num_segments()
        if not n or (kind == "salt" and ms.fmt != "MDMF"):
            return None
        salt_span, (bs, be) = ms.block_span(rng.randrange(n))
        if kind == "salt":
            ms.flip(salt_span[0] + rng.randrange(16), 1 << rng.randrange(8))
        else:
            if be <= bs:
                return None
            ms.flip(bs + rng.randrange(be - bs), 1 << rng.randrange(8))
    elif kind == "bht":
        s, e = ms.regions()["block_hash_tree"]
        if e <= s:
            return None
        ms.flip(s + rng.randrange(e - s), 1 << rng.randrange(8))
    elif kind == "encprivkey":
        s, e = ms.regions()["enc_privkey"]
        if e <= s:
            return None
        ms.flip(s + rng.randrange(e - s), 1 << rng.randrange(8))
    elif kind == "chain":
        s, e = ms.regions()["share_hash_chain"]
        n = (e - s) // 34
        if n <= 0:
            return None
        ms.flip(s + rng.randrange(n) * 34 + 2 + rng.randrange(32), 1 << rng.randrange(8))
    else:
        return None
    return ms.to_raw()


class History(object):
    def __init__(self, ck, rng, counter, publish_mod):
        self.ck, self.rng, self.counter, self.publish_mod = ck, rng, counter, publish_mod
        self.p = gen_params(rng)
        self.g = None

    def close(self):
        if self.g is not None:
            self.g.close()
            self.g = None

    # ------------------------------------------------------------ build
    def build(self):
        from vf.grid import VGrid
        from vf.checks import _mut as M
        from allmydata.mutable.publish import MutableData
        ck, rng, p = self.ck, self.rng, self.p
        self.M = M
        M.use_fixed_keypool(rng.randrange(10))
        self.publish_mod.os = M.DetOS(ck.rng("salts", rng.getrandbits(32)))
        self.publish_mod.DEFAULT_MUTABLE_MAX_SEGMENT_SIZE = p["segsize"]
        self.g = g = VGrid(nservers=p["nservers"], seed=rng.getrandbits(32), profile="free", keep_log=True)
        self.sched_rng = ck.rng("sched", rng.getrandbits(32))
        g.sched.chooser = M.ev_first_chooser(self.sched_rng)
        c = g.make_client(k=p["k"], happy=1, n=p["n"], mutable_format=p["fmt"])
        plain = []
        for s in p["sizes"]:
            b = rng.randbytes(s)
            while b in plain:
                b = rng.randbytes(s)
            plain.append(b)
        node, snaps, done = M.publish_history(g, c, plain, ck.observe)
        if node is None or not snaps:
            ck.observe("create-failed")
            return False
        self.si = node.get_storage_index()
        self.writer_node = node
        self.rw_uri, self.ro_uri = node.get_uri(), node.get_readonly_uri()
        # versions: dict(seq, root, k, N, content, snap, fork_of)
        self.versions = []
        for j, snap in enumerate(snaps):
            vid = M.version_of_snapshot(snap)
            if vid is None:
                ck.observe("snapshot-not-single-version")
                return False
            self.versions.append(dict(seq=vid[0], root=vid[1], k=vid[2], N=vid[3], content=done[j], snap=snap, fork_of=None))
        self.linear = len(self.versions)
        # competing versions: a second writer publishes from the state before version j
        for nf in range(p["nforks"]):
            if self.linear < 2:
                break
            j = self.linear - 1 if nf == 0 else rng.randrange(1, self.linear)   # the first competitor rivals the newest
            g.sched.settle()
            M.install_all(g, self.si, self.versions[j - 1]["snap"])
            c2 = g.make_client(k=p["k"], happy=1, n=p["n"], mutable_format=p["fmt"])
            n2 = c2.create_node_from_uri(self.rw_uri)
            content = b"FORK" + rng.randbytes(rng.randint(8, 300))
            st, r = g.wait(n2.overwrite(MutableData(content)))
            if st != "ok":
                ck.observe("fork-publish-failed")
                continue
            snap = M.snapshot(g, self.si)
            vid = M.version_of_snapshot(snap)
            if vid is None or vid[0] != self.versions[j]["seq"] or vid[1] == self.versions[j]["root"]:
                ck.observe("fork-not-a-same-seqnum-competitor")
                continue
            self.versions.append(dict(seq=vid[0], root=vid[1], k=vid[2], N=vid[3], content=content, snap=snap, fork_of=j))
        g.sched.settle()
        self.order = [s.vserver.index for s in c.storage_broker.get_servers_for_psi(self.si)]
        self.holders = [idx for idx in self.order if self.versions[self.linear - 1]["snap"].get(idx)]
        return True

    def run(self):
        if not self.build():
            return
        rounds = 5 if self.ck.tier == "quick" else 8
        self.runaway = False
        for r in range(rounds):
            if not self.ck.more(min_cases=MIN_CASES[self.ck.tier]) or self.runaway:
                break
            n_ = self.counter[0]
            fam = DIRECTED[(n_ // 2) % len(DIRECTED)] if n_ % 2 == 0 else OTHER[(n_ // 2) % len(OTHER)]
            self.counter[0] += 1
            self.one_round(fam)

    # ------------------------------------------------------------ composition
    def compose(self, fam):
        """-> (states {idx: ("v", vid) | ("empty",) | ("down",)}, corrupt {(idx, shnum): kind},
        extras {(idx, shnum): vid}: additional share files copied from another server's snapshot)"""
        rng, p = self.rng, self.p
        extras = {}
        V = self.versions
        newest = self.linear - 1
        k = p["k"]
        holders = list(self.holders)
        states, corrupt = {}, {}

        def shares_of(idxs, vid):
            s = set()
            for idx in idxs:
                s |= set(V[vid]["snap"].get(idx, {}).keys())
            return s

        def below_k(vid, pool):
            chosen = []
            for idx in pool:
                if len(shares_of(chosen + [idx], vid)) < V[vid]["k"]:
                    chosen.append(idx)
            return chosen

        forks = [i for i, v in enumerate(V) if v["fork_of"] is not None]
        top_forks = [i for i in forks if V[i]["fork_of"] == newest]
        low_forks = [i for i in forks if V[i]["fork_of"] != newest]
        rng.shuffle(holders)
        plus_older = False
        if fam == "same-seqnum-top-plus-older":
            fam, plus_older = "same-seqnum-top", True
        if fam in ("same-seqnum-top", "same-seqnum-lower") and not (top_forks if fam == "same-seqnum-top" else low_forks):
            fam = "random"
        dup_copies = False
        if fam == "newest-unrecoverable-dup-copies":
            fam, dup_copies = "newest-unrecoverable", True
        if fam in ("newest-unrecoverable", "old-and-new", "older-first-in-order") and newest == 0:
            fam = "missing-some"
        if fam in ("newest-plus-stale-extras", "newest-plus-recoverable-extras", "corrupt-newest-complete-older") \
                and len(V) < 2:
            fam = "corrupt-duplicate"
        if fam == "corrupt-duplicate":
            # the newest version complete and clean, plus a second, deep-corrupted copy of some of its shares elsewhere
            for idx in holders:
                states[idx] = ("v", newest)
            pool = [(owner, sh) for owner, d in V[newest]["snap"].items() for sh in d]
            rng.shuffle(pool)
            for (owner, sh) in pool[:rng.randint(1, 2)]:
                cands = [vs.index for vs in self.g.servers if vs.index != owner
                         and sh not in V[newest]["snap"].get(vs.index, {}) and (vs.index, sh) not in extras]
                if cands:
                    t = rng.choice(cands)
                    extras[(t, sh)] = newest
                    corrupt[(t, sh)] = rng.choice(DEEP_KINDS)
        elif fam == "corrupt-newest-complete-older":
            # every share of the newest version deep-corrupted, a complete clean older version next to it
            for idx in holders:
                states[idx] = ("v", newest)
                for sh in V[newest]["snap"].get(idx, {}):
                    corrupt[(idx, sh)] = rng.choice(DEEP_KINDS)
            other = rng.choice([i_ for i_ in range(len(V)) if i_ != newest])
            for owner, d in V[other]["snap"].items():
                for sh in d:
                    cands = [vs.index for vs in self.g.servers
                             if sh not in V[newest]["snap"].get(vs.index, {}) and (vs.index, sh) not in extras]
                    if cands:
                        extras[(rng.choice(cands), sh)] = other
        if fam == "corrupt-privkey":
            # the newest version complete; the encrypted private key of one or two shares damaged
            for idx in holders:
                states[idx] = ("v", newest)
            installed = [(idx, sh) for idx in holders for sh in V[newest]["snap"].get(idx, {})]
            for (idx, sh) in rng.sample(installed, min(len(installed), rng.choice([1, 1, 2]))):
                corrupt[(idx, sh)] = "encprivkey"
        if fam in ("corrupt-duplicate", "corrupt-newest-complete-older", "corrupt-privkey"):
            pass
        elif fam == "healthy":
            for idx in holders:
                states[idx] = ("v", newest)
        elif fam in ("newest-plus-stale-extras", "newest-plus-recoverable-extras"):
            # the newest version complete, plus copies of another version's shares as additional files
            for idx in holders:
                states[idx] = ("v", newest)
            other = rng.choice([i_ for i_ in range(len(V)) if i_ != newest])
            kk = V[other]["k"]
            want = rng.randint(1, max(1, kk - 1)) if fam == "newest-plus-stale-extras" and kk > 1 else \
                (1 if fam == "newest-plus-stale-extras" else rng.randint(kk, V[other]["N"]))
            if fam == "newest-plus-stale-extras" and kk == 1:
                want = 0 if V[other]["seq"] <= V[newest]["seq"] and False else 1   # k=1: one share is already recoverable
            pool = [(owner, sh) for owner, d in V[other]["snap"].items() for sh in d]
            rng.shuffle(pool)
            targets = [vs.index for vs in self.g.servers]
            used = set()
            for (owner, sh) in pool:
                if len(used) >= want:
                    break
                if sh in used:
                    continue
                cands = [t for t in targets if sh not in V[newest]["snap"].get(t, {}) and (t, sh) not in extras]
                if not cands:
                    continue
                extras[(rng.choice(cands), sh)] = other
                used.add(sh)
        elif fam == "missing-some":
            for idx in holders:
                states[idx] = ("v", newest)
            for idx in rng.sample(holders, rng.randint(1, max(1, len(holders) - 1))):
                states[idx] = ("empty",)
        elif fam == "unreachable":
            for idx in holders:
                states[idx] = ("v", rng.choice([newest, newest, rng.randrange(len(V))]))
            for idx in rng.sample(holders, rng.randint(1, max(1, len(holders) - 1))):
                states[idx] = ("down",)
        elif fam == "old-and-new":
            old = rng.randrange(newest)
            nold = rng.randint(1, max(1, len(holders) - 1))
            for n_, idx in enumerate(holders):
                states[idx] = ("v", old) if n_ < nold else ("v", newest)
        elif fam == "newest-unrecoverable":
            few = below_k(newest, holders)
            old = rng.randrange(newest)
            for idx in holders:
                states[idx] = ("v", newest) if idx in few else ("v", rng.choice([old, old, rng.randrange(newest)]))
            if rng.random() < .3 and not dup_copies:
                for idx in rng.sample(holders, 1):
                    if idx not in few:
                        states[idx] = ("empty",)
            if dup_copies and few:
                # the newest version stays below k DISTINCT share numbers, but second copies of those share numbers on
                # other servers bring the number of share files to k or more
                have = sorted(shares_of(few, newest))
                copies = sum(len(V[newest]["snap"].get(idx, {})) for idx in few)
                want = rng.choice([V[newest]["k"], V[newest]["k"] + 1])
                tries = 0
                while copies < want and tries < 40:
                    tries += 1
                    sh = rng.choice(have)
                    cands = [vs.index for vs in self.g.servers if vs.index not in few and (vs.index, sh) not in extras
                             and not (states.get(vs.index, ("empty",))[0] == "v"
                                      and sh in V[states[vs.index][1]]["snap"].get(vs.index, {}))]
                    if cands:
                        extras[(rng.choice(cands), sh)] = newest
                        copies += 1
        elif fam == "older-first-in-order":
            # an older version on the servers a bounded MODE_READ survey asks first, the newest complete behind them
            old = rng.randrange(newest)
            first = [idx for idx in self.order if idx in self.holders][:2 * k]
            while first and len(shares_of([x for x in self.holders if x not in first], newest)) < V[newest]["k"]:
                first = first[:-1]
            for idx in self.holders:
                states[idx] = ("v", old) if idx in first else ("v", newest)
        elif fam == "same-seqnum-top":
            f = rng.choice(top_forks)
            half = rng.randint(1, max(1, len(holders) - 1))
            for n_, idx in enumerate(holders):
                states[idx] = ("v", newest) if n_ < half else ("v", f)
            if plus_older and newest >= 1:
                # a third, older version recoverable as well (complete copies as additional share files)
                other = rng.randrange(newest)
                for owner, d in V[other]["snap"].items():
                    for sh in d:
                        cands = [vs.index for vs in self.g.servers
                                 if sh not in V[newest]["snap"].get(vs.index, {}) and (vs.index, sh) not in extras]
                        if cands:
                            extras[(rng.choice(cands), sh)] = other
        elif fam == "same-seqnum-lower":
            f = rng.choice(low_forks)
            j = V[f]["fork_of"]
            third = max(1, len(holders) // 3)
            for n_, idx in enumerate(holders):
                states[idx] = ("v", j) if n_ < third else (("v", f) if n_ < 2 * third else ("v", newest))
        elif fam in ("corrupt-deep", "corrupt-invalid"):
            for idx in holders:
                states[idx] = ("v", newest if rng.random() < .85 else rng.randrange(len(V)))
        else:
            for idx in holders:
                r = rng.random()
                states[idx] = ("v", rng.randrange(len(V))) if r < .75 else (("empty",) if r < .9 else ("down",))
        for vs in self.g.servers:
            if vs.index not in states:
                states[vs.index] = ("empty",) if (rng.random() < .92 or extras) else ("down",)
        if fam == "random" and len(V) > 1 and rng.random() < .4:
            for _ in range(rng.randint(1, 3)):
                other = rng.randrange(len(V))
                pool = [(owner, sh) for owner, d in V[other]["snap"].items() for sh in d]
                if not pool:
                    continue
                owner, sh = rng.choice(pool)
                cands = [vs.index for vs in self.g.servers if states[vs.index][0] != "down" and (vs.index, sh) not in extras
                         and not (states[vs.index][0] == "v" and sh in V[states[vs.index][1]]["snap"].get(vs.index, {}))]
                if cands:
                    extras[(rng.choice(cands), sh)] = other
        # corruption
        if fam == "corrupt-privkey":
            for vs in self.g.servers:
                if states[vs.index] == ("down",):
                    states[vs.index] = ("empty",)
        elif fam in ("corrupt-deep", "corrupt-invalid", "random") or rng.random() < .15:
            installed = [(idx, sh) for idx, st in states.items() if st[0] == "v"
                         for sh in V[st[1]]["snap"].get(idx, {})]
            if installed:
                nvic = rng.choice([1, 1, 2, max(1, len(installed) // 2), len(installed)])
                if fam == "random" and rng.random() < .5:
                    nvic = 0
                for (idx, sh) in rng.sample(installed, min(len(installed), nvic)):
                    kinds = DEEP_KINDS if fam == "corrupt-deep" else (
                        INVALID_KINDS + INVALID_KINDS + OPEN_KINDS if fam == "corrupt-invalid"
                        else DEEP_KINDS + INVALID_KINDS + OPEN_KINDS)
                    corrupt[(idx, sh)] = rng.choice(kinds)
        return states, corrupt, extras

    def install(self, states, corrupt, extras=None):
        M, g, V = self.M, self.g, self.versions
        g.mutate_response = None
        self.truth = {}          # (server index, shnum) -> (version index, corruption kind or None)
        for vs in g.servers:
            vs.faults = []
            vs.hung = []
            if not vs.connected:
                vs.start()
            vs.zombie = vs.hidden = False
            st = states[vs.index]
            if st[0] == "v":
                shares = dict(V[st[1]]["snap"].get(vs.index, {}))
                for sh in list(shares):
                    kind = corrupt.get((vs.index, sh))
                    if kind:
                        new = corrupt_raw(M, shares[sh], kind, self.rng)
                        if new is None or new == shares[sh]:
                            kind = None
                            corrupt.pop((vs.index, sh), None)
                        else:
                            shares[sh] = new
                    self.truth[(vs.index, sh)] = (st[1], kind)
                M.install(g, self.si, vs.index, shares)
            elif st[0] == "empty":
                M.install(g, self.si, vs.index, {})
            else:
                M.install(g, self.si, vs.index, {})
                vs.disconnect()
                vs.hidden = True
        for (idx, sh), vid in sorted((extras or {}).items()):
            raw = None
            for owner, d in V[vid]["snap"].items():
                if sh in d:
                    raw = d[sh]
                    break
            if raw is None or (idx, sh) in self.truth or not g.servers[idx].connected:
                continue
            # a container of the target server (its own node id and write enabler) around the copied share data:
            # a foreign write enabler would make every later write to this server fail, which is a server fault
            # outside this property's quantifier
            kind = corrupt.get((idx, sh))
            if kind:
                new = corrupt_raw(M, raw, kind, self.rng)
                if new is None or new == raw:
                    kind = None
                    corrupt.pop((idx, sh), None)
                else:
                    raw = new
            ms = M.MutShare(raw=raw)
            ms.container[32:52] = g.servers[idx].serverid
            ms.container[52:84] = self.writer_node.get_write_enabler(g.servers[idx].iserver)
            d_ = g.servers[idx].sharedir(self.si)
            os.makedirs(d_, exist_ok=True)
            with open(os.path.join(d_, "%d" % sh), "wb") as f:
                f.write(ms.to_raw())
            self.truth[(idx, sh)] = (vid, kind)

    # ------------------------------------------------------------ ground truth
    def inventory(self, servers, verify_level, open_valid=True):
        """{version index: set(shnums)} of valid shares on the given server indexes.
        verify_level 0: shares whose signed part is intact count (what a survey can know);
        verify_level 1: only shares without any corruption count.
        open_valid: how to read shares with an OPEN_KINDS corruption (each such share is open on its own: its
        signature is consulted iff it is the first share of its version that a survey processes)."""
        inv = {}
        corrupt_seen = False
        for (idx, sh), (vid, kind) in self.truth.items():
            if idx not in servers:
                continue
            if kind in OPEN_KINDS:
                # open_valid: True (all count), False (none counts) or the set of (server, shnum) keys that count
                counts = open_valid if isinstance(open_valid, bool) else ((idx, sh) in open_valid)
                if counts:
                    kind = None
                else:
                    continue
            if kind in INVALID_KINDS:
                corrupt_seen = True
                continue
            if kind in VERIFY_KINDS:
                corrupt_seen = True
                if verify_level:
                    continue
            inv.setdefault(vid, set()).add(sh)
        return inv, corrupt_seen

    def open_readings(self, servers):
        """Every way of counting / not counting the shares whose only damage is in their signature bytes: each of them
        is accepted iff some other share of its version had its signature checked before it, which depends on the order
        answers are processed in.  (More than 6 such shares: only 'all' and 'none' plus each single one.)"""
        import itertools
        keys = sorted(k_ for k_, (vid, kind) in self.truth.items() if kind in OPEN_KINDS and k_[0] in servers)
        if not keys:
            return [True]
        if len(keys) <= 6:
            return [frozenset(c) for r in range(len(keys) + 1) for c in itertools.combinations(keys, r)]
        return [frozenset(keys), frozenset()] + [frozenset([k_]) for k_ in keys] + \
            [frozenset(keys) - frozenset([k_]) for k_ in keys]

    def analyse(self, inv):
        V = self.versions
        rec = [v for v, shs in inv.items() if len(shs) >= V[v]["k"]]
        unrec = [v for v, shs in inv.items() if len(shs) < V[v]["k"]]
        top = max([V[v]["seq"] for v in rec]) if rec else None
        best = [v for v in rec if V[v]["seq"] == top]
        newer_unrec = [v for v in unrec if top is not None and V[v]["seq"] > top]
        return rec, unrec, best, newer_unrec

    def first_survey_servers(self, n0, t_done):
        """Indexes of the servers whose answer the FIRST survey of an operation received: the first survey ends when
        the operation does anything else (a second query to some server, a read of another shape, a write, or its
        Deferred fires).  Exact under the 'local processing first' schedule."""
        window = self.g.calls[n0:]
        seen = set()
        t_b = t_done
        firsts = []
        for r in window:
            if r["method"] == "slot_readv" and r["args"][2] and r["args"][2][0][0] == 0 and r["args"][2][0][1] >= 1000:
                if r["server"] in seen:
                    t_b = min(t_b, r["t_call"])
                else:
                    seen.add(r["server"])
                    firsts.append(r)
            elif r["method"] in ("slot_readv", "slot_testv_and_readv_and_writev"):
                t_b = min(t_b, r["t_call"])
        names = set(r["server"] for r in firsts if r["state"] == "answered" and isinstance(r["result"], dict)
                    and r.get("t_rsp", 1e18) <= t_b)
        return set(vs.index for vs in self.g.servers if vs.name in names)

    def answered_servers(self, n0):
        names = set(r["server"] for r in self.g.calls[n0:] if r["method"] == "slot_readv" and r["state"] == "answered"
                    and isinstance(r["result"], dict))
        return set(vs.index for vs in self.g.servers if vs.name in names)

    # ------------------------------------------------------------ one round
    def one_round(self, fam):
        ck, rng, g, M = self.ck, self.rng, self.g, self.M
        states, corrupt, extras = self.compose(fam)
        g.sched.settle()
        self.install(states, corrupt, extras)
        desc = dict(k=self.p["k"], n=self.p["n"], fmt=self.p["fmt"], nservers=self.p["nservers"], family=fam,
                    versions=[(v["seq"], v["root"][:3].hex(), v["fork_of"]) for v in self.versions],
                    states={"s%02d" % i_: list(s) for i_, s in sorted(states.items())},
                    corrupt={"s%02d/sh%d" % k_: v for k_, v in sorted(corrupt.items())},
                    extra_shares={"s%02d/sh%d" % k_: v for k_, v in sorted(extras.items())})
        self.desc = desc
        self.nontrivial = fam != "healthy"
        self.case_key = (fam, repr(sorted(states.items())), repr(sorted(corrupt.items())), repr(sorted(extras.items())),
                         self.p["k"], self.p["n"])
        plan = rng.choice([["check", "repair"], ["check", "check", "repair"], ["car"], ["check", "car"], ["car"],
                           ["check", "repair"]])
        force = rng.random() < .5
        if fam in ("same-seqnum-top", "newest-unrecoverable", "newest-unrecoverable-dup-copies",
                   "same-seqnum-top-plus-older", "older-first-in-order"):
            self.counter[1] += 1
            turn = self.counter[1] % 4              # unforced repair, check_and_repair, unforced repair, forced repair
            plan = ["car"] if turn == 1 else ["check", "repair"]
            force = turn == 3 and fam not in ("newest-unrecoverable-dup-copies", "same-seqnum-top-plus-older")
        if fam == "corrupt-privkey":
            # only a verifying check with the write-cap looks at encrypted private keys.  One ordered connection per
            # server (the key read is sent before the block reads) and local processing first: the key verdict of a share
            # is then available before its server's block answer is, unless the verifier needs no block answer at all.
            g.sched.profile = "per-server-fifo"
            st_c = self.op_check(True, readonly=False)
            g.sched.profile = "free"
            if not self.runaway:
                g.sched.settle()
            return
        cr = None
        for op in plan:
            if self.runaway:
                break
            verify = rng.random() < .5
            if op == "check":
                cr = self.op_check(verify, readonly=rng.random() < .3)
            elif op == "repair":
                if cr is None:
                    continue
                self.op_repair(cr, force=force)
            else:
                self.op_car(verify)
            if not self.runaway:
                g.sched.settle()

    def note_steps(self, st, n):
        if st in ("ok", "err"):
            self.ck.extra["max_scheduler_steps_of_a_completed_operation"] = max(
                n, self.ck.extra.get("max_scheduler_steps_of_a_completed_operation", 0))

    def fresh_node(self, readonly=False):
        p = self.p
        c2 = self.g.make_client(k=p["k"], happy=1, n=p["n"], mutable_format=p["fmt"])
        return c2.create_node_from_uri(self.ro_uri if readonly else self.rw_uri)

    def judge_health(self, results, verify, servers, what, op):
        """results: ICheckResults; servers: indexes that answered the survey."""
        ck, V = self.ck, self.versions
        readings = []
        for open_valid in self.open_readings(servers):
            inv0, corrupt_seen = self.inventory(servers, 0, open_valid)
            inv, _ = self.inventory(servers, 1 if verify else 0, open_valid)
            rec, unrec, best, newer = self.analyse(inv)
            # a deep-corrupt share is only examined by the verifier if it belongs to the version being verified;
            # with several versions present the file is unhealthy anyway
            eh = (len(inv) == 1 and len(rec) == 1 and len(inv[rec[0]]) >= V[rec[0]]["N"])
            deep_seen = any(kind in VERIFY_KINDS for (idx, sh), (vid, kind) in self.truth.items() if idx in servers)
            if verify and deep_seen:
                eh = False
            readings.append((eh, bool(rec)))
        has_open = any(kind in OPEN_KINDS for (idx, sh), (vid, kind) in self.truth.items() if idx in servers)
        if len(set(readings)) != 1:
            ck.skip("health-depends-on-a-share-whose-only-damage-is-an-unconsulted-signature")
            return
        if verify and has_open:
            ck.skip("verify-with-signature-only-damage-left-open")
            return
        exp_healthy, exp_recoverable = readings[0]
        invalid_seen = any(kind in INVALID_KINDS for (idx, sh), (vid, kind) in self.truth.items() if idx in servers)
        if verify and invalid_seen and exp_healthy:
            # a complete clean version plus a share whose signed fields are broken (every survey drops it): whether such
            # a leftover counts as "a corrupt share" for the verified health is left open
            ck.skip("verify-health-with-only-a-survey-rejected-share-left-open")
            return
        inv, _ = self.inventory(servers, 1 if verify else 0, True)
        w = dict(self.desc, op=op, verify=verify, what=what,
                 inventory={str(v): sorted(s) for v, s in inv.items()}, answered=sorted(servers),
                 reported_healthy=results.is_healthy(), reported_recoverable=results.is_recoverable(),
                 summary=str(results.get_summary())[:200])
        ck.mon("health-oracle")
        ck.hit("healthy-reported" if results.is_healthy() else "unhealthy-reported")
        inv_h, _ = self.inventory(servers, 0, True)
        rec_h, unrec_h, best_h, newer_h = self.analyse(inv_h)
        if not results.is_healthy() and len(rec_h) == 1 and unrec_h and not newer_h and \
                len(inv_h[rec_h[0]]) >= V[rec_h[0]]["N"] and not corrupt_seen:
            ck.hit("unhealthy-only-because-of-older-unrecoverable-shares")
        open_case = False
        if not verify and corrupt_seen:
            # shares whose signature or signed fields the harness broke: a survey drops them, counted as absent above;
            # deep corruption is invisible without verify, counted as present above.
            pass
        if verify:
            # recoverability under verify: the survey-level answer is also acceptable when only deep corruption differs
            inv_s, _ = self.inventory(servers, 0)
            rec_s = self.analyse(inv_s)[0]
            if bool(rec_s) != exp_recoverable:
                open_case = True
        if bool(results.is_healthy()) != exp_healthy:
            if exp_healthy:
                key = "unhealthy-reported-for-a-single-complete-version%s" % ("/verify" if verify else "")
            else:
                inv_r, _ = self.inventory(servers, 1 if verify else 0, True)
                rec_r = self.analyse(inv_r)[0]
                if not rec_r:
                    why = "no-recoverable-version"
                elif len(rec_r) > 1:
                    why = "several-recoverable-versions"
                elif len(inv_r) > 1:
                    why = "shares-of-another-version"
                elif len(inv_r[rec_r[0]]) < V[rec_r[0]]["N"]:
                    why = "fewer-than-n-distinct-shares"
                else:
                    why = "corrupt-shares"
                key = "healthy-reported-despite-%s%s" % (why, "/verify" if verify else "")
                inv_s, _ = self.inventory(servers, 0, True)
                rec_s = self.analyse(inv_s)[0]
                survey_healthy = (len(inv_s) == 1 and len(rec_s) == 1 and len(inv_s[rec_s[0]]) >= V[rec_s[0]]["N"])
                if verify and corrupt_seen and (survey_healthy or why == "corrupt-shares"):
                    # only damage that verification alone can find stands between this grid and "healthy"
                    try:
                        listed = len(results.get_corrupt_shares())
                    except Exception:
                        listed = -1
                    # is every corrupt share a copy of a share number that the same version also has elsewhere?
                    corrupt_entries = [(idx, sh, vid) for (idx, sh), (vid, kind) in self.truth.items()
                                       if idx in servers and kind in VERIFY_KINDS + INVALID_KINDS]
                    all_duplicated = bool(corrupt_entries) and all(
                        any(sh2 == sh and vid2 == vid and idx2 != idx and idx2 in servers
                            for (idx2, sh2), (vid2, kind2) in self.truth.items())
                        for (idx, sh, vid) in corrupt_entries)
                    only_privkey = bool(corrupt_entries) and all(
                        self.truth[(idx, sh)][1] in PRIVKEY_KINDS for (idx, sh, vid) in corrupt_entries)
                    if listed > 0:
                        key = "healthy-reported-although-the-verifier-listed-corrupt-shares"
                    elif only_privkey:
                        # can the verifier finish without any further answer (everything it needs lies in the 1000
                        # bytes a MODE_CHECK survey caches)?  then it never waits for the key verdicts
                        cached = False
                        for (idx, sh, vid) in corrupt_entries:
                            ms_ = self.M.MutShare(raw=V[vid]["snap"][idx][sh]) if sh in V[vid]["snap"].get(idx, {}) else None
                            if ms_ is not None and ms_.fmt is not None and ms_.num_segments() <= 1:
                                end = ms_.block_span(0)[1][1] if ms_.num_segments() else ms_.f["o_share_data"]
                                cached = cached or end <= 1000
                        key = ("healthy-reported-verify-finished-before-the-private-key-verdict" if cached else
                               "healthy-reported-with-a-corrupt-private-key-the-verifier-did-not-check")
                    elif all_duplicated:
                        key = "healthy-reported-with-an-unverified-corrupt-copy-of-a-duplicated-share-number"
                    else:
                        key = "healthy-reported-with-corrupt-shares-the-verifier-did-not-list"
            ck.violation(key, "is_healthy()=%r (%s); valid shares on answering servers {version index: shnums}: %s; "
                         "corrupt shares present: %r" % (results.is_healthy(), w["summary"], w["inventory"], corrupt_seen), w)
        ck.mon("recoverable-oracle")
        if open_case:
            ck.skip("recoverability-under-verify-depends-on-counting-corrupt-shares")
        elif bool(results.is_recoverable()) != exp_recoverable:
            ck.violation("%s-reported-but-file-is-%s" % (
                "recoverable" if results.is_recoverable() else "unrecoverable",
                "recoverable" if exp_recoverable else "unrecoverable"),
                "is_recoverable()=%r; shares on answering servers: %s" % (results.is_recoverable(), w["inventory"]), w)
        if verify and corrupt_seen and not results.is_healthy():
            ck.hit("verify-found-corrupt-share")
            if any(kind in PRIVKEY_KINDS for (idx, sh), (vid, kind) in self.truth.items() if idx in servers):
                ck.hit("verify-found-corrupt-private-key")

    def op_check(self, verify, readonly):
        from allmydata.monitor import Monitor
        ck, g = self.ck, self.g
        node = self.fresh_node(readonly)
        n0 = len(g.calls)
        s0 = g.sched.steps
        st, cr = g.wait(node.check(Monitor(), verify=verify), horizon=4 * 3600.0, max_steps=MAX_STEPS)
        self.note_steps(st, g.sched.steps - s0)
        op = "check(verify=%s,%s)" % (verify, "ro" if readonly else "rw")
        if st not in ("ok", "err"):
            self.runaway = True
        if st != "ok":
            ck.observe("check-" + st)
            ck.case("check", key=self.case_key + (op, st), nontrivial=self.nontrivial, sample=dict(self.desc, op=op, status=st))
            return None
        self.judge_health(cr, verify, self.answered_servers(n0), "check", op)
        ck.case("check", key=self.case_key + (op,), nontrivial=self.nontrivial,
                sample=dict(self.desc, op=op, healthy=cr.is_healthy()))
        return cr

    # ------------------------------------------------------------ repair
    def pre_repair_truth(self):
        """Ground truth about the whole reachable grid before a repair."""
        reachable = set(vs.index for vs in self.g.servers if vs.connected and not vs.hidden)
        inv, corrupt_seen = self.inventory(reachable, 0, True)
        rec, unrec, best, newer = self.analyse(inv)
        views = set()
        for open_valid in self.open_readings(reachable):
            inv2, _ = self.inventory(reachable, 0, open_valid)
            rec2, unrec2, best2, newer2 = self.analyse(inv2)
            views.add((tuple(sorted(rec2)), tuple(sorted(best2)), tuple(sorted(newer2)),
                       tuple(sorted(set(self.versions[v]["seq"] for v in inv2)))))
        copies = {}
        for (idx, sh), (vid, kind) in self.truth.items():
            if idx in reachable and kind not in INVALID_KINDS:
                copies[vid] = copies.get(vid, 0) + 1
        first = [idx for idx in self.order if idx in self.holders][:2 * self.p["k"]]
        older_first = bool(best) and bool(first) and all(
            any(self.truth.get((idx, sh), (None,))[0] not in best for sh in range(self.p["n"])
                if (idx, sh) in self.truth) for idx in first if idx in reachable)
        return dict(inv=inv, rec=rec, best=best, newer=newer, corrupt=corrupt_seen,
                    newer_with_k_copies=any(copies.get(v, 0) >= self.versions[v]["k"] for v in newer),
                    older_first=older_first,
                    ambiguous=len(views) != 1,
                    seqs=sorted(set(self.versions[v]["seq"] for v in inv)))

    def judge_repair(self, op, force, status, successful, err, n0, pre):
        ck, g, M, V = self.ck, self.g, self.M, self.versions
        window = g.calls[n0:]
        writes = [r for r in window if M.has_writes(r)]
        if pre["ambiguous"]:
            ck.skip("repair-expectation-depends-on-a-share-whose-only-damage-is-an-unconsulted-signature")
            return
        must_refuse = (not force) and (bool(pre["newer"]) or len(pre["best"]) > 1)
        w = dict(self.desc, op=op, force=force, status=status, successful=successful, error=err,
                 recoverable=[(V[v]["seq"], V[v]["root"][:3].hex()) for v in pre["rec"]],
                 newer_unrecoverable=[V[v]["seq"] for v in pre["newer"]],
                 best=[(V[v]["seq"], V[v]["root"][:3].hex()) for v in pre["best"]], writes_sent=len(writes))
        ck.mon("unforced-repair-refusal-oracle")
        if must_refuse:
            why = "newer-unrecoverable-version" if pre["newer"] else "same-seqnum-competitors"
            if (status == "ok" and successful) or writes:
                ck.violation("unforced-repair-proceeds-despite-" + why,
                             "%s: unforced repair %s (%d write requests sent) although %s exist"
                             % (op, "reported success" if successful else "did not report success", len(writes), why), w)
            else:
                ck.hit("unforced-repair-refused-" + ("newer-unrecoverable" if pre["newer"] else "same-seqnum"))
                if pre["newer"] and pre["newer_with_k_copies"]:
                    ck.hit("unforced-repair-refused-newer-unrecoverable-version-with-k-share-copies")
                if not pre["newer"] and len(pre["rec"]) >= 3:
                    ck.hit("unforced-repair-refused-same-seqnum-with-a-third-recoverable-version")
                if op.startswith("check_and_repair"):
                    ck.hit("check-and-repair-refused-to-repair")
            return
        if force and pre["newer"] and status == "ok" and successful:
            ck.hit("forced-repair-over-newer-unrecoverable")
        if force and len(pre["best"]) > 1 and status == "ok" and successful:
            ck.hit("forced-repair-with-same-seqnum-competitors")
        if not (status == "ok" and successful):
            if not pre["rec"]:
                ck.hit("repair-unsuccessful-no-recoverable-version")
            else:
                ck.observe("repair-unsuccessful-though-a-version-is-recoverable")
                if err:
                    ck.observe("repair-error:" + err.split(":")[0])
            return
        # ---- successful repair: post-conditions
        ck.mon("post-repair-oracle")
        ck.hit("repair-succeeded")
        if pre["older_first"] and len(pre["rec"]) >= 2:
            ck.hit("repair-succeeded-with-an-older-version-on-the-servers-asked-first")
        if pre["corrupt"]:
            ck.hit("repair-replaced-corrupt-share")
        if not pre["best"]:
            ck.violation("repair-succeeded-without-recoverable-version", "repair reported success, nothing was recoverable", w)
            return
        allowed = [V[v]["content"] for v in pre["best"]]
        if len(pre["best"]) > 1:
            ck.skip("forced-repair-between-same-seqnum-competitors-either-content-accepted")
        g.sched.settle()
        st, data = g.wait(self.fresh_node(True).download_best_version(), horizon=4 * 3600.0, max_steps=MAX_STEPS)
        if st not in ("ok", "err"):
            self.runaway = True
        if st != "ok" or data not in allowed:
            ck.violation("content-after-repair-is-not-the-best-versions",
                         "after a successful repair a fresh read %s; best pre-repair version(s): seq %s"
                         % ("failed" if st != "ok" else "returned other content", [V[v]["seq"] for v in pre["best"]]),
                         dict(w, read_status=st))
            return
        # the version written by the repair, from the wire log and the disk (independent parser)
        written = set()
        for r in writes:
            written |= set(M.written_seqnums(r).values())
        disk = M.disk_shares(g, self.si)
        groups = {}
        for (idx, shnum, ms) in disk:
            if ms.fmt is not None:
                groups.setdefault((ms.f["seqnum"], bytes(ms.f["root_hash"])), []).append((idx, shnum, ms))
        neww = [gk for gk in groups if gk[0] in written]
        if len(written) != 1 or len(neww) != 1:
            ck.violation("repair-did-not-write-exactly-one-new-version",
                         "write requests carried seqnums %s; versions on disk with those: %d" % (sorted(written), len(neww)), w)
            return
        gk = neww[0]
        shnums = set(sh for (_, sh, _) in groups[gk])
        N = groups[gk][0][2].f["N"]
        if pre["seqs"] and gk[0] <= max(pre["seqs"]):
            ck.violation("repaired-version-seqnum-not-above-pre-repair-versions",
                         "repair wrote seqnum %d, pre-repair grid had %s" % (gk[0], pre["seqs"]), w)
        if len(shnums) < N:
            ck.violation("fewer-than-n-distinct-shares-after-successful-repair",
                         "new version has %d distinct shares on disk, N=%d" % (len(shnums), N), dict(w, shnums=sorted(shnums)))
            return
        # those N shares alone must give the content back
        for (idx, shnum, ms) in disk:
            if ms.fmt is None or (ms.f["seqnum"], bytes(ms.f["root_hash"])) != gk:
                os.unlink(ms.path)
        st, data2 = g.wait(self.fresh_node(True).download_best_version(), horizon=4 * 3600.0, max_steps=MAX_STEPS)
        if st != "ok" or data2 not in allowed:
            ck.violation("repaired-version-alone-does-not-give-best-content",
                         "with only the %d shares of the repaired version left, a read %s" % (
                             len(groups[gk]), "failed" if st != "ok" else "returned other content"), w)
        else:
            ck.hit("post-repair-n-distinct-shares-alone-suffice")

    def op_repair(self, cr, force):
        ck, g = self.ck, self.g
        node = self.fresh_node(False)
        pre = self.pre_repair_truth()
        n0 = len(g.calls)
        s0 = g.sched.steps
        st, rr = g.wait(node.repair(cr, force=force), horizon=4 * 3600.0, max_steps=MAX_STEPS)
        self.note_steps(st, g.sched.steps - s0)
        if st not in ("ok", "err"):
            self.runaway = True
            ck.observe("repair-never-completed")
            ck.case("repair", key=self.case_key + ("repair", st), nontrivial=self.nontrivial,
                    sample=dict(self.desc, op="repair", status=st))
            return
        g.sched.settle()
        successful = bool(rr.get_successful()) if st == "ok" else False
        err = ("%s: %s" % (rr.type.__name__, str(rr.value)[:120])) if st == "err" else None
        op = "repair(force=%s)" % force
        self.judge_repair(op, force, st, successful, err, n0, pre)
        ck.case("repair", key=self.case_key + (op,), nontrivial=self.nontrivial,
                sample=dict(self.desc, op=op, status=st, successful=successful, error=err))

    def op_car(self, verify):
        from allmydata.monitor import Monitor
        ck, g = self.ck, self.g
        node = self.fresh_node(False)
        pre = self.pre_repair_truth()
        n0 = len(g.calls)
        s0 = g.sched.steps
        st, crr = g.wait(node.check_and_repair(Monitor(), verify=verify), horizon=4 * 3600.0, max_steps=MAX_STEPS)
        self.note_steps(st, g.sched.steps - s0)
        t_done = env.reactor.seconds()
        if st not in ("ok", "err"):
            self.runaway = True
            ck.observe("check-and-repair-never-completed")
            ck.case("check-and-repair", key=self.case_key + ("car", st), nontrivial=self.nontrivial,
                    sample=dict(self.desc, op="check_and_repair", status=st))
            return
        g.sched.settle()
        op = "check_and_repair(verify=%s)" % verify
        if st == "ok":
            servers = self.first_survey_servers(n0, t_done)
            writes = [r for r in g.calls[n0:] if self.M.has_writes(r)]
            pre_res = crr.get_pre_repair_results()
            # the check of check_and_repair surveys in MODE_WRITE (not every server): judge against what answered
            self.judge_health(pre_res, verify, servers, "check-and-repair-pre-repair", op)
            attempted = bool(crr.get_repair_attempted())
            successful = bool(crr.get_repair_successful()) if attempted else False
            if attempted and successful and not pre["ambiguous"]:
                # post-repair results: healthy <=> what is on the reachable servers now is one complete version
                ck.mon("post-repair-results-oracle")
                groups = {}
                unparsable = 0
                for (idx, shnum, ms) in self.M.disk_shares(g, self.si):
                    if not g.servers[idx].connected or g.servers[idx].hidden:
                        continue
                    if ms.fmt is None:
                        unparsable += 1
                    else:
                        groups.setdefault((ms.f["seqnum"], bytes(ms.f["root_hash"]), ms.f["N"]), set()).add(shnum)
                disk_healthy = (unparsable == 0 and len(groups) == 1 and
                                all(len(shs) >= v_[2] for v_, shs in groups.items()))
                post = crr.get_post_repair_results()
                if bool(post.is_healthy()) != disk_healthy:
                    ck.violation("post-repair-results-%s-although-the-repaired-file-is-%s" % (
                        "healthy" if post.is_healthy() else "unhealthy", "healthy" if disk_healthy else "unhealthy"),
                        "check_and_repair(verify=%s) repaired successfully; post_repair_results.is_healthy()=%r (%s); "
                        "on the reachable servers: %s" % (verify, post.is_healthy(), str(post.get_summary())[:80],
                                                          {"seq%d" % v_[0]: sorted(shs) for v_, shs in groups.items()}),
                        dict(self.desc, op=op, verify=verify))
                else:
                    ck.hit("post-repair-results-agree-with-the-grid")
            if attempted:
                self.judge_repair(op, False, st, successful, None, n0, pre)
                if successful:
                    ck.hit("check-and-repair-repaired")
            else:
                ck.hit("check-and-repair-no-repair-needed")
                if writes:
                    ck.violation("check-and-repair-wrote-without-repairing", "no repair attempted, %d writes sent" % len(writes),
                                 dict(self.desc, op=op))
        elif st == "err":
            err = "%s: %s" % (crr.type.__name__, str(crr.value)[:120])
            self.judge_repair(op, False, st, False, err, n0, pre)
        else:
            ck.observe("check-and-repair-" + st)
        ck.case("check-and-repair", key=self.case_key + (op,), nontrivial=self.nontrivial,
                sample=dict(self.desc, op=op, status=st))


# MUST_CATCH (selftest/breaks_c14.py; each produces violation keys that the unchanged tree never shows):
#   c14-health-ignores-unrecoverable-versions    caught  healthy-reported-despite-shares-of-another-version
#   c14-health-ignores-multiple-recoverable      caught  healthy-reported-despite-several-recoverable-versions
#   c14-health-k-shares-enough                   caught  healthy-reported-despite-fewer-than-n-distinct-shares
#   c14-repair-ignores-newer-unrecoverable       caught  unforced-repair-proceeds-despite-newer-unrecoverable-version
#   c14-newer-unrecoverable-compares-wrong-way   caught  same key
#   c14-repair-ignores-same-seqnum               caught  unforced-repair-proceeds-despite-same-seqnum-competitors
#   c14-repair-picks-oldest                      caught  content-after-repair-is-not-the-best-versions
#   c14-verify-ignores-bad-shares                caught  healthy-reported-with-corrupt-shares-the-verifier-did-not-list
#   c14-repair-reports-success-without-publish   caught  repair-did-not-write-exactly-one-new-version
#   c14-recoverable-reported-always              caught  recoverable-reported-but-file-is-unrecoverable
# History: healthy-reported-although-the-verifier-listed-corrupt-shares was fixed in /repo; known finding that remains:
#   healthy-reported-with-an-unverified-corrupt-copy-of-a-duplicated-share-number
#   seeded/C14-5 (verify skips private keys after the first good one)   caught  healthy-reported-with-a-corrupt-private-key-the-verifier-did-not-check  (family corrupt-privkey)
#   seeded/C14-4 (needs_merge looks at the two lowest versions)          caught  unforced-repair-proceeds-despite-same-seqnum-competitors  (family same-seqnum-top-plus-older)
# Genuine on the tree as of this change (diffs handed to the lead): healthy-reported-verify-finished-before-the-private-key-verdict,
#   post-repair-results-unhealthy-although-the-repaired-file-is-healthy
