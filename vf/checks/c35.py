"""C35 IncompleteHashTree accepts only genuine leaves, always accepts genuine chains, rolls back on rejection."""
META = {
    "level": 'exploration',
    "technique": 'runtime oracle on the real IncompleteHashTree.set_hashes: a genuine HashTree is the reference; every call is judged (success => tree holds only genuine nodes and no forged leaf was accepted; exception => node list identical to before; asked-for genuine hashes => must succeed); bounded-exhaustive adversarial enumeration plus seeded validation orders',
    "text": 'Executes the real hashtree.HashTree / IncompleteHashTree. For every tree of 1..8 leaves, every partially-filled state reachable by <=2 earlier successful validations, every target leaf and every genuine/forged/missing choice for each node of its chain (leaf + siblings), combined with an extra (none, forged unknown off-chain node, conflicting value for a known node, unvalidatable genuine node, out-of-range index, the leaf passed twice with different values through hashes= and leaves=), plus a dedicated sweep of calls that give the leaf in both arguments (genuine/forged x genuine/forged, chain as asked/complete/absent/forged) on root-only, partially and fully populated trees of 1..8, 13, 32, 64 leaves, plus self-consistent forged sub-trees (forged leaf + siblings + the volunteered interior hashes up to each height, top sibling withheld/genuine/forged, chain above absent/genuine) on root-only and partially populated trees of the same sizes, plus self-consistent forged sub-chains and whole chains taken from a different tree, set_hashes is called and judged against the genuine tree. Seeded random validation orders (single and multi-leaf, include_leaf on/off, leaves= vs hashes=) with interleaved forgeries for trees up to 64 leaves (biased to non-powers of two, exercising padding leaves). The enumeration is complete for the stated bound (exhaustive flag); larger trees are sampled. A passive class-level contract (attach_monitor) re-checks rollback and parent/child consistency on every call.',
    "note": 'Trusts HashTree as the definition of the genuine tree (its well-formedness is re-checked with the repo pair_hash / empty_leaf_hash) and that forged values are fresh random 32-byte strings (no SHA-256d collisions). Negative indices are not encodable on the wire and are counted as dont_care.',
}
LEVEL = "exploration"
BUDGET = {"quick": 45, "thorough": 300}
SHARDS = {"quick": 1, "thorough": 12}

import itertools
from vf import env  # noqa  MUST be first

G_, F_, M_ = "G", "F", "M"     # genuine / forged / missing


# --------------------------------------------------------------------------- passive monitor
def attach_monitor(ck, prefix="hashtree-"):
    """Wrap IncompleteHashTree.set_hashes at class level (icontract-style post-condition / invariant).

    After every call, whatever the caller:
      * exception  => list(tree) identical to the snapshot taken before the call
      * success    => every internal node whose two children are known equals pair_hash(children),
                      and no node that was known before the call changed or disappeared.
    Violations are reported on `ck` under '<prefix>state-changed-on-reject' ('<prefix>out-of-range-index-not-rolled-back'
    when the exception is the IndexError of an out-of-range hash index), '<prefix>inconsistent-tree',
    '<prefix>known-node-changed'.  Evaluations are counted as monitors 'monitor-rollback' / 'monitor-consistency'.
    Returns a zero-argument detach function.
    """
    from allmydata import hashtree
    cls = hashtree.IncompleteHashTree
    orig = cls.set_hashes
    if getattr(orig, "_vf_monitor", False):
        return lambda: None

    def consistent(tree):
        n = len(tree)
        for i in range((n - 1) // 2):
            l, r = tree[2 * i + 1], tree[2 * i + 2]
            if tree[i] is not None and l is not None and r is not None:
                if tree[i] != hashtree.pair_hash(l, r):
                    return i
        return None

    def set_hashes(self, hashes=None, leaves=None):
        before = list(self)
        try:
            res = orig(self, hashes, leaves)
        except BaseException as e:
            ck.mon("monitor-rollback")
            if list(self) != before:
                changed = [i for i in range(min(len(self), len(before))) if self[i] != before[i]]
                oob = isinstance(e, IndexError) and any(not (-len(self) <= i < len(self)) for i in (hashes or {}))
                ck.violation(prefix + ("out-of-range-index-not-rolled-back" if oob else "state-changed-on-reject"),
                             "set_hashes raised %s but nodes %r changed" % (type(e).__name__, changed[:10]),
                             {"exception": "%s: %s" % (type(e).__name__, e), "changed_nodes": changed[:20],
                              "hash_indices": sorted(hashes or {})[:40], "leaf_indices": sorted(leaves or {})[:40],
                              "tree_size": len(self)})
            raise
        ck.mon("monitor-consistency")
        bad = consistent(self)
        if bad is not None:
            ck.violation(prefix + "inconsistent-tree",
                         "after a successful set_hashes node %d != pair_hash(children)" % bad,
                         {"node": bad, "tree_size": len(self), "hash_indices": sorted(hashes or {})[:40],
                          "leaf_indices": sorted(leaves or {})[:40]})
        for i, h in enumerate(before):
            if h is not None and self[i] != h:
                ck.violation(prefix + "known-node-changed",
                             "successful set_hashes changed already-known node %d" % i, {"node": i})
                break
        return res

    set_hashes._vf_monitor = True
    set_hashes.__doc__ = orig.__doc__
    cls.set_hashes = set_hashes

    def detach():
        if cls.set_hashes is set_hashes:
            cls.set_hashes = orig
    return detach


# --------------------------------------------------------------------------- the oracle
class World(object):
    """One genuine tree + forged symbols for every node."""

    def __init__(self, hashtree, rng, nleaves):
        self.ht = hashtree
        self.n = nleaves
        self.leaves = [rng.randbytes(32) for _ in range(nleaves)]
        self.G = hashtree.HashTree(list(self.leaves))
        self.size = len(self.G)
        self.first = self.G.first_leaf_num
        self.F = [rng.randbytes(32) for _ in range(self.size)]
        self.rng = rng

    def wellformed(self):
        ht, G = self.ht, self.G
        if self.size != 2 * ht.roundup_pow2(self.n) - 1:
            return "size %d for %d leaves" % (self.size, self.n)
        for j in range(self.size - self.first):
            want = self.leaves[j] if j < self.n else ht.empty_leaf_hash(j)
            if G[self.first + j] != want:
                return "leaf %d" % j
        for i in range(self.first):
            if G[i] != ht.pair_hash(G[2 * i + 1], G[2 * i + 2]):
                return "internal node %d" % i
        return None

    def fresh(self, prelude=(), ck=None):
        """IncompleteHashTree seeded with the trusted root, then `prelude` leaves validated genuinely.
        A failing genuine prelude is itself a verdict ('genuine-rejected'); PreludeFailed tells the caller to skip."""
        t = self.ht.IncompleteHashTree(self.n)
        step = "root"
        try:
            t.set_hashes({0: self.G[0]})
            for j, a in enumerate(prelude):
                step = "leaf %d" % a
                need = t.needed_hashes(a, include_leaf=bool(j % 2))
                hs = dict((i, self.G[i]) for i in need)
                t.set_hashes(hs, leaves={a: self.G[self.first + a]})
        except Exception as e:
            if ck is not None:
                ck.mon("completeness-oracle")
                ck.violation("genuine-rejected",
                             "validating genuine %s with exactly the hashes needed_hashes() asked for failed: %s: %s"
                             % (step, type(e).__name__, e),
                             {"nleaves": self.n, "validation_order": list(prelude), "failed_at": step,
                              "exception": "%s: %s" % (type(e).__name__, e)})
            raise PreludeFailed(step)
        return t


class PreludeFailed(Exception):
    pass


def short(d):
    return dict((k, v[:4].hex()) for k, v in sorted(d.items()))


class Judge(object):
    def __init__(self, ck, hashtree):
        self.ck = ck
        self.ht = hashtree

    def call(self, W, t, hashes, leaves, info, must_accept=None, hashes_kw=True):
        """Run one set_hashes on the real tree `t` and judge it.  Returns 'ok' | 'rejected' | 'violated'.
        `info` is a small dict describing the case for the witness."""
        ck, ht = self.ck, self.ht
        before = list(t)
        asked_before = info.get("asked")
        exc = None
        try:
            if leaves is None:
                t.set_hashes(hashes)
            elif hashes is None:
                t.set_hashes(leaves=leaves)
            else:
                t.set_hashes(hashes, leaves) if not hashes_kw else t.set_hashes(hashes=hashes, leaves=leaves)
        except (ht.BadHashError, ht.NotEnoughHashesError) as e:
            exc = e
            ck.hit("reject-" + type(e).__name__)
        except Exception as e:   # IndexError for out-of-range indices, AssertionError ...
            exc = e
            ck.hit("reject-" + type(e).__name__)
        after = list(t)

        class _Wit(dict):
            """witness built lazily on first mutation/use"""
        wit = _Wit()

        def build():
            if not wit:
                wit.update(info)
                wit.update({"nleaves": W.n, "tree_size": W.size,
                            "known_before": [i for i, h in enumerate(before) if h is not None],
                            "hashes": short(hashes or {}), "leaves": short(leaves or {}),
                            "genuine": dict((i, W.G[i][:4].hex()) for i in range(min(W.size, 31)))})
            return wit
        verdict = "ok"
        if exc is not None:
            verdict = "rejected"
            ck.mon("rollback-oracle")
            if after != before:
                changed = [i for i in range(len(after)) if after[i] != before[i]]
                oob = [i for i in (hashes or {}) if i >= W.size]
                key = "out-of-range-index-not-rolled-back" if (isinstance(exc, IndexError) and oob) else "state-changed-on-reject"
                build().update({"exception": "%s: %s" % (type(exc).__name__, exc), "changed_nodes": changed,
                            "left_behind": dict((i, (after[i] or b"")[:4].hex()) for i in changed)})
                ck.violation(key, "set_hashes raised %s but left nodes %r modified (unvalidated hashes stay in the tree)"
                             % (type(exc).__name__, changed), build())
                verdict = "violated"
            in_range = all(0 <= i < W.size for i in (hashes or {})) and all(0 <= j < W.size - W.first for j in (leaves or {}))
            if in_range and not isinstance(exc, (ht.BadHashError, ht.NotEnoughHashesError)):
                build()["exception"] = "%s: %s" % (type(exc).__name__, exc)
                ck.violation("unexpected-exception-type", "in-range input rejected with %s" % type(exc).__name__, build())
                verdict = "violated"
            if must_accept:
                build()["exception"] = "%s: %s" % (type(exc).__name__, exc)
                ck.violation(must_accept, "genuine hashes the tree asked for (%r) plus the genuine leaf were rejected: %s: %s"
                             % (sorted(asked_before or []), type(exc).__name__, exc), build())
                verdict = "violated"
        else:
            ck.mon("soundness-oracle")
            # 1. no forged leaf accepted (whether or not it is remembered)
            # (whichever argument carries it: the caller treats a normal return as "the leaf I passed is valid", and a
            #  leaf-node hash inside `hashes` is just as much a claim about that leaf)
            claims = [(W.first + j, v, "leaves") for j, v in (leaves or {}).items()]
            claims += [(i, v, "hashes") for i, v in (hashes or {}).items() if W.first <= i < W.size]
            per_node = {}
            for i, v, src in claims:
                per_node.setdefault(i, set()).add(v)
            for i, v, src in sorted(claims):
                if i < W.size and v != W.G[i]:
                    build()["forged_leaf_node"] = i
                    build()["forged_value_carried_by"] = src
                    if len(per_node[i]) > 1:
                        ck.violation("conflicting-leaf-arguments-accepted",
                                     "set_hashes returned successfully although hashes[%d] and leaves[%d] disagree and the %s= value "
                                     "is not the genuine leaf (the caller concludes its forged leaf is valid)"
                                     % (i, i - W.first, src), build())
                    else:
                        ck.violation("forged-leaf-accepted",
                                     "set_hashes returned successfully although leaf node %d was given (in %s=) a value that is not the genuine leaf"
                                     % (i, src), build())
                    verdict = "violated"
                    break
            # 2. the tree holds genuine values only
            for i, h in enumerate(after):
                if h is not None and h != W.G[i]:
                    build()["forged_node"] = i
                    key = "forged-leaf-accepted" if i >= W.first else "forged-node-stored"
                    ck.violation(key, "after a successful set_hashes node %d holds a value different from the genuine tree" % i, build())
                    verdict = "violated"
                    break
            # 3. nothing known is forgotten
            for i, h in enumerate(before):
                if h is not None and after[i] is None:
                    ck.violation("known-node-forgotten", "successful set_hashes erased known node %d" % i, build())
                    verdict = "violated"
                    break
            if must_accept:
                ck.mon("completeness-oracle")
                # the validated leaf must now be usable (remembered) so that later needed_hashes shrink
                for j in (leaves or {}):
                    if after[W.first + j] != W.G[W.first + j]:
                        ck.observe("accepted-leaf-not-remembered")
        if exc is not None and must_accept:
            ck.mon("completeness-oracle")
        return verdict


# --------------------------------------------------------------------------- run
def run(ck):
    from allmydata import hashtree
    ck.rule = ("a case is one set_hashes call on a real IncompleteHashTree in a given reachable state; exhaustive part: "
               "(nleaves 1..8) x (known-set reachable by <=2 genuine validations, deduplicated) x (target leaf) x "
               "({genuine,forged,missing}^chain) x (extra in none/forged-offchain/conflict-known/genuine-unvalidatable/out-of-range), "
               "plus self-consistent forged sub-chains per level and whole chains from a second tree; random part: seeded "
               "validation orders over 1..64 leaves with interleaved forgeries. distinct = distinct (shape, known-set, "
               "supplied index->symbol map); non-trivial = at least one supplied hash")
    J = Judge(ck, hashtree)
    _directed(ck, hashtree, ck.rng("directed"))   # before the monitor is armed: its two-step witness is the one recorded
    detach = attach_monitor(ck, prefix="")
    try:
        _run(ck, hashtree, J)
    finally:
        detach()
    ck.require_monitor("soundness-oracle", "rollback-oracle", "completeness-oracle", "genuine-tree-wellformed",
                       "monitor-rollback", "monitor-consistency", "final-state")
    ck.require_reach("reject-BadHashError", "reject-NotEnoughHashesError", "reject-IndexError", "padding-leaf-in-chain",
                     "forged-consistent-subchain", "conflict-with-known-node", "alt-tree-chain",
                     "overlapping-arguments-GF", "overlapping-arguments-FG", "overlapping-arguments-FF", "overlapping-arguments-GG", "leaf-args-conflict",
                     "forged-subtree-top-withheld", "forged-subtree-top-genuine", "forged-subtree-top-forged",
                     "reused-aux-dict-retry")
    ck.skip("negative-index-not-wire-encodable")


def _directed(ck, hashtree, rng):
    # ---- directed two-step scenario first (so that its witness is the one recorded if it fires):
    # a rejected call carrying an out-of-range index must not leave unvalidated hashes behind that a later
    # call then trusts.
    for n in (4, 5, 8):
        W = World(hashtree, rng, n)
        try:
            t = W.fresh((), ck)
        except PreludeFailed:
            continue
        tgt = 0
        first = W.first
        forged_leaf = W.F[first + tgt]
        chain = W.G.needed_for(first + tgt)            # siblings bottom-up
        # forge the path node just below the root so that forged leaf + genuine siblings hash up to it
        h = forged_leaf
        node = first + tgt
        for sib in chain[:-1]:
            l, r = sorted([node, sib])
            h = hashtree.pair_hash(h if l == node else W.G[sib], W.G[sib] if l == node else h)
            node = (node - 1) // 2
        poison = {node: h} if node != 0 else {}
        if not poison:
            continue
        poison_call = dict(poison)
        poison_call[W.size + 7] = W.F[0]               # out-of-range index, iterated last
        before1 = list(t)
        try:
            t.set_hashes(poison_call)
            step1 = "accepted"
        except Exception as e:
            step1 = type(e).__name__
            ck.hit("reject-" + step1)
        ck.mon("rollback-oracle")
        left = [i for i in range(len(t)) if t[i] != before1[i]]
        hs = dict((s_, W.G[s_]) for s_ in chain[:-1])
        before = list(t)
        try:
            t.set_hashes(hs, leaves={tgt: forged_leaf})
            accepted = True
        except (hashtree.BadHashError, hashtree.NotEnoughHashesError):
            accepted = False
        ck.mon("soundness-oracle")
        if left or accepted:
            key = ("out-of-range-index-not-rolled-back" if (left and step1 == "IndexError")
                   else "forged-leaf-accepted" if accepted else "state-changed-on-reject")
            ck.violation(key,
                         "step 1: set_hashes(%r) (forged node + out-of-range index) -> %s, %s; "
                         "step 2: set_hashes(genuine siblings %r, leaves={%d: FORGED}) then %s"
                         % (sorted(poison_call), step1,
                            ("the unvalidated forged node(s) %r were left in the tree" % left) if left else "tree rolled back",
                            sorted(hs), tgt,
                            "ACCEPTED the forged leaf" if accepted else "rejected the forged leaf"),
                         {"nleaves": n, "tree_size": W.size, "step1_hashes": short(poison_call), "step1_outcome": step1,
                          "nodes_left_behind": left, "step2_hashes": short(hs), "step2_leaves": short({tgt: forged_leaf}),
                          "genuine_leaf": W.G[first + tgt][:4].hex(), "step2_accepted_forged_leaf": accepted,
                          "known_before_step2": [i for i, x in enumerate(before) if x is not None]})
        v1 = step1
        ck.case("poison-then-forge", key=("ptf", n), nontrivial=True, sample={"nleaves": n, "step1": v1, "step2_accepted": accepted})



def _run(ck, hashtree, J):
    rng = ck.rng("worlds")
    depth = 2
    maxn = 8
    complete = True
    case_idx = 0
    thorough = ck.tier == "thorough"
    sizes = list(range(1, maxn + 1))
    sizes += [9, 11, 12, 13, 15, 16] if thorough else [9, 13, 16]   # beyond the stated bound (5-node chains)

    _overlapping_arguments(ck, hashtree, J)
    _forged_subtrees(ck, hashtree, J)
    _reused_aux_dict(ck, hashtree, J)

    # ---- exhaustive part (stated bound first, then the random orders, then the sizes beyond the bound)
    for n in sizes:
        if n > maxn and not ck.extra.get("_random_done"):
            _random_orders(ck, hashtree, J)
            ck.extra["_random_done"] = 1
        W = World(hashtree, rng, n)
        ck.mon("genuine-tree-wellformed")
        bad = W.wellformed()
        if bad:
            ck.violation("genuine-tree-malformed", "HashTree(%d leaves) is not a well-formed padded Merkle tree at %s" % (n, bad), {"nleaves": n})
            continue
        W2 = World(hashtree, rng, n)                  # a different tree of the same shape
        first = W.first
        d = depth if n <= maxn else (2 if thorough else 1)
        if thorough and n <= maxn:
            d = 3
        # reachable states, deduplicated by known-set
        states = {}
        for k in range(d + 1):
            for seq in itertools.product(range(n), repeat=k):
                try:
                    t = W.fresh(seq, ck)
                except PreludeFailed:
                    continue
                ks = frozenset(i for i, h in enumerate(t) if h is not None)
                states.setdefault(ks, seq)
        for ks, seq in sorted(states.items(), key=lambda kv: (len(kv[1]), kv[1])):
            for tgt in range(n):
                case_idx += 1
                if not ck.mine(case_idx):
                    continue
                if ck.out_of_time():
                    complete = False
                    break
                try:
                    _enumerate_target(ck, hashtree, J, W, W2, seq, ks, tgt)
                except PreludeFailed:
                    pass
            if not complete:
                break
        if not complete:
            break
        if n == maxn:
            ck.extra["stated_bound_complete"] = True
    ck.extra["exhaustive_bound"] = {"max_leaves": maxn, "state_depth": 3 if thorough else depth, "also_enumerated_sizes": sizes[maxn:],
                                    "complete": bool(ck.extra.get("stated_bound_complete")), "all_sizes_complete": complete}
    ck.exhaustive = bool(ck.extra.get("stated_bound_complete"))

    # ---- seeded random validation orders, up to 64 leaves (normally already run above)
    if not ck.extra.pop("_random_done", None):
        _random_orders(ck, hashtree, J)


def _enumerate_target(ck, hashtree, J, W, W2, seq, ks, tgt):
    first = W.first
    leafnode = first + tgt
    sibs = W.G.needed_for(leafnode)                 # bottom-up siblings
    chain = [leafnode] + sibs
    if any(first + W.n <= s < W.size for s in sibs):
        ck.hit("padding-leaf-in-chain")
    try:
        t = W.fresh(seq, ck)
    except PreludeFailed:
        return
    offchain = [i for i in range(1, W.size) if i not in chain and i != 0]
    unknown_off = [i for i in offchain if i not in ks]
    known_nodes = [i for i in ks if i != 0 and i not in chain]
    extras = ["none"]
    if unknown_off:
        extras += ["forged-offchain", "genuine-unvalidatable"]
    extras.append("conflict-known")
    extras.append("out-of-range")
    extras.append("leaf-args-conflict")
    statekey = (W.n, tuple(sorted(ks)))

    def rebuild():
        return W.fresh(seq, ck)

    for assign in itertools.product((G_, F_, M_), repeat=len(chain)):
        for xi, extra in enumerate(extras):
            hashes = {}
            leaves = None
            for node, a in zip(chain, assign):
                if a == M_:
                    continue
                v = W.G[node] if a == G_ else W.F[node]
                if node == leafnode and (xi % 2 == 0):
                    leaves = {tgt: v}
                else:
                    hashes[node] = v
            genuine_only = F_ not in assign
            if extra == "forged-offchain":
                x = unknown_off[(tgt + len(hashes)) % len(unknown_off)]
                hashes[x] = W.F[x]
                genuine_only = False
            elif extra == "genuine-unvalidatable":
                x = unknown_off[(tgt + 1 + len(hashes)) % len(unknown_off)]
                hashes[x] = W.G[x]
            elif extra == "conflict-known":
                cands = known_nodes or [0]
                x = cands[(tgt + len(hashes)) % len(cands)]
                hashes[x] = W.F[x]
                genuine_only = False
                ck.hit("conflict-with-known-node")
            elif extra == "out-of-range":
                hashes[W.size + (tgt % 3)] = W.F[0]
            elif extra == "leaf-args-conflict":
                # the leaf is given twice, with different values, through hashes= and leaves=
                a = assign[0]
                if a == M_:
                    continue
                hashes[leafnode] = W.G[leafnode] if a == G_ else W.F[leafnode]
                leaves = {tgt: W.F[leafnode] if a == G_ else W.G[leafnode]}
                genuine_only = False
                ck.hit("leaf-args-conflict")
            asked = t.needed_hashes(tgt, include_leaf=False)
            supplied_nodes = set(hashes) | (set([leafnode]) if leaves else set())
            must = None
            if extra == "none" and genuine_only and supplied_nodes == set(asked) | {leafnode}:
                must = "genuine-rejected"
            info = {"prelude_validated_leaves": list(seq), "target_leaf": tgt, "chain": chain,
                    "assignment": "".join(assign), "extra": extra, "asked": sorted(asked)}
            v = J.call(W, t, hashes or ({} if leaves is None else None), leaves, info, must_accept=must,
                       hashes_kw=bool((tgt + xi) % 2))
            ck.case("exhaustive", key=(statekey, tgt, assign, extra), nontrivial=bool(hashes or leaves))
            if v != "rejected":
                t = rebuild()

    # ---- forged sub-chains that are consistent among themselves up to level L but not with the root/known ancestor
    for L in range(0, len(sibs)):
        # forge leaf; path nodes up to index L (0 = only leaf) are recomputed from forged child + (forged|genuine) sibling
        for forge_sibs in (False, True):
            hashes = {}
            h = W.F[leafnode]
            node = leafnode
            leaves = {tgt: h}
            for lvl, sib in enumerate(sibs):
                sv = W.F[sib] if (forge_sibs and lvl <= L) else W.G[sib]
                hashes[sib] = sv         # (a forged value for an already-known sibling is a conflict: must reject too)
                l, r = (node, sib) if node < sib else (sib, node)
                h = hashtree.pair_hash(h if l == node else sv, sv if l == node else h)
                node = (node - 1) // 2
                if lvl < L and node != 0:
                    hashes[node] = h       # supply the (forged, self-consistent) parent explicitly
            ck.hit("forged-consistent-subchain")
            info = {"prelude_validated_leaves": list(seq), "target_leaf": tgt, "scenario": "self-consistent forged sub-chain",
                    "level": L, "forged_siblings": forge_sibs, "asked": sorted(t.needed_hashes(tgt, include_leaf=True))}
            v = J.call(W, t, hashes, leaves, info)
            ck.case("forged-subchain", key=(statekey, tgt, L, forge_sibs), nontrivial=True)
            if v != "rejected":
                t = rebuild()

    # ---- a whole chain taken from a different (entirely self-consistent) tree of the same shape
    for with_root in (False, True):
        hashes = dict((s, W2.G[s]) for s in sibs)
        if with_root:
            hashes[0] = W2.G[0]
        ck.hit("alt-tree-chain")
        info = {"prelude_validated_leaves": list(seq), "target_leaf": tgt, "scenario": "chain from another tree",
                "with_root": with_root}
        v = J.call(W, t, hashes, {tgt: W2.G[leafnode]}, info)
        ck.case("alt-tree", key=(statekey, tgt, with_root), nontrivial=True)
        if v != "rejected":
            t = rebuild()
    # and: genuine chain but the other tree's leaf / genuine leaf with one sibling from the other tree
    for which in range(len(sibs) + 1):
        hashes = dict((s, W.G[s]) for s in sibs)
        leafv = W.G[leafnode]
        if which == 0:
            leafv = W2.G[leafnode]
        else:
            hashes[sibs[which - 1]] = W2.G[sibs[which - 1]]
        v = J.call(W, t, hashes, {tgt: leafv}, {"prelude_validated_leaves": list(seq), "target_leaf": tgt,
                                                "scenario": "one value from another tree", "which": which})
        ck.case("alt-value", key=(statekey, tgt, which), nontrivial=True)
        if v != "rejected":
            t = rebuild()


def _overlapping_arguments(ck, hashtree, J):
    """One call that passes the leaf both as leaves={k: v1} and as hashes[first_leaf+k] = v2 (mutable retrieve passes a
    server-controlled `hashes` next to the leaf it computed itself): every (v2, v1) in {genuine, forged}^2, with the
    rest of the chain as the tree asked for it / complete / absent, on root-only, partially populated and full trees."""
    rng = ck.rng("overlap")
    for n in list(range(1, 9)) + [13, 32, 64]:
        W = World(hashtree, rng, n)
        first = W.first
        preludes = [("root-only", ())]
        if n > 1:
            others = list(range(n))
            rng.shuffle(others)
            preludes.append(("partial-1", tuple(others[:1])))
            preludes.append(("partial-half", tuple(others[:max(1, n // 2)])))
        preludes.append(("full", tuple(range(n))))
        for pname, prelude in preludes:
            targets = list(range(n)) if n <= 8 else sorted(set([0, 1, n // 2, n - 2, n - 1] + [rng.randrange(n) for _ in range(4)]))
            try:
                t = W.fresh(prelude, ck)
            except PreludeFailed:
                continue
            for tgt in targets:
                leafnode = first + tgt
                sibs = W.G.needed_for(leafnode)
                for chain_mode in ("asked", "complete", "none", "forged-sibling"):
                    for hv in (G_, F_):
                        for lv in (G_, F_):
                            if chain_mode == "asked":
                                hashes = dict((i, W.G[i]) for i in t.needed_hashes(tgt, include_leaf=False))
                            elif chain_mode == "complete":
                                hashes = dict((i, W.G[i]) for i in sibs)
                            elif chain_mode == "none":
                                hashes = {}
                            else:
                                hashes = dict((i, W.G[i]) for i in sibs)
                                if sibs:
                                    hashes[sibs[0]] = W.F[sibs[0]]
                            asked = sorted(t.needed_hashes(tgt, include_leaf=True))
                            # insertion order of the overlapping key varies too (first / last)
                            hval = W.G[leafnode] if hv == G_ else W.F[leafnode]
                            if (tgt + len(hashes)) % 2:
                                hashes = dict([(leafnode, hval)] + list(hashes.items()))
                            else:
                                hashes[leafnode] = hval
                            leaves = {tgt: W.G[leafnode] if lv == G_ else W.F[leafnode]}
                            must = None
                            if hv == G_ and lv == G_ and chain_mode == "asked":
                                must = "genuine-rejected"
                            ck.hit("overlapping-arguments-%s%s" % (hv, lv))
                            v = J.call(W, t, hashes, leaves,
                                       {"scenario": "leaf given in both arguments", "tree_state": pname,
                                        "validated_before": list(prelude)[:16], "target_leaf": tgt, "chain": chain_mode,
                                        "hashes_leafnode_value": hv, "leaves_value": lv, "asked": asked},
                                       must_accept=must, hashes_kw=bool(tgt % 2))
                            ck.case("overlapping-arguments", key=(n, pname, tgt, chain_mode, hv, lv), nontrivial=True,
                                    sample={"nleaves": n, "state": pname, "target": tgt, "chain": chain_mode, "hashes": hv, "leaves": lv})
                            if v != "rejected":
                                try:
                                    t = W.fresh(prelude, ck)
                                except PreludeFailed:
                                    break


def _forged_subtrees(ck, hashtree, J):
    """Self-consistent forged sub-trees: forged leaf X + siblings + the (un-asked-for) interior hashes h(child+sibling),
    level by level up to height h, so that every supplied parent equals the hash of the children supplied with it; the
    sibling of the topmost forged node is withheld / genuine / forged; the chain above it is absent or genuine.  Nothing
    in such a call ties the forged sub-tree to the trusted root, so it must be rejected and leave the tree unchanged."""
    rng = ck.rng("subtrees")
    for n in list(range(1, 9)) + [13, 32, 64]:
        W = World(hashtree, rng, n)
        first = W.first
        preludes = [("root-only", ())]
        if n > 1:
            others = list(range(n))
            rng.shuffle(others)
            preludes.append(("partial-1", tuple(others[:1])))
            preludes.append(("partial-2", tuple(others[:2])))
            if n > 4:
                preludes.append(("partial-half", tuple(others[:n // 2])))
        for pname, prelude in preludes:
            try:
                t = W.fresh(prelude, ck)
            except PreludeFailed:
                continue
            targets = list(range(n)) if n <= 8 else sorted(set([0, 1, n // 2, n - 2, n - 1] + [rng.randrange(n) for _ in range(4)]))
            for tgt in targets:
                leafnode = first + tgt
                sibs = W.G.needed_for(leafnode)              # sibling of the path node at level 0, 1, ...
                for h in range(1, len(sibs) + 1):
                    for sib_mode in (F_, G_):
                        for top in ("withheld", "genuine", "forged"):
                            for rest in ("none", "genuine"):
                                if h == len(sibs) and (top != "withheld" or rest != "none"):
                                    continue                 # the top of the sub-tree is the root itself
                                X = W.F[leafnode]
                                hashes = {}
                                node, val = leafnode, X
                                for lvl in range(h):
                                    sib = sibs[lvl]
                                    sv = W.F[sib] if sib_mode == F_ else W.G[sib]
                                    hashes[sib] = sv
                                    val = hashtree.pair_hash(val, sv) if node < sib else hashtree.pair_hash(sv, val)
                                    node = (node - 1) // 2
                                    if node != 0:
                                        hashes[node] = val   # the volunteered interior node, consistent with its children
                                if h < len(sibs):
                                    if top == "genuine":
                                        hashes[sibs[h]] = W.G[sibs[h]]
                                    elif top == "forged":
                                        hashes[sibs[h]] = W.F[sibs[h]]
                                    if rest == "genuine":
                                        for sib in sibs[h + 1:]:
                                            hashes[sib] = W.G[sib]
                                if (tgt + h) % 2:            # vary dict insertion order: top-down instead of bottom-up
                                    hashes = dict(reversed(list(hashes.items())))
                                ck.hit("forged-subtree-top-" + top)
                                v = J.call(W, t, hashes, {tgt: X},
                                           {"scenario": "self-consistent forged sub-tree", "tree_state": pname,
                                            "validated_before": list(prelude)[:16], "target_leaf": tgt, "height": h,
                                            "lower_siblings": sib_mode, "top_sibling": top, "chain_above": rest,
                                            "top_forged_node": node, "asked": sorted(t.needed_hashes(tgt, include_leaf=True))},
                                           hashes_kw=bool((tgt + h) % 3))
                                ck.case("forged-subtree", key=(n, pname, tgt, h, sib_mode, top, rest), nontrivial=True,
                                        sample={"nleaves": n, "state": pname, "target": tgt, "height": h, "top": top})
                                if v != "rejected":
                                    try:
                                        t = W.fresh(prelude, ck)
                                    except PreludeFailed:
                                        break


def _reused_aux_dict(ck, hashtree, J):
    """Retry with ONE auxiliary dict object: the caller fetches the genuine chain the tree asked for once, tries a forged
    leaf against it (1..2 times; must be rejected, tree unchanged) and then the genuine leaf with the very same dict
    object.  Everything the caller supplied in the last call is genuine and is exactly what the tree asked for, so it
    must be accepted: a rejected input may not survive anywhere (tree or caller-held arguments) and turn a later genuine
    validation into a rejection."""
    rng = ck.rng("reused-aux")
    for n in list(range(2, 9)) + [1, 13, 64]:
        W = World(hashtree, rng, n)
        first = W.first
        preludes = [("root-only", ())]
        if n > 2:
            preludes.append(("partial-1", (rng.randrange(n),)))
        for pname, prelude in preludes:
            targets = list(range(n)) if n <= 8 else sorted(set([0, 1, n // 2, n - 1, rng.randrange(n)]))
            for tgt in targets:
                for attempts in (1, 2):
                    try:
                        t = W.fresh(prelude, ck)
                    except PreludeFailed:
                        break
                    leafnode = first + tgt
                    asked = t.needed_hashes(tgt, include_leaf=False)
                    aux = dict((i, W.G[i]) for i in asked)          # fetched once, genuine, reused as the same object
                    aux_keys = sorted(aux)
                    kw = bool((tgt + attempts) % 2)
                    info = {"scenario": "auxiliary dict object reused across a rejected forged attempt and a genuine retry",
                            "tree_state": pname, "validated_before": list(prelude), "target_leaf": tgt,
                            "forged_attempts": attempts, "asked": sorted(asked), "aux_keys_supplied_by_caller": aux_keys}
                    ok = True
                    for a in range(attempts):
                        forged = W.F[leafnode] if a == 0 else rng.randbytes(32)
                        v = J.call(W, t, aux, {tgt: forged}, dict(info, step="forged attempt %d" % (a + 1)), hashes_kw=kw)
                        if v != "rejected":
                            ok = False
                            break
                    if ok:
                        ck.hit("reused-aux-dict-retry")
                        leaked = sorted(set(aux) - set(aux_keys))
                        J.call(W, t, aux, {tgt: W.G[leafnode]},
                               dict(info, step="genuine retry with the same dict object",
                                    keys_added_to_callers_dict_by_rejected_call=leaked,
                                    callers_dict_values_changed=[i for i in aux_keys if aux.get(i) != W.G[i]]),
                               must_accept="genuine-rejected-after-rejected-forgery", hashes_kw=kw)
                    ck.case("reused-aux-dict", key=(n, pname, tgt, attempts), nontrivial=True,
                            sample={"nleaves": n, "state": pname, "target": tgt, "forged_attempts": attempts})


def _refresh(W, done):
    try:
        return W.fresh(done)
    except PreludeFailed:
        return None


def _random_orders(ck, hashtree, J):
    rng = ck.rng("orders")
    ntrees = {"quick": 400, "thorough": 1500}[ck.tier]
    special = [1, 2, 3, 4, 5, 7, 8, 9, 15, 16, 17, 31, 32, 33, 47, 63, 64]
    for ti in range(ntrees):
        if ck.out_of_time() and ti >= 20:       # a minimum always runs so that the verdict covers validation orders
            ck.observe("random-orders-stopped-on-budget")
            break
        n = rng.choice(special) if rng.random() < 0.6 else rng.randint(1, 64)
        W = World(hashtree, rng, n)
        ck.mon("genuine-tree-wellformed")
        bad = W.wellformed()
        if bad:
            ck.violation("genuine-tree-malformed", "HashTree(%d leaves) malformed at %s" % (n, bad), {"nleaves": n})
            continue
        try:
            t = W.fresh((), ck)
        except PreludeFailed:
            continue
        first = W.first
        order = list(range(n))
        rng.shuffle(order)
        if rng.random() < 0.3:
            order = order + [rng.randrange(n) for _ in range(3)]     # re-validate some leaves
        pos = 0
        steps = []
        done = []
        while pos < len(order):
            group = order[pos:pos + (1 if rng.random() < 0.75 else rng.randint(2, 4))]
            pos += len(group)
            # --- an adversarial attempt first (sometimes)
            if rng.random() < 0.45:
                a = group[0]
                chain = [first + a] + W.G.needed_for(first + a)
                mode = rng.choice(("forged-leaf", "forged-sibling", "forged-all", "empty-bytes", "swap-siblings",
                                   "truncated", "extra-forged", "out-of-range", "leaf-of-neighbour"))
                hashes = dict((i, W.G[i]) for i in chain[1:])
                leafv = W.G[first + a]
                if mode == "forged-leaf":
                    leafv = W.F[first + a]
                elif mode == "forged-sibling" and len(chain) > 1:
                    x = rng.choice(chain[1:]); hashes[x] = W.F[x]
                elif mode == "forged-all":
                    hashes = dict((i, W.F[i]) for i in chain[1:]); leafv = W.F[first + a]
                elif mode == "empty-bytes" and len(chain) > 1:
                    x = rng.choice(chain[1:]); hashes[x] = b""
                    leafv = W.F[first + a]
                elif mode == "swap-siblings" and len(chain) > 1:
                    hashes[chain[1]] = W.G[first + a]; leafv = W.G[chain[1]]
                elif mode == "truncated" and len(chain) > 1:
                    hashes.pop(rng.choice(chain[1:])); leafv = W.F[first + a]
                elif mode == "extra-forged":
                    x = rng.randrange(1, W.size) if W.size > 1 else 0
                    hashes[x] = W.F[x]
                    leafv = W.F[first + a]
                elif mode == "out-of-range":
                    x = rng.choice([i for i in chain[1:]] or [0])
                    hashes = {x: W.F[x] if x else W.G[0]}
                    hashes[W.size + rng.randrange(0, 5)] = W.F[0]
                    hashes[65535] = W.F[0]
                elif mode == "leaf-of-neighbour" and n > 1:
                    leafv = W.G[first + (a + 1) % n]
                ck.hit("random-attack-" + mode)
                v = J.call(W, t, hashes, {a: leafv}, {"scenario": "random attack " + mode, "target_leaf": a,
                                                      "validated_so_far": steps[-12:]})
                if v == "violated":
                    t = _refresh(W, done)
                    if t is None:
                        break
            # --- the genuine validation of `group` (must be accepted)
            incl = rng.random() < 0.5
            asked = set()
            for a in group:
                asked |= t.needed_hashes(a, include_leaf=incl)
            hashes = dict((i, W.G[i]) for i in asked)
            leaves = dict((a, W.G[first + a]) for a in group)
            via_hashes = rng.random() < 0.25
            if via_hashes:
                for a in group:
                    hashes[first + a] = W.G[first + a]
                leaves_arg = None
            else:
                leaves_arg = leaves
            must = "genuine-rejected" if len(group) == 1 else "genuine-multi-leaf-rejected"
            v = J.call(W, t, hashes, leaves_arg, {"scenario": "random order genuine validation", "group": group,
                                                  "include_leaf": incl, "validated_so_far": steps[-12:],
                                                  "asked": sorted(asked)}, must_accept=must)
            steps.append(group if len(group) > 1 else group[0])
            done.extend(group)
            if v == "violated":
                t = _refresh(W, done)
                if t is None:
                    break
        if t is None:
            ck.case("random-order", key=(n, tuple(order)), nontrivial=n > 1)
            continue
        # at the end every real leaf is known and genuine; nothing more is needed
        ck.mon("final-state")
        for a in range(n):
            if t[first + a] != W.G[first + a]:
                ck.violation("validated-leaf-not-known", "after validating all leaves, leaf %d is %r" % (a, t[first + a]),
                             {"nleaves": n, "order": order[:70]})
                break
            if t.needed_hashes(a, include_leaf=True):
                ck.violation("needed-hashes-nonempty-after-validation", "needed_hashes(%d) = %r after every leaf was validated"
                             % (a, sorted(t.needed_hashes(a, include_leaf=True))), {"nleaves": n, "order": order[:70]})
                break
        ck.case("random-order", key=(n, tuple(order)), nontrivial=n > 1, sample={"nleaves": n, "order": order[:20]})


# MUST_CATCH -- planted in a scratch copy (VF_REPO) on top of the proposed IndexError-rollback fix; quick tier, seed 0:
#  caught  parent==root never compared (skip the root comparison)          -> forged-leaf-accepted, forged-node-stored, inconsistent-tree
#  caught  no rollback at all in the except clause                         -> state-changed-on-reject
#  caught  rollback only for BadHashError (not NotEnoughHashesError)       -> state-changed-on-reject
#  caught  missing sibling -> `continue` (accept with one sibling known)   -> forged-leaf-accepted, forged-node-stored
#  caught  duplicate of a known node not compared                          -> forged-leaf-accepted
#  caught  needed_hashes() omits the top siblings                          -> genuine-rejected, genuine-multi-leaf-rejected
#  caught  left/right not sorted before pair_hash                          -> genuine-rejected, forged-leaf-accepted, inconsistent-tree
#  caught  levels processed top-down                                       -> forged-leaf-accepted, forged-node-stored, genuine-rejected
#  caught  IncompleteHashTree built one level short                        -> genuine-rejected
#  caught  HashTree pads with empty_leaf_hash(0)                           -> genuine-tree-malformed
#  caught  computed parents not added to remove_upon_failure               -> state-changed-on-reject
#  caught  parent comparison skipped for even-numbered nodes               -> state-changed-on-reject
#  caught  a parent supplied in the same call and equal to h(children) dropped from the check set when its own parent is
#          present (seeded/C35-5; needs the top sibling WITHHELD, which round 1's sub-chains never did) -> forged-leaf-accepted
#  caught  leaves=/hashes= conflict check removed, either argument winning (seeded/C35-4: hashes wins, the caller's forged
#          leaves= value is dropped and the call returns normally)      -> conflicting-leaf-arguments-accepted
#          (round 1 of this check counted that as dont_care; wrong: a normal return tells the caller its leaf is valid)
#  caught  set_hashes merges leaves= into the CALLER's hashes dict (no copy; seeded/C35-9): the forged leaf of a rejected
#          call survives in the caller's auxiliary dict and the genuine retry with the same dict object is refused
#                                                                          -> genuine-rejected-after-rejected-forgery
# Tree before 24975d1: out-of-range-index-not-rolled-back (genuine, hashtree.py:477; fixed since).
