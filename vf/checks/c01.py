"""C01 immutable upload/download round-trip."""
META = {
    "level": "exploration",
    "technique": "runtime monitoring of real upload+download on an in-process grid under seeded delivery schedules; byte-equality oracle plus independent segmentation model",
    "text": "Runs the real Uploader/Encoder/storage servers/downloader for generated (size, k, happy, N, max segment size, server count, uploadable kind, transport profile, schedule seed) tuples with boundary-biased sizes; every read (full, from a fresh node, from each chosen k-subset of shares only) must equal the uploaded bytes, the cap and the stored URI extension block must match an independent arithmetic model of the segmentation. Sampled, not exhaustive.",
    "note": "Trusts the in-process Wire (stands in for foolscap/TCP), the virtual reactor and the RangeMap shim; HTTP storage transport is covered by C31.",
}
BUDGET = {"quick": 40, "thorough": 420}

from vf import env  # noqa
import os


def run(ck):
    from vf.grid import VGrid
    from vf import imm
    from allmydata import uri
    from allmydata.interfaces import NoSharesError, NotEnoughSharesError

    ck.rule = ("case = (size,k,happy,N,max_segsize,nservers,uploadable kind,convergence on/off,transport profile,"
               "timer policy, schedule seed); sizes boundary-biased around 55/56, k and segment multiples; distinct = "
               "distinct (size,k,N,segsize,nservers,profile) tuple; non-trivial = non-literal file (size>55)")
    rng = ck.rng("c01")
    maxsize = 20000 if ck.tier == "quick" else 300000
    i = 0
    schedules = set()
    while ck.more(min_cases=120):
        i += 1
        if not ck.mine(i):
            rng.random()
            continue
        crng = ck.rng("case", i)
        p = imm.gen_params(crng, maxsize=maxsize if crng.random() < .9 else maxsize * 2,
                           maxn=16 if crng.random() < .3 else 8)
        if i % 10 == 7:
            # more than ten servers, every share needed (k = N or N-1): the reader must ask servers beyond its first ten
            # outstanding share queries, in whatever order the answers come back
            nn = crng.randint(11, 16)
            p.update(n=nn, k=crng.choice([nn, nn, nn - 1]), nservers=nn + crng.randint(0, 3), happy=1,
                     size=crng.choice([56, 100, 1000, p["size"]]))
            p["size"] = max(56, p["size"])
        if i % 40 in (1, 2, 3, 4):
            # the literal boundaries are always present, whatever the seed: empty file, one byte, 55 (last literal), 56
            p["size"] = (0, 1, 55, 56)[i % 40 - 1]
        profile = crng.choice(["fifo", "per-server-fifo", "per-server-fifo", "free"])
        if i % 10 == 7:
            profile = crng.choice(["free", "free", "per-server-fifo"])
            ck.hit("more-than-ten-servers-all-shares-needed")
        eager = crng.choice([0.0, 0.0, 0.02])
        g = VGrid(nservers=p["nservers"], seed=crng.getrandbits(32), profile=profile, eager_timers=eager,
                  keep_log=False)
        if i % 10 == 7:
            # every server answers the share query a little late, so that more than ten queries are outstanding at once
            for vs in g.servers:
                vs.add_fault("delay", method="get_buckets", delay=crng.choice([0.05, 0.05, 0.5]))
        from allmydata.immutable.downloader.node import DownloadNode
        saved_guess = DownloadNode.default_max_segment_size
        # the downloader's initial guess of the segment size (1 MiB in production): below / equal / above the real one
        DownloadNode.default_max_segment_size = crng.choice([saved_guess, saved_guess, 16, max(1, p["segsize"] // 2),
                                                              p["segsize"], p["segsize"] * 2 + 1])
        try:
            with ck.watchdog(180, "case %d %r" % (i, p)):
                one_case(ck, g, p, crng, profile, schedules)
        finally:
            DownloadNode.default_max_segment_size = saved_guess
            g.close()
        if ck.tier == "quick" and ck.evaluations >= 1200:
            break
    ck.extra["distinct_schedules"] = len(schedules)
    ck.extra["eventual_exceptions"] = 0
    ck.require_monitor("byte-equality", "ueb-model")
    ck.require_reach("multi-segment", "literal", "empty-file", "tail-padded", "k-subset-read",
                     "more-than-ten-servers-all-shares-needed")


def one_case(ck, g, p, rng, profile, schedules):
    from vf import imm
    from allmydata import uri
    k, n, happy, size, segsize = p["k"], p["n"], p["happy"], p["size"], p["segsize"]
    c = g.make_client(k=k, happy=happy, n=n, max_segment_size=segsize)
    data = imm.gen_data(rng, size)
    conv = rng.choice([None, b"", b"secret-%d" % rng.randrange(3)])
    ukind = rng.choice(["data", "filehandle", "chunky"])
    u = imm.make_uploadable(rng, data, conv, ukind)
    desc = dict(p, profile=profile, uploadable=ukind, convergence=conv is not None)
    st, res = g.wait(c.upload(u))
    key = (size, k, n, segsize, p["nservers"], profile)
    if st != "ok":
        ck.violation("upload-failed-on-honest-grid",
                     "upload %s on an all-honest grid that can satisfy happy: %s" % (st, _f(res)), desc)
        ck.case("upload-fail", key=key, sample=desc)
        return
    cap = res.get_uri()
    u_ = uri.from_string(cap)
    if size <= 55:
        ck.hit("literal")
        if size == 0:
            ck.hit("empty-file")
        if not isinstance(u_, uri.LiteralFileURI):
            ck.violation("small-file-not-literal", "size %d gave %r" % (size, cap), desc)
    else:
        if not isinstance(u_, uri.CHKFileURI):
            ck.violation("large-file-not-chk", "size %d gave %r" % (size, cap), desc)
        else:
            if (u_.needed_shares, u_.total_shares, u_.size) != (k, n, size):
                ck.violation("cap-parameters-differ", "cap says %r, uploaded with %r" % (
                    (u_.needed_shares, u_.total_shares, u_.size), (k, n, size)), desc)
            exp = imm.expected_encoding(size, k, segsize)
            shares = g.find_shares(u_.get_storage_index())
            if not shares:
                ck.violation("no-shares-on-disk", "successful upload left no share files", desc)
            for (vs, shnum, path) in shares[:2]:
                sf = imm.ShareFile(path)
                ueb = sf.ueb()
                ck.mon("ueb-model")
                got = (ueb["segment_size"], ueb["num_segments"], ueb["size"], ueb["needed_shares"], ueb["total_shares"])
                want = (exp["segment_size"], exp["num_segments"], size, k, n)
                if got != want:
                    ck.violation("ueb-segmentation-differs-from-model",
                                 "UEB (segsize,numsegs,size,k,N)=%r, model %r" % (got, want), desc)
                tail = ueb["tail_codec_params"]
                want_tail = b"%d-%d-%d" % (exp["tail_segment_padded"], k, n)
                if tail != want_tail:
                    ck.violation("tail-codec-params-differ", "%r vs model %r" % (tail, want_tail), desc)
            if exp["num_segments"] > 1:
                ck.hit("multi-segment")
            if exp["tail_segment_padded"] != (size % exp["segment_size"] or exp["segment_size"]):
                ck.hit("tail-padded")

    def check_read(node, label):
        st2, r2, cons = imm.read_all(g, node)
        ck.mon("byte-equality")
        if st2 != "ok":
            ck.violation("read-failed-on-honest-grid", "%s: read %s: %s" % (label, st2, _f(r2)), desc)
            return False
        if cons.value() != data:
            ck.violation("roundtrip-bytes-differ",
                         "%s: read returned %d bytes, differ from the %d uploaded (first diff at %s)" % (
                             label, cons.nbytes, len(data), _firstdiff(cons.value(), data)), desc)
            return False
        return True

    node = c.create_node_from_uri(cap)
    ok = check_read(node, "first-read")
    # second read on the same node object (warm caches), then a fresh node (cold guesses)
    if ok and rng.random() < .5:
        check_read(node, "warm-read")
    c2 = g.make_client(k=rng.randint(1, 3), happy=1, n=rng.randint(3, 10))  # reader with other defaults
    check_read(c2.create_node_from_uri(cap), "fresh-client-read")
    # reads from k shares only: one disjoint k-subset of share numbers
    if size > 55 and ok:
        si = u_.get_storage_index()
        allsh = g.find_shares(si)
        nums = sorted(set(s for (_, s, _) in allsh))
        if len(nums) >= k:
            groups = [nums[j:j + k] for j in range(0, len(nums), k)]
            if len(groups[-1]) < k:
                groups[-1] = nums[-k:]
            grp = rng.choice(groups)
            hidden = []
            for (vs, s, path) in allsh:
                if s not in grp:
                    os.rename(path, path + ".hidden")
                    hidden.append(path)
            ck.hit("k-subset-read")
            c3 = g.make_client(k=k, happy=1, n=n)
            check_read(c3.create_node_from_uri(cap), "k-subset-%s" % (grp,))
            for path in hidden:
                os.rename(path + ".hidden", path)
    schedules.add(g.sched.schedule_hash())
    ck.observe("eventual-exceptions", len(env.evq.exceptions))
    ck.case("roundtrip-" + ("lit" if size <= 55 else "chk"), key=key, nontrivial=size > 55, sample=desc)


def _f(res):
    try:
        return "%s: %s" % (res.type.__name__, str(res.value)[:300])
    except Exception:
        return repr(res)[:300]


def _firstdiff(a, b):
    for i, (x, y) in enumerate(zip(a, b)):
        if x != y:
            return i
    return min(len(a), len(b))
