"""C40 web API byte-range downloads follow RFC 7233."""
META = {
    "level": "exploration",
    "technique": "runtime monitoring of the real web API (Root/FileNodeHandler/FileDownloader behind real twisted.web requests) against an independent RFC 7233 single-range evaluator",
    "text": "Uploads literal, multi-segment CHK, SDMF and MDMF files through a real client on an in-process grid, then issues GET and HEAD requests with boundary-biased Range headers (first/last/open-ended/suffix around 0, EOF, segment boundaries; inverted, other-unit, garbage, leniently spelled and multi-range headers) against /uri/<cap>, /file/<cap>/name and /uri/<dircap>/<name>. A from-scratch evaluator written from RFC 7233 sections 2.1/4.1/4.4 says 206+slice+Content-Range+Content-Length, 416, or 200+full file; HEAD must give the same status/headers and no body (also judged at IRequest.write, because twisted.web discards HEAD bodies). Leniently spelled and multi-range headers are judged for internal consistency only. Quick samples sizes 0..300; thorough enumerates every size 0..300 x the complete boundary header set x 3 encodings, plus larger random files.",
    "note": "Trusts vf.web (StubTreq transport, twisted.web client parsing), the in-process grid, and the 40-line evaluator (unit-checked against hand-computed vectors at start-up). An unsatisfiable range is required to give 416 as the property statement says (RFC 7233 itself only says SHOULD).",
}
LEVEL = "exploration"
BUDGET = {"quick": 40, "thorough": 300}
SHARDS = {"quick": 1, "thorough": 12}

import re
from vf import env  # noqa

BIG = 10 ** 20


# ----------------------------------------------------------------- the oracle (RFC 7233, independent of the code)
_SPEC = re.compile(r"^(?:(\d+)-(\d*)|-(\d+))$")


def evaluate(header, L):
    """Strict RFC 7233 reading of a Range header for a representation of L bytes.
    -> ("partial", first, last) | ("unsat",) | ("ignore",) | ("open", why)
    "open" = the statement leaves the answer open (multi-range; syntactically valid set we do not judge)."""
    if not header.startswith("bytes="):          # other range unit, or no "=" at all: MUST ignore (3.1)
        return ("ignore",)
    specs = header[len("bytes="):].split(",")
    parsed = []
    for s in specs:
        s = s.strip(" \t")                       # 1#rule allows OWS around the commas
        m = _SPEC.match(s)
        if not m:
            return ("ignore",)                   # not a byte-range-set: cannot be parsed
        if m.group(3) is not None:
            parsed.append(("suffix", int(m.group(3))))
        else:
            a = int(m.group(1))
            b = int(m.group(2)) if m.group(2) != "" else None
            if b is not None and b < a:
                return ("ignore",)               # 2.1: invalid byte-range-spec -> the whole set is invalid
            parsed.append(("range", a, b))
    if len(parsed) != 1:
        return ("open", "multi-range")
    p = parsed[0]
    if p[0] == "suffix":
        n = p[1]
        if n == 0:
            return ("unsat",)
        if L == 0:
            return ("unsat-or-full",)            # nothing to select and no valid Content-Range exists for it
        return ("partial", max(0, L - n), L - 1)
    a, b = p[1], p[2]
    if a >= L:
        return ("unsat",)
    return ("partial", a, L - 1 if b is None else min(b, L - 1))


def _selfcheck_oracle():
    v = [("bytes=0-0", 1, ("partial", 0, 0)), ("bytes=0-", 1, ("partial", 0, 0)), ("bytes=1-", 1, ("unsat",)),
         ("bytes=0-", 0, ("unsat",)), ("bytes=-1", 10, ("partial", 9, 9)), ("bytes=-20", 10, ("partial", 0, 9)),
         ("bytes=-0", 10, ("unsat",)), ("bytes=-3", 0, ("unsat-or-full",)), ("bytes=2-1", 10, ("ignore",)),
         ("bytes=3-100", 10, ("partial", 3, 9)), ("bytes=9-9", 10, ("partial", 9, 9)), ("bytes=10-10", 10, ("unsat",)),
         ("items=0-1", 10, ("ignore",)), ("bytes=a-b", 10, ("ignore",)), ("bytes=+1-2", 10, ("ignore",)),
         ("bytes=0-1,3-4", 10, ("open", "multi-range")), ("bytes=0-1, x", 10, ("ignore",)), ("bytes", 10, ("ignore",)),
         ("bytes=", 10, ("ignore",)), ("bytes=-", 10, ("ignore",)), ("bytes=5", 10, ("ignore",))]
    for h, L, want in v:
        got = evaluate(h, L)
        assert got == want, (h, L, got, want)


_CR = re.compile(r"^bytes (\d+)-(\d+)/(\d+)$")


# ----------------------------------------------------------------- header generators
def boundary_values(L, seg):
    vs = {0, 1, 2, L // 2, L - 2, L - 1, L, L + 1, seg - 1, seg, seg + 1, 2 * seg - 1, 2 * seg, 55, 56}
    return sorted(v for v in vs if v >= 0)


def single_headers(L, seg):
    """Complete boundary set of syntactically valid single-range headers for length L: [(header, form)]"""
    out = []
    vs = boundary_values(L, seg)
    firsts = sorted(set(v for v in vs if v <= L + 1))
    for a in firsts:
        lasts = sorted(set([a, a + 1, L - 2, L - 1, L, L + 1, seg - 1, seg, seg + 1, 2 * seg - 1, 2 * seg, 2 * seg + 1, BIG]))
        for b in lasts:
            if b >= a:
                out.append(("bytes=%d-%d" % (a, b), "first-last"))
        out.append(("bytes=%d-" % a, "open-ended"))
    out.append(("bytes=00-0%d" % max(L - 1, 0), "first-last"))      # 1*DIGIT: leading zeros are valid syntax
    out.append(("bytes=%d-" % BIG, "open-ended"))
    out.append(("bytes=%d-%d" % (BIG, BIG + 1), "first-last"))
    for n in sorted(set([0, 1, 2, L // 2, L - 1, L, L + 1, seg, seg + 1, BIG])):
        if n >= 0:
            out.append(("bytes=-%d" % n, "suffix"))
    return out


def segment_boundary_headers(L, seg):
    """Ranges whose first/last byte sits at j*seg-1, j*seg, j*seg+1 for the first segment boundaries of the file."""
    out = []
    nseg = (L + seg - 1) // seg if seg else 0
    for j in range(1, min(nseg, 4)):
        b = j * seg
        for first in (0, b - seg, b - 1, b):
            for last in (b - 1, b, b + 1):
                if 0 <= first <= last:
                    out.append(("bytes=%d-%d" % (first, last), "first-last"))
        out.append(("bytes=%d-" % (b - 1), "open-ended"))
        out.append(("bytes=%d-" % b, "open-ended"))
        out.append(("bytes=-%d" % (L - b), "suffix"))
        out.append(("bytes=-%d" % (L - b + 1), "suffix"))
    return out


def mandatory_headers(L):
    return [("bytes=0-0", "first-last"), ("bytes=0-%d" % max(L - 1, 0), "first-last"), ("bytes=0-%d" % L, "first-last"),
            ("bytes=%d-%d" % (max(L - 1, 0), L), "first-last"), ("bytes=%d-%d" % (L, L), "first-last"),
            ("bytes=%d-%d" % (L, L + 5), "first-last"), ("bytes=%d-" % max(L - 1, 0), "open-ended"),
            ("bytes=%d-" % L, "open-ended"), ("bytes=%d-" % (L + 1), "open-ended"), ("bytes=0-", "open-ended"),
            ("bytes=-1", "suffix"), ("bytes=-0", "suffix"), ("bytes=-%d" % L, "suffix"), ("bytes=-%d" % (L + 1), "suffix")]


def invalid_headers(L):
    """Headers RFC 7233 says must be ignored (strict grammar fails and no lenient numeral reading exists)."""
    inv = [("bytes=1-0", "inverted"), ("bytes=%d-%d" % (L + 1, L), "inverted"), ("bytes=%d-0" % max(L - 1, 1), "inverted")]
    unit = [("items=0-5", "other-unit"), ("none", "other-unit"), ("seconds=0-1", "other-unit"), ("byte=0-1", "other-unit"),
            ("bytess=0-1", "other-unit"), ("=0-1", "other-unit")]
    garb = [("bytes=", "garbage"), ("bytes", "garbage"), ("bytes=-", "garbage"), ("bytes=a-b", "garbage"),
            ("bytes=0x1-0x2", "garbage"), ("bytes=1.5-2", "garbage"), ("bytes=5", "garbage"), ("bytes=1-2-3", "garbage"),
            ("bytes=--5", "garbage"), ("bytes=0-1;q=1", "garbage"),
            ("bytes=0-1,x", "garbage"), ("bytes=0-1 2-3", "garbage"), ("bytes=1e1-", "garbage"), ("0-5", "garbage"),
            ("bytes=-5-", "garbage"), ("bytes==0-5", "garbage"), ("bytes=0–" "5".encode("utf-8").decode("latin-1"), "garbage")]
    return inv, unit, garb


def lenient_headers(L):
    """Spellings outside the strict grammar that a tolerant parser may read as a range: consistency only."""
    a = max(L // 2, 0)
    return [("bytes=+%d-%d" % (a, a + 3), "lenient"), ("bytes= %d-%d" % (a, a + 3), "lenient"), ("bytes=%d -%d" % (a, a + 3), "lenient"),
            ("bytes=%d- %d" % (a, a + 3), "lenient"), ("bytes=-+2", "lenient"), ("bytes=- 2", "lenient"), ("bytes=0-1_0", "lenient"),
            ("Bytes=0-1", "lenient"), ("BYTES=0-1", "lenient"), ("bytes =0-1", "lenient"), ("bytes=+%d-" % L, "lenient"),
            ("bytes=0-1,", "lenient-empty-list-element"), ("bytes=,0-1", "lenient-empty-list-element"),   # RFC 7230 7: MAY be accepted
            ("bytes=0-١".encode("utf-8").decode("latin-1"), "lenient")]


def multi_headers(L):
    return [("bytes=0-0,2-2", "multi"), ("bytes=0-1, 3-4", "multi"), ("bytes=%d-%d,0-0" % (L, L + 1), "multi"),
            ("bytes=0-0,%d-" % L, "multi"), ("bytes=-1,-2", "multi"), ("bytes=1-,0-0", "multi"), ("bytes=0-0 , 1-1", "multi")]


# ----------------------------------------------------------------- the check
def run(ck):
    _selfcheck_oracle()
    ck.rule = ("case = (encoding LIT/CHK/SDMF/MDMF, size, URL form, method GET/HEAD, Range header); sizes 0..300 "
               "(quick: boundary-biased sample; thorough: every size) plus larger random files; headers: complete "
               "boundary set of first-last/open-ended/suffix forms around 0, EOF and segment boundaries, inverted, "
               "other-unit, garbage, lenient and multi-range; distinct = distinct (encoding,size,method,header); "
               "non-trivial = a Range header that is syntactically a single byte range")
    ck.assumptions.append("unsatisfiable single range must give 416 (statement); RFC 7233 3.1 itself says SHOULD")
    ck.assumptions.append("suffix range on an empty file: 416 or 200-with-empty-body both accepted, 206 is not "
                          "(no valid Content-Range exists)")
    thorough = ck.tier == "thorough"
    rng = ck.rng("plan")
    if thorough:
        small = list(range(0, 301))
    else:
        pool = [0, 1, 2, 3, 54, 55, 56, 57, 63, 64, 65, 127, 128, 129, 130, 192, 193, 255, 256, 257, 299, 300]
        small = sorted(set([0, 1, 55, 56, 300] + rng.sample(pool, 10) + [rng.randrange(0, 301) for _ in range(5)]))
    plan = []
    for L in small:
        for enc in ("imm", "SDMF", "MDMF"):
            plan.append((enc, L, "small"))
    nbig = 24 if thorough else 3
    for i in range(nbig):
        enc = ("imm", "SDMF", "MDMF")[i % 3]
        L = rng.choice([rng.randrange(301, 5000), rng.randrange(5000, 40000), 4096 * rng.randint(1, 8) + rng.choice([-1, 0, 1])])
        plan.append((enc, L, "big"))
    if thorough:
        plan.append(("MDMF", 131072 * 2 + rng.randrange(1, 5000), "big"))     # three MDMF segments
        plan.append(("MDMF", 131072 + 1, "big"))
    else:
        plan.append(("MDMF", 131072 + rng.randrange(1, 3000), "big"))          # two MDMF segments

    # one grid per batch of files
    batch = 12
    groups = [plan[i:i + batch] for i in range(0, len(plan), batch)]
    for gi, grp in enumerate(groups):
        if not ck.mine(gi):
            continue
        if ck.out_of_time():
            ck.observe("plan-truncated-by-budget")
            break
        with ck.watchdog(240, "group %d %r" % (gi, grp[:3])):
            _one_grid(ck, gi, grp, thorough)
    ck.require_monitor("status", "wire-body-length", "partial-body", "content-range", "content-length", "full-body", "head-no-body")
    ck.require_reach("206", "416", "200-ignored-header", "clipped-at-eof", "suffix-longer-than-file", "multi-segment-chk",
                     "literal", "sdmf", "mdmf", "multi-segment-mdmf", "mdmf-three-or-more-segments", "empty-file", "range-crosses-segment", "head")
    ck.exhaustive = False


def _one_grid(ck, gi, grp, thorough):
    from vf.grid import VGrid, KEYPOOL
    from vf import web
    crng = ck.rng("grid", gi)
    KEYPOOL.rewind()
    from allmydata.mutable import publish
    from allmydata.util import mathutil
    k = crng.choice([1, 2, 3])
    seg = crng.choice([32, 48, 64, 96, 128])
    # MDMF segments are publish.DEFAULT_MUTABLE_MAX_SEGMENT_SIZE (128 KiB) rounded up to a multiple of k.  Lowering the
    # constant for the run (the only knob there is; the download side reads the segment size from the share) makes the
    # 0..300 byte files multi-segment, so ranges can be aimed at MDMF segment boundaries cheaply.
    orig_mseg = publish.DEFAULT_MUTABLE_MAX_SEGMENT_SIZE
    mseg_small = crng.choice([24, 32, 50, 64, 100])
    mseg_big = crng.choice([1024, 4096, 8192])
    g = VGrid(nservers=crng.choice([3, 5]), seed=crng.getrandbits(32),
              profile=crng.choice(["fifo", "per-server-fifo", "free"]), keep_log=False)
    try:
        c = g.make_client(k=k, happy=1, n=crng.choice([k, k + 2]), max_segment_size=seg)
        stub = web.mount(g, c)
        bigseg = crng.choice([1024, 4096, 4096, 8192])
        cbig = g.make_client(k=k, happy=1, n=k + 1, max_segment_size=bigseg)     # larger files: sane segment size
        stubbig = web.mount(g, cbig)
        st, dn = g.wait(c.create_dirnode())
        dircap = dn.get_uri() if st == "ok" else None
        for fi, (enc, L, cls) in enumerate(grp):
            if ck.out_of_time():
                ck.observe("plan-truncated-by-budget")
                break
            frng = ck.rng("file", gi, fi)
            data = bytes(frng.getrandbits(8) for _ in range(min(L, 4096)))
            if L > 4096:
                data = (data * (L // 4096 + 1))[:L]
                data = bytes(b ^ ((i >> 12) & 0xFF) for i, b in enumerate(data)) if L < 50000 else data
            if cls == "big":
                mseg = orig_mseg if L > orig_mseg else mseg_big          # > 128 KiB: the real segment size
            else:
                mseg = mseg_small
            publish.DEFAULT_MUTABLE_MAX_SEGMENT_SIZE = mseg
            mseg_eff = mathutil.next_multiple(mseg, k)
            if cls == "big":
                _one_file(ck, g, cbig, stubbig, web, frng, enc, L, data, cls, bigseg if enc == "imm" else mseg_eff, dircap, thorough)
            else:
                _one_file(ck, g, c, stub, web, frng, enc, L, data, cls, seg if enc == "imm" else mseg_eff, dircap, thorough)
    finally:
        publish.DEFAULT_MUTABLE_MAX_SEGMENT_SIZE = orig_mseg
        g.close()


def _one_file(ck, g, c, stub, web, rng, enc, L, data, cls, seg, dircap, thorough):
    from allmydata import uri as tahoe_uri
    # create through the web API, like a user
    path = "/uri" if enc == "imm" else "/uri?format=%s" % enc
    st, hd, body = web.http(g, stub, "PUT", path, body=data)
    if st not in (200, 201):
        ck.inconclusive_because("could not create a %s file of %d bytes through PUT /uri: %r %r" % (enc, L, st, body[:200]))
        return
    cap = body.strip()
    u = tahoe_uri.from_string(cap)
    kind = {"LiteralFileURI": "LIT", "CHKFileURI": "CHK", "WriteableSSKFileURI": "SDMF",
            "WriteableMDMFFileURI": "MDMF"}.get(type(u).__name__, type(u).__name__)
    ck.hit({"LIT": "literal", "CHK": "chk", "SDMF": "sdmf", "MDMF": "mdmf"}.get(kind, kind))
    if L == 0:
        ck.hit("empty-file")
    if kind == "CHK" and L > seg:
        ck.hit("multi-segment-chk")
    if kind == "MDMF" and L > seg:
        ck.hit("multi-segment-mdmf")
        if L > 2 * seg:
            ck.hit("mdmf-three-or-more-segments")
    usecap = cap
    if kind in ("SDMF", "MDMF") and rng.random() < .4:
        usecap = u.get_readonly().to_string()
    form = rng.choice(["uri", "uri", "file", "child"])
    if form == "child" and dircap is None:
        form = "uri"
    if form == "uri":
        url = "/uri/" + web.q(usecap)
    elif form == "file":
        url = "/file/%s/@@named=/f%d.bin" % (web.q(usecap), L)
    else:
        name = "f-%s-%d-%d" % (kind, L, rng.randrange(10 ** 6))
        st, hd, body = web.http(g, stub, "PUT", "/uri/%s/%s?t=uri" % (web.q(dircap), name), body=usecap)
        if st not in (200, 201):
            url = "/uri/" + web.q(usecap)
            form = "uri"
        else:
            url = "/uri/%s/%s" % (web.q(dircap), name)

    singles = single_headers(L, seg if (seg <= 4096 or kind == "MDMF") else 4096)
    segb = segment_boundary_headers(L, seg) if kind in ("CHK", "MDMF") else []
    inv, unit, garb = invalid_headers(L)
    len_h, multi = lenient_headers(L), multi_headers(L)
    if thorough and cls == "small":
        hs = singles + segb + inv + rng.sample(unit, 3) + rng.sample(garb, 6) + rng.sample(len_h, 4) + rng.sample(multi, 3)
    elif cls == "small":
        hs = mandatory_headers(L) + rng.sample(segb, min(len(segb), 8)) + rng.sample(singles, min(len(singles), 12)) + rng.sample(inv, 1) + rng.sample(unit, 1) \
            + rng.sample(garb, 3) + rng.sample(len_h, 2) + rng.sample(multi, 2)
    else:
        n = 10 if L > 100000 else 24
        hs = mandatory_headers(L)[:14 if L < 100000 else 8] + rng.sample(segb, min(len(segb), 10 if L < 100000 else 6)) \
            + rng.sample(singles, min(len(singles), n)) \
            + rng.sample(inv, 1) + rng.sample(garb, 2) + rng.sample(multi, 1) + rng.sample(len_h, 1)
        for _ in range(4):     # random interior ranges
            a = rng.randrange(0, L)
            hs.append(("bytes=%d-%d" % (a, rng.randrange(a, L + 50)), "first-last"))
    seen = set()
    ctx = dict(kind=kind, size=L, form=form, seg=seg)
    # the plain request first (no Range header)
    _judge(ck, g, stub, web, "GET", url, None, "none", data, ctx)
    for (h, hform) in hs:
        if h in seen:
            continue
        seen.add(h)
        _judge(ck, g, stub, web, "GET", url, h, hform, data, ctx)
        if thorough or hform in ("open-ended", "suffix") or rng.random() < .35:
            if cls == "small" or L < 100000 or rng.random() < .3:
                _judge(ck, g, stub, web, "HEAD", url, h, hform, data, ctx)


def _judge(ck, g, stub, web, method, url, h, hform, data, ctx):
    L = len(data)
    headers = {"Range": h.encode("latin-1")} if h is not None else None
    st, hd, body = web.http(g, stub, method, url, headers=headers)
    last = dict(stub.last)
    exp = ("ignore",) if h is None else evaluate(h, L)
    if hform.startswith("lenient"):
        exp = ("open", hform)
    wit = dict(ctx, method=method, range=h, status=st, content_range=hd.get("content-range"),
               content_length=hd.get("content-length"), body_len=len(body), expected=list(exp),
               server_code=last.get("server_code"), resource_wrote=last.get("resource_wrote"))
    key = (ctx["kind"], L, method, h)
    nontrivial = hform in ("first-last", "open-ended", "suffix")
    if method == "HEAD":
        ck.hit("head")

    def V(k, what):
        ck.violation(k, "%s %s Range: %s on a %d-byte %s file: %s" % (method, ctx["form"], h, L, ctx["kind"], what), wit)

    if not isinstance(st, int):
        # no well-formed response reached the client (typically Content-Length promised != bytes sent)
        sh = last.get("server_headers") or {}
        if st == "err" and sh.get("content-length") is not None and str(last.get("resource_wrote")) != sh.get("content-length") \
                and method != "HEAD":
            ck.mon("content-length")
            V("content-length-differs-from-body", "resource announced Content-Length %s but wrote %s bytes (client: %s)" % (
                sh.get("content-length"), last.get("resource_wrote"), body[:120]))
        elif st in ("hang", "steps"):
            V("request-never-completes", "no response (%s)" % st)
        else:
            V("response-broken", "client could not read the response: %r" % body[:200])
        ck.case("range-" + hform, key=key, nontrivial=nontrivial, sample=wit)
        return

    ck.mon("status")
    sh = last.get("server_headers") or {}
    if method != "HEAD" and sh.get("content-length") is not None:
        ck.mon("wire-body-length")
        wrote = last.get("resource_wrote") or 0
        if wrote != int(sh["content-length"]):
            V("content-length-differs-from-body", "resource announced Content-Length %s but wrote %d body bytes on the wire "
              "(the client saw %d; bytes beyond Content-Length corrupt the connection)" % (sh["content-length"], wrote, len(body)))
    cr = hd.get("content-range")
    clen = hd.get("content-length")
    is_head = method == "HEAD"

    # --- what the response claims, checked for self-consistency (applies to every class)
    def check_partial(first, last_, strict):
        """206 response must carry bytes first..last_ of the file."""
        ok = True
        m = _CR.match(cr or "")
        ck.mon("content-range")
        if not m:
            V("suffix-range-empty-file" if L == 0 else "content-range-malformed", "206 with Content-Range %r" % cr)
            return False
        f, l, tot = int(m.group(1)), int(m.group(2)), int(m.group(3))
        if tot != L:
            V("content-range-total-wrong", "Content-Range %r, representation length is %d" % (cr, L))
            ok = False
        if strict and (f, l) != (first, last_):
            V("content-range-first-last-wrong", "Content-Range %r, RFC says bytes %d-%d/%d" % (cr, first, last_, L))
            ok = False
        if not strict and not (0 <= f <= l < max(L, 1)):
            V("content-range-not-within-file", "Content-Range %r outside 0..%d" % (cr, L - 1))
            ok = False
        want = data[first:last_ + 1] if strict else data[f:l + 1]
        ck.mon("content-length")
        if clen is None or int(clen) != len(want):
            V("content-length-wrong", "Content-Length %r, selected range has %d bytes" % (clen, len(want)))
            ok = False
        if not is_head:
            ck.mon("partial-body")
            if body != want:
                V("partial-body-differs", "body has %d bytes, differs from the %d bytes of the range (first difference at %s)" % (
                    len(body), len(want), _firstdiff(body, want)))
                ok = False
        return ok

    def check_full():
        ck.mon("content-length")
        if clen is not None and int(clen) != L:
            V("content-length-wrong", "200 with Content-Length %r for a %d-byte file" % (clen, L))
        if cr is not None:
            ck.observe("content-range-on-200")
        if not is_head:
            ck.mon("full-body")
            if body != data:
                V("full-body-differs", "200 body has %d bytes, differs from the %d-byte file at %s" % (
                    len(body), L, _firstdiff(body, data)))

    if is_head:
        ck.mon("head-no-body")
        # error pages (416, 4xx) are rendered by generic code and dropped by twisted.web: only file content counts
        if body != b"" or (st in (200, 206) and (last.get("resource_wrote") or 0) > 0):
            V("head-produces-body", "HEAD: client saw %d body bytes; the resource wrote %d body bytes to the request "
              "(twisted.web discards them, the download work is done nevertheless)" % (len(body), last.get("resource_wrote") or 0))

    if exp[0] == "partial":
        first, last_ = exp[1], exp[2]
        if st == 206:
            ck.hit("206")
            if hform != "suffix" and h.split("-")[-1] not in ("",) and int(h.split("-")[-1]) > L - 1:
                ck.hit("clipped-at-eof")
            if hform == "suffix" and int(h[7:]) > L:
                ck.hit("suffix-longer-than-file")
            if ctx["kind"] in ("CHK", "MDMF") and first // ctx["seg"] != last_ // ctx["seg"]:
                ck.hit("range-crosses-segment")
            check_partial(first, last_, True)
        else:
            V("satisfiable-range-not-206", "status %s, RFC says 206 with bytes %d-%d/%d" % (st, first, last_, L))
    elif exp[0] == "unsat":
        if st == 416:
            ck.hit("416")
            if cr is not None and cr != "bytes */%d" % L:
                V("content-range-on-416-wrong", "416 with Content-Range %r, only 'bytes */%d' is allowed" % (cr, L))
        elif hform == "open-ended":
            V("open-ended-range-at-eof", "status %s (%s), range starts at or beyond the end: 416 expected" % (
                st, "full file" if (st == 200 and (is_head or body == data)) else "body %d bytes" % len(body)))
        elif hform == "suffix":
            V("zero-length-suffix-range-not-416", "status %s with Content-Range %r; a suffix range of length 0 selects nothing: 416 expected" % (st, cr))
        else:
            V("unsatisfiable-range-not-416", "status %s with Content-Range %r, range starts at or beyond the end: 416 expected" % (st, cr))
    elif exp[0] == "unsat-or-full":
        if st == 416:
            ck.hit("416")
        elif st == 200:
            check_full()
        elif st == 206:
            check_partial(0, -1, False)
        else:
            V("unexpected-status", "status %s" % st)
    elif exp[0] == "ignore":
        if st == 200:
            if h is not None:
                ck.hit("200-ignored-header")
            check_full()
        else:
            V("unparseable-range-not-ignored", "status %s with Content-Range %r; a header that is not a valid byte-range-set "
              "must be ignored (200 + full file)" % (st, cr))
    else:
        # lenient spelling or multi-range: the statement leaves the choice open; judge internal consistency only
        ck.skip(exp[1] if exp[0] == "open" else "open")
        if st == 206:
            if (hd.get("content-type") or "").startswith("multipart/byteranges"):
                ck.skip("multipart-response")
            else:
                check_partial(0, 0, False)
        elif st == 200:
            check_full()
        elif st != 416:
            V("unexpected-status", "status %s" % st)
    ck.case("range-" + hform, key=key, nontrivial=nontrivial, sample=wit)


def _firstdiff(a, b):
    for i, (x, y) in enumerate(zip(a, b)):
        if x != y:
            return i
    return min(len(a), len(b))


# MUST_CATCH (selftest/breaks_c40.py; run `python3 tools/selftest.py --prop C40`):
#   c40-clip-off-by-one        last = min(filesize, last)                      -> content-length-differs-from-body /
#                                                                                 content-range-first-last-wrong
#   c40-total-wrong            Content-Range total = filesize-1                 -> content-range-total-wrong
#   c40-416-gt                 first > filesize instead of >=                   -> unsatisfiable-range-not-416
#   c40-head-body              HEAD falls through to filenode.read()            -> head-produces-body
#   c40-suffix-start           suffix first = filesize - int(last) + 1          -> content-range-first-last-wrong
#   c40-inverted-accepted      `if last < first: raise` removed                 -> unparseable-range-not-ignored
#   c40-other-unit-accepted    units check removed                              -> unparseable-range-not-ignored
#   c40-read-offset            filenode.read(req, first+1, size)                -> partial-body-differs
#   c40-mdmf-last-segment-off-by-one / seeded C40-3   Retrieve reads one segment too many when a range ends on the last byte of a
#                              non-final MDMF segment: headers right, body too long -> content-length-differs-from-body (judged on the
#                              bytes the resource wrote to the request, a client stops reading at Content-Length).  Needs multi-segment
#                              MDMF files: publish.DEFAULT_MUTABLE_MAX_SEGMENT_SIZE is lowered for the run, plus one real >128 KiB file.
