"""C26 garbage collection deletes exactly the expired shares (LeaseCheckingCrawler, virtual time)."""
META = {
    "level": 'exploration',
    "technique": 'policy oracle from docs/garbage-collection.rst on the real LeaseCheckingCrawler: every expiry configuration x shares whose leases were renewed at threshold +-{1 s, 1 day, 1 year}, virtual clock, one forced full crawl cycle (and a second one two years later)',
    "text": 'Creates real share files through the real StorageServer (immutable: allocate_buckets/write/close, mutable: slot_testv_and_readv_and_writev) with 0..5 leases each, added and renewed through add_lease/renew_lease/allocate_buckets at chosen instants of a virtual clock (epoch ~1.7e9; the clock drives StorageServer(clock=...) and the `time` global of storage.expirer/lease/crawler). Enumerates all 88 policy configurations: expiration enabled/disabled x (age mode with override None/1d/10d/31d/60d/400d | cutoff-date mode with cutoff now-400d/-40d/-31d/-1d/+1d) x share types (both, mutable, immutable, none). The real lease crawler then runs exactly one full cycle (start_slice with an unbounded cpu_slice). Oracle (the statement): disabled => every share still present and readable; enabled => a share whose type is not enabled or that holds at least one lease that is not expired (age: renewal + duration >= now; cutoff: renewal >= cutoff) is still present with its data intact, and a share of an enabled type all of whose (>=1) leases are expired is gone. A second family builds the storage server the way a node does - tahoe.cfg [storage] expire.enabled/mode/override_lease_duration/cutoff_date and expire.immutable/expire.mutable in all 3x3 combinations of true/false/absent, read by allmydata.client.read_config and turned into a StorageServer by the real _Client.get_anonymous_storage_server() (on a _Client subclass with a trivial __init__) - and applies the same oracle; the cutoff-date configurations are repeated with the process time zone set to UTC0, EST5 and MSK-3 (the cutoff is midnight UTC whatever the zone; leases renewed 1 s, 2 h and 4 h either side of it). Buckets holding 2..4 shares (uploaded together) get ONE share file damaged before the crawl (bad version magic, truncated header, zero length), the victim taken at every os.listdir position in turn: the healthy shares listed before and after it are judged as usual. Renewal exactly at the threshold instant, zero-lease shares, damaged share files themselves and leases that share a cancel secret are generated, counted and not judged. A second cycle two years later re-judges the survivors.',
    "note": 'Trusts the 10-line expiry predicate and the virtual clock shim. Presence is observed through StorageServer.get_shares() and reads through get_buckets()/slot_readv(). One crawl cycle without restarts (restart behaviour is C27).',
}
LEVEL = "exploration"
BUDGET = {"quick": 45, "thorough": 300}   # quick is a fixed list of 88 configurations (~25 s); the budget is a guard
SHARDS = {"quick": 1, "thorough": 8}

import os
import shutil
import struct
import tempfile

from vf import env  # noqa  (must be the first project import)

DAY = 24 * 60 * 60
YEAR = 365 * DAY
DEFAULT_DURATION = 31 * DAY
DELTAS = (-YEAR, -DAY, -1, 0, 1, DAY, YEAR)


class VTime(object):
    """Replacement for the module-global `time` in storage.expirer / lease / crawler."""

    def __init__(self, clock):
        self.clock = clock

    def time(self):
        return self.clock.seconds()


def expired_status(cfg, r, now):
    """'expired' | 'valid' | 'edge' for a lease last renewed at r (docs/garbage-collection.rst)."""
    if cfg["mode"] == "age":
        d = cfg["override"] if cfg["override"] is not None else DEFAULT_DURATION
        a, b = r + d, now                    # expired iff r + duration < now
    else:
        a, b = r, cfg["cutoff"]              # expired iff r < cutoff
    if a == b:
        return "edge"
    return "expired" if a < b else "valid"


def threshold(cfg, now):
    if cfg["mode"] == "age":
        return now - (cfg["override"] if cfg["override"] is not None else DEFAULT_DURATION)
    return cfg["cutoff"]


def all_configs(now):
    out = []
    for enabled in (False, True):
        for st in (("mutable", "immutable"), ("mutable",), ("immutable",), ()):
            for ov in (None, 1 * DAY, 10 * DAY, 31 * DAY, 60 * DAY, 400 * DAY):
                out.append({"enabled": enabled, "mode": "age", "override": ov, "cutoff": None, "sharetypes": st})
            for cd in (-400 * DAY, -40 * DAY, -31 * DAY, -DAY, DAY):
                out.append({"enabled": enabled, "mode": "cutoff-date", "override": None, "cutoff": now + cd,
                            "cutoff_rel_days": cd // DAY, "sharetypes": st})
    return out


class Share(object):
    def __init__(self, idx, kind, shnum=0):
        self.idx = idx
        self.kind = kind            # "immutable" | "mutable"
        self.shnum = shnum
        self.si = struct.pack(">H", (idx * 37 % 1024) << 6) + struct.pack(">H", idx) + b"\x26" * 12
        self.data = (b"share-%04d-" % idx) * 3
        self.leases = {}            # lease id -> last renewal time
        self.grants = []            # [(time, lease id, how)] chronological plan
        self.tag = ""
        self.shared_cancel = False
        self.sibling_of = None      # another Share in the same bucket
        self.group = None           # head of a multi-share bucket: [member Shares incl. itself]
        self.damage_at = None       # head: (os.listdir position of the victim, kind of damage)
        self.damaged = None         # member: kind of damage applied to its file
        self.in_damaged_bucket = False
        self.listed_after_victim = False


def secrets(share_idx, lease_id, shared_cancel=False):
    rs = (b"R%05d-%02d-" % (share_idx, lease_id)).ljust(32, b"r")
    cs = (b"C%05d-%02d-" % (share_idx, 0 if shared_cancel else lease_id)).ljust(32, b"c")
    return rs, cs


def build_population(cfg, now, rng, tier, shared_cancel_only=False, variant=0):
    """Shares + chronological lease plan.  Renewal instants = threshold + delta, clipped to <= now."""
    thr = threshold(cfg, now)
    lo = now - 3 * YEAR + DAY

    def at(delta):
        return int(max(lo, min(now, thr + delta)))

    shares = []

    def new(kind, deltas, tag, renew=None, shared_cancel=False):
        """Leases are granted in chronological order (lease 0 = the one created with the share);
        renew = [(lease id, delta, 'add_lease'|'renew_lease')], dropped if it would precede the grant."""
        s = Share(len(shares), kind)
        s.tag = tag
        s.shared_cancel = shared_cancel
        times = sorted(at(d) for d in deltas)
        for lid, t in enumerate(times):
            s.grants.append((t, lid, "create" if lid == 0 else "add"))
        for (lid, d, how) in (renew or []):
            if lid < len(times) and at(d) >= times[lid]:
                s.grants.append((at(d), lid, how))
        shares.append(s)
        return s

    kinds = ("immutable", "mutable")
    if shared_cancel_only:
        # two leases with different renew secrets but the same cancel secret (only a buggy or
        # hostile client produces that): observed, never judged
        for k in kinds:
            if shared_cancel_only == "one-valid":
                new(k, [-DAY, DAY], "shared-cancel-secret-one-valid", shared_cancel=True)
            else:
                new(k, [-YEAR, -DAY], "shared-cancel-secret-both-expired", shared_cancel=True)
        return shares
    # one lease at every offset (and a few hours either side: a cutoff date is a *UTC* midnight)
    for k in kinds:
        for d in DELTAS + (-4 * 3600, -2 * 3600, 2 * 3600, 4 * 3600):
            new(k, [d], "single")
    # 2..5 leases: all expired / exactly one valid (every position) / all valid / with an edge lease
    neg = (-YEAR, -DAY, -1)
    pos = (1, DAY, YEAR)
    for k in kinds:
        for n in (2, 3, 5):
            new(k, [neg[i % 3] for i in range(n)], "all-expired")
            new(k, [pos[i % 3] for i in range(n)], "all-valid")
            for j in sorted(set((0, n // 2, n - 1))):
                ds = [neg[(i + j) % 3] for i in range(n)]
                ds[j] = pos[(n + j) % 3]
                new(k, ds, "one-valid-among-expired")
        new(k, [-1, -1], "all-expired-by-1s")
        new(k, [-1, 1], "one-valid-by-1s")
        new(k, [1, -1], "one-valid-by-1s")
        new(k, [-DAY, 0], "edge-among-expired")
        new(k, [0, DAY], "edge-and-valid")
        # renewals: "last renewal" decides
        new(k, [-YEAR], "renewed-into-validity", renew=[(0, 1, "add_lease"), ])
        new(k, [-YEAR], "renewed-into-validity", renew=[(0, DAY, "renew_lease")])
        new(k, [-YEAR], "renewed-but-still-expired", renew=[(0, -DAY, "add_lease")])
        new(k, [-YEAR, -YEAR], "one-of-two-renewed", renew=[(1, 1, "renew_lease")])
        new(k, [-YEAR, -YEAR, -DAY], "first-of-three-renewed", renew=[(0, 1, "add_lease")])
        new(k, [-YEAR, -DAY, -1, -1, -1], "middle-of-five-renewed", renew=[(2, DAY, "renew_lease")])
        new(k, [-YEAR, -DAY], "both-renewed-still-expired", renew=[(0, -DAY, "renew_lease"), (1, -1, "add_lease")])
        # zero leases (generated, observed, not judged)
        new(k, [], "zero-leases")
    # seeded random lease sets
    for _ in range(10 if tier == "quick" else 150):
        k = rng.choice(kinds)
        n = rng.randint(1, 5)
        ds = [rng.choice(DELTAS) if rng.random() < .7 else rng.randint(-2 * YEAR, YEAR) for _ in range(n)]
        rn = []
        if rng.random() < .3:
            rn = [(rng.randrange(n), rng.choice(DELTAS), rng.choice(["add_lease", "renew_lease"]))]
        new(k, ds, "random", renew=rn)
    # second share in an immutable bucket, uploaded later by another client: share 0 gets the
    # new lease too, share 1 carries only the new one
    for (d0, d1) in ((-YEAR, 1), (-YEAR, -DAY), (DAY, YEAR)):
        a = new("immutable", [d0], "bucket-with-two-shares")
        a.grants.append((at(d1), 1, "sibling"))
        b = Share(len(shares), "immutable", shnum=1)
        b.si = a.si
        b.sibling_of = a
        b.tag = "bucket-with-two-shares"
        shares.append(b)
    # buckets with 2..4 shares uploaded together, ONE share file damaged before the crawl, the victim chosen by
    # its position in os.listdir(bucketdir) (every position in turn): the healthy shares listed before and after
    # it are judged as usual, the damaged one is not judged
    damages = ("bad-version-magic", "truncated-header", "zero-length")
    for k in kinds:
        # quick: buckets of 2 and 3 shares in even-numbered configurations, of 4 shares in odd-numbered ones
        for n in ((2, 3, 4) if tier != "quick" else ((2, 3) if variant % 2 == 0 else (4,))):
            for pos in range(n):
                profiles = [(-YEAR, "expired")] + ([(DAY, "valid")] if n == 2 else [])
                for d0, pname in profiles:
                    head = new(k, [], "bucket-of-%d-with-damaged-share-%s" % (n, pname))
                    head.grants.append((at(d0), 0, "create-group"))
                    head.group = [head]
                    head.damage_at = (pos, damages[(n + pos + (k == "mutable")) % 3])
                    for j in range(1, n):
                        m = Share(len(shares), k, shnum=j)
                        m.si = head.si
                        m.sibling_of = head
                        m.tag = head.tag
                        head.group.append(m)
                        shares.append(m)
                    for m in head.group:
                        m.in_damaged_bucket = True
    return shares


def run(ck):
    from allmydata.storage import expirer as expirer_mod, lease as lease_mod, crawler as crawler_mod
    from allmydata.storage.server import StorageServer
    from allmydata.storage.immutable import ShareFile
    from allmydata.storage.common import storage_index_to_dir
    from twisted.internet.task import Clock
    from twisted.application import service
    from allmydata import client as client_mod
    import time

    ck.rule = ("case = (policy configuration, share): 88 configurations (enabled x {age: override None/1d/10d/31d/60d/400d; "
               "cutoff-date: now-400d/-40d/-31d/-1d/+1d} x sharetypes both/mutable/immutable/none), each with ~100 real "
               "shares (immutable and mutable) holding 0..5 leases whose last renewal is threshold + {-1y,-1d,-1s,0,+1s,"
               "+1d,+1y} (all-expired, exactly-one-valid at each position, all-valid, renewed-later, two shares in one "
               "bucket, buckets of 2..4 shares with one damaged file at each listdir position, seeded random sets); leases are granted in chronological order on a virtual clock, then one full "
               "crawl cycle runs at `now` and another at now+2y. distinct = (configuration, share kind, renewal offsets); "
               "non-trivial = expiration enabled and at least one expired lease on the share")
    saved = (expirer_mod.time, lease_mod.time, crawler_mod.time)
    base_now = int(env.EPOCH) + 3 * YEAR          # ~1.79e9; leases go back to now-3y (~1.70e9)
    nows = [base_now, base_now + 123456789 // 7]
    cfgs = []
    for ni, now in enumerate(nows if ck.tier == "thorough" else nows[:1]):
        for c in all_configs(now):
            c = dict(c, now=now)
            cfgs.append(c)
    # quick: all 88 configurations at one `now`; the seed only rotates the random lease sets
    complete = True

    def present(ss, share):
        return share.shnum in dict(ss.get_shares(share.si))

    def read_back(ss, share):
        if share.kind == "immutable" and share.in_damaged_bucket:
            # get_buckets() opens every share of the bucket and would trip over the damaged one
            fn = dict(ss.get_shares(share.si)).get(share.shnum)
            return None if fn is None else ShareFile(fn).read_share_data(0, len(share.data))
        if share.kind == "immutable":
            b = ss.get_buckets(share.si)
            if share.shnum not in b:
                return None
            return b[share.shnum].read(0, len(share.data))
        r = ss.slot_readv(share.si, [share.shnum], [(0, len(share.data))])
        if share.shnum not in r:
            return None
        return r[share.shnum][0]

    class ConfigOnlyClient(client_mod._Client):
        """A _Client without tub, introducer, web server...: just enough state for the real
        get_anonymous_storage_server() to turn tahoe.cfg into a StorageServer (a whole node cannot be
        created offline)."""

        def __init__(self, config):
            service.MultiService.__init__(self)
            self.config = config
            self.get_config = config.get_config      # as Node.__init__ does
            self.nodeid = b"\x26" * 20
            self.stats_provider = None

    def node_storage_server(basedir, options):
        lines = ["[client]", "[storage]", "enabled = true"] + ["%s = %s" % kv for kv in options]
        with open(os.path.join(basedir, "tahoe.cfg"), "w") as f:
            f.write("\n".join(lines) + "\n")
        config = client_mod.read_config(basedir, "client.port")     # validates the option names too
        return ConfigOnlyClient(config).get_anonymous_storage_server()

    def node_configs(now):
        """[storage] expire.* as an operator writes them: 3 policies x expire.immutable/mutable in
        {true, false, absent}^2, plus expiration off / not mentioned."""
        out = []
        cutoff = ((now - 40 * DAY) // DAY) * DAY                     # midnight UTC, as parse_date() yields
        policies = [("age", None, None, [("expire.mode", "age")]),
                    ("age", 10 * DAY, None, [("expire.mode", "age"), ("expire.override_lease_duration", "10 days")]),
                    ("cutoff-date", None, cutoff,
                     [("expire.mode", "cutoff-date"),
                      ("expire.cutoff_date", time.strftime("%Y-%m-%d", time.gmtime(cutoff)))])]
        variants = [(pol, None) for pol in policies] + [(policies[2], "UTC0"), (policies[2], "EST5"),
                                                        (policies[2], "MSK-3"), (policies[0], "EST5")]
        for (mode, ov, cd, opts), tz in variants:
            for imm in (True, False, None):
                for mut in (True, False, None):
                    if (tz is not None or ov is not None) and \
                            (imm, mut) not in ((None, None), (True, False), (False, True)):
                        continue
                    o = [("expire.enabled", "true")] + opts
                    if imm is not None:
                        o.append(("expire.immutable", str(imm).lower()))
                    if mut is not None:
                        o.append(("expire.mutable", str(mut).lower()))
                    st = tuple(t for t, v in (("immutable", imm), ("mutable", mut)) if v is not False)
                    out.append({"enabled": True, "mode": mode, "override": ov, "cutoff": cd,
                                "cutoff_rel_days": None if cd is None else (cd - now) // DAY,
                                "sharetypes": st, "now": now, "tahoe_cfg": o, "tz": tz})
        for o in ([("expire.enabled", "false"), ("expire.mode", "age")], []):
            out.append({"enabled": False, "mode": "age", "override": None, "cutoff": None, "sharetypes":
                        ("immutable", "mutable"), "now": now, "tahoe_cfg": o})
        return out

    def describe(cfg):
        if cfg.get("tahoe_cfg") is not None:
            return {"tahoe.cfg [storage]": ["%s = %s" % kv for kv in cfg["tahoe_cfg"]], "process TZ": cfg.get("tz"),
                    "meaning": {"enabled": cfg["enabled"], "mode": cfg["mode"], "sharetypes": cfg["sharetypes"],
                                "override": cfg["override"], "cutoff": cfg["cutoff"]}}
        d = {k: cfg[k] for k in ("enabled", "mode", "sharetypes")}
        if cfg["mode"] == "age":
            d["override_lease_duration"] = cfg["override"]
        else:
            d["cutoff_date"] = "now%+dd" % cfg["cutoff_rel_days"]
        return d

    def one_config(ci, cfg, shared_only=False):
        now = cfg["now"]
        d = tempfile.mkdtemp(prefix="vf-")
        old_tz = os.environ.get("TZ")
        try:
            if cfg.get("tz"):
                # the node's process time zone must not matter: expire.cutoff_date is midnight UTC
                os.environ["TZ"] = cfg["tz"]
                time.tzset()
                ck.hit("non-default-process-timezone" if cfg["tz"] != "UTC0" else "utc-process-timezone")
            clock = Clock()
            clock.advance(now - 3 * YEAR)
            vt = VTime(clock)
            expirer_mod.time = lease_mod.time = crawler_mod.time = vt
            if cfg.get("tahoe_cfg") is not None:
                # the way a node does it: tahoe.cfg -> read_config -> _Client.get_anonymous_storage_server()
                ss = node_storage_server(d, cfg["tahoe_cfg"])
                if not hasattr(ss, "_clock"):
                    ck.inconclusive_because("StorageServer has no _clock to attach the virtual clock to")
                    return
                ss._clock = clock              # the node passes no clock; lease times must come from ours
                ck.hit("server-built-from-tahoe-cfg")
            else:
                ss = StorageServer(d, b"\x26" * 20,
                                   expiration_enabled=cfg["enabled"], expiration_mode=cfg["mode"],
                                   expiration_override_lease_duration=cfg["override"],
                                   expiration_cutoff_date=cfg["cutoff"],
                                   expiration_sharetypes=cfg["sharetypes"], clock=clock)
            shares = build_population(cfg, now, ck.rng("pop", ci, ck.seed), ck.tier, shared_only, variant=ci)
            if cfg.get("tahoe_cfg") is not None and ck.tier == "quick":
                keep = [s for i, s in enumerate(shares)
                        if s.tag in ("single", "all-expired", "one-valid-among-expired", "all-valid",
                                     "bucket-with-two-shares") or (i % 4 == ci % 4 and not s.in_damaged_bucket)]
                shares = keep
            if (not cfg["enabled"] or not cfg["sharetypes"]) and ck.tier == "quick":
                # nothing may ever be deleted here whatever the leases: a quarter of the population is enough
                keep = [s for i, s in enumerate(shares) if (i % 4 == ci % 4 and not s.in_damaged_bucket)
                        or s.tag == "bucket-with-two-shares" or (s.in_damaged_bucket and ci % 4 == 0)]
                shares = keep
            # ---- chronological lease plan on the virtual clock
            events = []
            for s in shares:
                if s.sibling_of is not None:
                    continue
                if not s.grants:
                    events.append((now - 2 * YEAR, s.idx, 0, None, "create-without-lease", s))
                for order, (t, lid, how) in enumerate(s.grants):
                    events.append((t, s.idx, order, lid, how, s))
            events.sort(key=lambda e: e[:3])
            for (t, _, _, lid, how, s) in events:
                if t > clock.seconds():
                    clock.advance(t - clock.seconds())
                t = clock.seconds()
                if how in ("create", "create-without-lease"):
                    if s.kind == "immutable" and how == "create":
                        rs, cs = secrets(s.idx, lid, s.shared_cancel)
                        got, wr = ss.allocate_buckets(s.si, rs, cs, {s.shnum}, len(s.data))
                        wr[s.shnum].write(0, s.data)
                        wr[s.shnum].close()
                        s.leases[lid] = t
                    elif s.kind == "immutable":
                        # no StorageServer call creates a lease-less immutable share: real container class
                        fn = os.path.join(ss.sharedir, storage_index_to_dir(s.si), "%d" % s.shnum)
                        sf = ShareFile(fn, max_size=len(s.data), create=True)
                        sf.write_share_data(0, s.data)
                    else:
                        rs, cs = secrets(s.idx, lid or 0, s.shared_cancel)
                        ok, _ = ss.slot_testv_and_readv_and_writev(
                            s.si, (b"W" * 32, rs, cs), {s.shnum: ([], [(0, s.data)], None)}, [],
                            renew_leases=(how == "create"))
                        assert ok
                        if how == "create":
                            s.leases[lid] = t
                elif how == "create-group":
                    rs, cs = secrets(s.idx, lid)
                    if s.kind == "immutable":
                        got, wr = ss.allocate_buckets(s.si, rs, cs, set(m.shnum for m in s.group), len(s.data))
                        for m in s.group:
                            wr[m.shnum].write(0, m.data)
                            wr[m.shnum].close()
                    else:
                        ok, _ = ss.slot_testv_and_readv_and_writev(
                            s.si, (b"W" * 32, rs, cs),
                            {m.shnum: ([], [(0, m.data)], None) for m in s.group}, [])
                        assert ok
                    for m in s.group:
                        m.leases[lid] = t
                elif how in ("add", "add_lease"):
                    rs, cs = secrets(s.idx, lid, s.shared_cancel)
                    ss.add_lease(s.si, rs, cs)
                    s.leases[lid] = max(t, s.leases.get(lid, 0))     # renewal never moves backwards
                    if how == "add_lease":
                        ck.hit("lease-renewed-through-add_lease")
                elif how == "renew_lease":
                    rs, cs = secrets(s.idx, lid, s.shared_cancel)
                    ss.renew_lease(s.si, rs)
                    s.leases[lid] = max(t, s.leases.get(lid, 0))
                    ck.hit("lease-renewed-through-renew_lease")
                elif how == "sibling":
                    # another client uploads share 1 into the same bucket: share 0 gains its lease
                    sib = [x for x in shares if x.sibling_of is s][0]
                    rs, cs = secrets(s.idx, lid)
                    got, wr = ss.allocate_buckets(s.si, rs, cs, {sib.shnum}, len(sib.data))
                    wr[sib.shnum].write(0, sib.data)
                    wr[sib.shnum].close()
                    s.leases[lid] = t
                    sib.leases[lid] = t
            clock.advance(now - clock.seconds())
            # ---- damage one share file per multi-share bucket, chosen by its os.listdir position
            for s in shares:
                if s.group is None:
                    continue
                bucketdir = os.path.join(ss.sharedir, storage_index_to_dir(s.si))
                names = [n for n in os.listdir(bucketdir) if n.isdigit()]
                pos, kind = s.damage_at
                victim = int(names[pos])
                for m in s.group:
                    if m.shnum == victim:
                        m.damaged = kind
                    m.listed_after_victim = names.index("%d" % m.shnum) > pos
                fn = os.path.join(bucketdir, names[pos])
                with open(fn, "rb+") as f:
                    if kind == "bad-version-magic":
                        f.write(b"\xff\xff\xff\xfe")
                    elif kind == "truncated-header":
                        f.truncate(5)
                    else:
                        f.truncate(0)
                if os.listdir(bucketdir) != os.listdir(bucketdir) or \
                        [n for n in os.listdir(bucketdir) if n.isdigit()] != names:
                    ck.observe("listdir-order-changed-after-damage")
            # sanity of the workload itself: every share is there before the crawl
            for s in shares:
                if not present(ss, s):
                    raise AssertionError("workload error: share %d missing before the crawl" % s.idx)
                s.gone = False

            # ---- cycles
            lc = ss.lease_checker
            lc.cpu_slice = 1e12
            for cycle_no, when in enumerate((now, now + 2 * YEAR)):
                if when > clock.seconds():
                    clock.advance(when - clock.seconds())
                try:
                    lc.start_slice()
                except Exception as e:
                    if shared_only:
                        ck.observe("shared-cancel-secret-crawler-raises-" + type(e).__name__)
                        break
                    ck.violation("lease-crawler-raises", "start_slice raised %s: %s" % (type(e).__name__, e),
                                 {"config": describe(cfg)})
                    break
                st = lc.get_state()
                if st["last-cycle-finished"] != cycle_no:
                    ck.inconclusive_because("forced slice did not complete cycle %d (state %r)"
                                            % (cycle_no, st["last-cycle-finished"]))
                    break
                ck.hit("full-cycle-completed")
                deleted_n = 0
                kept_expired = []            # (what, witness) of expired shares that survived this cycle
                for s in shares:
                    if s.gone:
                        continue
                    here = present(ss, s)
                    if not here:
                        s.gone = True
                        deleted_n += 1
                    stats = [expired_status(cfg, r, when) for r in s.leases.values()]
                    offs = sorted(int(r - threshold(cfg, now)) for r in s.leases.values())
                    wit = {"config": describe(cfg), "cycle": cycle_no, "share_kind": s.kind, "scenario": s.tag,
                           "now": when, "now_minus_epoch_days": (when - int(env.EPOCH)) // DAY,
                           "lease_renewal_minus_threshold_s": offs,
                           "lease_age_days": sorted(round((when - r) / DAY, 3) for r in s.leases.values()),
                           "lease_status": stats, "present_after_cycle": here}
                    key = (ci, s.kind, s.tag, tuple(offs), cycle_no)
                    if s.in_damaged_bucket:
                        head = s.sibling_of or s
                        key = key + (s.shnum, head.damage_at)
                        wit["bucket"] = {"shares": len(head.group), "damaged_listdir_position": head.damage_at[0],
                                         "damage": head.damage_at[1], "this_share_listed_after_it": s.listed_after_victim}
                    nontrivial = cfg["enabled"] and "expired" in stats
                    if s.damaged:
                        ck.skip("damaged-share-file")
                        ck.case("damaged-share", key=key + (s.damaged,), nontrivial=False)
                        continue
                    if not s.leases:
                        ck.observe("zero-lease-share-kept" if here else "zero-lease-share-deleted")
                        ck.skip("zero-lease-share")
                        ck.case("zero-lease", key=key, nontrivial=False)
                        continue
                    if s.shared_cancel:
                        if not here and "valid" in stats:
                            ck.observe("shared-cancel-secret-valid-lease-cancelled")
                        ck.skip("leases-sharing-a-cancel-secret")
                        ck.case("shared-cancel-secret", key=key, nontrivial=False)
                        continue
                    ck.mon("expiry-oracle")
                    must_keep = (not cfg["enabled"]) or (s.kind not in cfg["sharetypes"]) or ("valid" in stats)
                    must_delete = (not must_keep) and all(x == "expired" for x in stats)
                    if must_keep:
                        if not cfg["enabled"]:
                            cls = "disabled"
                        elif s.kind not in cfg["sharetypes"]:
                            cls = "type-not-enabled"
                            ck.hit("sharetype-filter-decides")
                        else:
                            cls = "has-valid-lease"
                            if "expired" in stats:
                                ck.hit("valid-lease-among-expired")
                        if not here:
                            k = {"disabled": "deleted-although-expiration-disabled",
                                 "type-not-enabled": "deleted-although-sharetype-not-enabled",
                                 "has-valid-lease": "deleted-with-unexpired-lease"}[cls]
                            ck.violation(k, "%s share (%s) deleted by cycle %d; leases %r"
                                         % (s.kind, s.tag, cycle_no, stats), wit)
                        else:
                            got = read_back(ss, s)
                            ck.mon("survivor-data-oracle")
                            if got != s.data:
                                ck.violation("surviving-share-data-changed",
                                             "%s share kept but reads back %r" % (s.kind, got and got[:20]), wit)
                    elif must_delete:
                        cls = "all-expired"
                        ck.hit("all-leases-expired")
                        if s.in_damaged_bucket:
                            ck.hit("expired-share-listed-after-damaged-share" if s.listed_after_victim
                                   else "expired-share-listed-before-damaged-share")
                        if here:
                            kept_expired.append(("%s share (%s) with every lease expired (%s) still present after full "
                                                 "cycle %d" % (s.kind, s.tag, describe(cfg), cycle_no), wit))
                    else:
                        cls = "edge"
                        ck.skip("lease-exactly-at-threshold")
                    ck.case(cls, key=key, nontrivial=nontrivial,
                            sample=dict(wit, lease_age_days=wit["lease_age_days"][:5]))
                # one key per mechanism: "never expires" = age mode without override and the cycle deleted nothing
                # at all although shares were due; anything else is a plain "expired share kept"
                for what, wit in kept_expired:
                    if cfg["mode"] == "age" and cfg["override"] is None and deleted_n == 0:
                        ck.violation("age-mode-no-override-never-expires", what, wit)
                    else:
                        ck.violation("expired-share-kept", what, wit)
                # crawler's own account of what it deleted (observation only)
                try:
                    hist = lc.get_state()["history"][str(cycle_no)]["space-recovered"]
                    zero_counted = sum(1 for s in shares if not s.leases and not s.gone and cfg["enabled"])
                    if hist["actual-shares"] == deleted_n:
                        ck.observe("space-recovered-actual-shares-matches")
                    elif hist["actual-shares"] == deleted_n + zero_counted:
                        ck.observe("space-recovered-counts-kept-zero-lease-shares-as-recovered")
                    else:
                        ck.observe("space-recovered-actual-shares-differs-from-deleted-files")
                except Exception:
                    ck.observe("history-unavailable")
        finally:
            if cfg.get("tz"):
                if old_tz is None:
                    os.environ.pop("TZ", None)
                else:
                    os.environ["TZ"] = old_tz
                time.tzset()
            expirer_mod.time, lease_mod.time, crawler_mod.time = saved
            shutil.rmtree(d, ignore_errors=True)

    for ci, cfg in enumerate(cfgs):
        if not ck.mine(ci):
            continue
        if not ck.more(min_cases=10 ** 9):     # fixed list: only 4x the budget stops it (loaded machine)
            complete = False
            break
        with ck.watchdog(300, "configuration %d" % ci):
            one_config(ci, cfg)
    # the storage server as the node builds it from tahoe.cfg
    for ni, cfg in enumerate(node_configs(nows[0])):
        if not ck.mine(ni):
            continue
        if not ck.more(min_cases=10 ** 9):
            complete = False
            break
        with ck.watchdog(300, "tahoe.cfg configuration %d" % ni):
            one_config(3000 + ni, cfg)
    # leases sharing a cancel secret: observation only (cancel_lease() removes every lease with that secret)
    for ci, cfg in enumerate(cfgs):
        if cfg["enabled"] and cfg["sharetypes"] == ("mutable", "immutable") and ck.mine(ci) \
                and ck.more(min_cases=10 ** 9) \
                and (cfg["override"] in (None, 31 * DAY) if cfg["mode"] == "age" else cfg["cutoff_rel_days"] in (-31, 1)):
            one_config(1000 + ci, cfg, shared_only="one-valid")
            one_config(2000 + ci, cfg, shared_only="both-expired")
    ck.extra["configurations"] = {"total": len(cfgs), "complete": bool(complete)}
    ck.exhaustive = False      # configurations are enumerated completely, lease sets are structured + sampled
    ck.require_monitor("expiry-oracle", "survivor-data-oracle")
    ck.require_reach("full-cycle-completed", "all-leases-expired", "valid-lease-among-expired",
                     "sharetype-filter-decides", "server-built-from-tahoe-cfg", "non-default-process-timezone", "expired-share-listed-after-damaged-share",
                     "expired-share-listed-before-damaged-share", "lease-renewed-through-renew_lease",
                     "lease-renewed-through-add_lease")


# MUST_CATCH  (selftest/breaks_c26.py; run on a base = /repo/src + the proposed one-line expirer fix, quick tier)
#  unchanged tree: age mode without override, age compared with an absolute timestamp -> age-mode-no-override-never-expires CAUGHT
#  c26-cutoff-comparison-inverted                 -> deleted-with-unexpired-lease, expired-share-kept     CAUGHT
#  c26-sharetype-filter-ignored                   -> deleted-although-sharetype-not-enabled               CAUGHT
#  c26-one-expired-lease-cancels-all              -> deleted-with-unexpired-lease                         CAUGHT
#  c26-enabled-flag-ignored                       -> deleted-although-expiration-disabled                 CAUGHT
#  c26-age-limit-2s-early / c26-cutoff-2s-late    -> deleted-with-unexpired-lease                         CAUGHT
#  c26-age-limit-2s-late                          -> expired-share-kept                                   CAUGHT
#  c26-immutable-not-unlinked-after-last-lease    -> expired-share-kept                                   CAUGHT
#  c26-mutable-unlinked-after-any-cancel          -> lease-crawler-raises (2nd cancel on a deleted file)  CAUGHT
#  c26-override-ignored                           -> deleted-with-unexpired-lease, expired-share-kept     CAUGHT
#  seeded/C26-2 (corrupt-share try/except around the whole per-share loop)  -> expired-share-kept (healthy share listed after a damaged one)  CAUGHT
#  seeded/C26-6 (client.py: single share type passed as a str, substring test)    -> deleted-although-sharetype-not-enabled (server built from tahoe.cfg)  CAUGHT
#  seeded/C26-7 (parse_date yields LOCAL midnight)   -> deleted-with-unexpired-lease (TZ=EST5) / expired-share-kept (TZ=MSK-3), tahoe.cfg cutoff-date family  CAUGHT
