"""C25 lease semantics: renew-or-add, no backdating, unknown secret rejected, leases survive writes, v2 never stores cleartext secrets."""
META = {
    "level": "exploration",
    "technique": "history + executable model: seeded add/renew/cancel/write/allocate histories on the real StorageServer and share-file classes compared with a lease-table model; raw container bytes scanned for every secret any client presented",
    "text": "Drives the real StorageServer.add_lease / renew_lease / allocate_buckets / slot_testv_and_readv_and_writev (and FoolscapStorageServer.remote_add_lease/remote_renew_lease, ShareFile/MutableShareFile.renew_lease/cancel_lease) under a forward-moving virtual clock on one immutable and one mutable storage index with 1..3 shares each, v1 and v2 containers mixed, up to 12 leases per share (mutable extra-lease area), data writes and container growth in between; plus a directed boundary family of sparse immutable shares whose allocated size sits around 2**32 (2**32-2, -1, +0, +7, ..., where the 4-byte share-data-length header field saturates; v1 and v2 containers; files parsed by header+tail only and unlinked afterwards) run through add/renew/unknown-renew/second-allocate/backdating steps with the same lease-table oracle and a head/tail data-intact check. After every operation each share's leases (through get_leases() and through an independent parser of the raw file) are compared with a lease table (owner, renew-secret match, cancel-secret match, expiry); renewing with a secret unknown to the bucket must raise and leave every file byte-identical; expiry never decreases (shorter renewal duration, explicit earlier time); the raw bytes of every v2 container are scanned for every renew/cancel secret ever presented.",
    "note": "Trusts the lease-table model and the independent parser; renew_lease with a secret known to only some shares of the bucket is generated but not judged (the statement leaves it open); cancel_lease (the share-file call the lease crawler makes) is a judged history step for every OTHER lease (they must stay visible, renewable, never duplicated, incl. leases stored behind the blanked slot of a mutable container); only what happens to the cancelled lease itself is left as an observation.",
}
LEVEL = "exploration"
BUDGET = {"quick": 40, "thorough": 240}
SHARDS = {"quick": 1, "thorough": 8}

import os
from vf import env  # noqa
from vf.checks import _storage as S

RENEW = 31 * 24 * 60 * 60


def run(ck):
    ck.rule = ("one case = fresh server, one immutable + one mutable storage index with 1..3 shares each (v1/v2 mixed) "
               "and a history of 40..90 lease/data operations; distinct = distinct (setup, history); non-trivial = "
               "history renewed a known secret, tried an unknown one and wrote data on a share with >4 leases")
    ncases = 80 if ck.tier == "quick" else 2500
    for ci in range(ncases):
        if not ck.mine(ci):
            continue
        if ck.out_of_time():
            break
        rng = ck.rng("case", ci)
        case = S.Case(rng)
        try:
            if rng.random() < (.15 if ck.tier == "quick" else .05):
                _big_share_family(ck, rng, case, ci)
            else:
                _one_case(ck, rng, case, ci)
        except Exception as e:
            import traceback
            tb = traceback.extract_tb(e.__traceback__)[-1]
            ck.violation("op-raises-%s" % type(e).__name__, "%s: %s at %s:%d" % (
                type(e).__name__, e, os.path.basename(tb.filename), tb.lineno), {"case": ci})
            ck.case("history", key=("raised", ci), nontrivial=False)
        finally:
            case.close()
    for m in ("lease-table", "raw-lease-records", "unknown-renew-rejected", "no-cleartext-in-v2", "no-backdating",
              "leases-survive-cancel", "big-share-data-intact"):
        ck.require_monitor(m)
    for r in ("renew-known-via-add_lease", "add-fresh", "renew-unknown", "backdate-attempt-shorter-duration",
              "backdate-attempt-explicit-time", "mutable-leases>4", "write-with-leases>4", "growth-with-extra-leases",
              "immutable-v1", "immutable-v2", "mutable-v1", "mutable-v2", "v1-cleartext-seen",
              "allocate-renews-existing", "renew_lease-known", "foolscap-wrapper", "cancel",
              "cancel-secret-as-renew-secret", "mutable-cancel-leaves-hole-below-leases",
              "renew-or-add-after-hole", "big-share:2**32-2", "big-share:2**32-1", "big-share:2**32+0",
              "big-share:2**32+7", "big-share-v1", "big-share-v2"):
        ck.require_reach(r)
    ck.exhaustive = False


def _one_case(ck, rng, case, ci):
    import allmydata.storage.server as server_mod
    from allmydata.storage.server import FoolscapStorageServer
    from allmydata.storage.immutable import ShareFile
    from allmydata.storage.mutable import MutableShareFile
    from allmydata.storage.lease import LeaseInfo

    ss = case.ss
    fss = FoolscapStorageServer(ss)
    si_i, si_m = S.rand_si(rng), S.rand_si(rng)
    we = S.rand_bytes(rng, 32)
    shares = {}     # (kind, shnum) -> {"v": 1|2, "leases": [..]}  kind in "im"/"mu"
    presented = []  # every renew/cancel secret any client ever presented
    history = []
    flags = set()

    def now():
        return env.reactor.seconds()

    def secret():
        s = S.rand_bytes(rng, 32)
        presented.append(s)
        return s

    def si_of(kind):
        return si_i if kind == "im" else si_m

    def path(kind, sh):
        return case.final_path(si_of(kind), sh)

    def viol(key, what, **w):
        w["history_tail"] = history[-8:]
        w["shares"] = {"%s%d" % k: "v%d/%d leases" % (v["v"], len(v["leases"])) for k, v in shares.items()}
        ck.violation(key, what, w)
        raise _Stop()

    def renew_or_add(leases, owner, rs, cs, expiry):
        for l in leases:
            if l["renew"] == rs:
                l["expiry"] = max(l["expiry"], int(expiry))
                return "renewed"
        leases.append({"owner": owner, "renew": rs, "cancel": cs, "expiry": int(expiry)})
        return "added"

    # ------------------------------------------------------------ setup
    # immutable shares: v2 through allocate_buckets, v1 through the repo's own ShareFile(schema=v1)
    for sh in sorted(rng.sample(range(4), rng.randint(1, 3))):
        size = rng.choice([1, 50, 1000])
        rs, cs = secret(), secret()
        if rng.random() < .5:
            ck.hit("immutable-v2")
            # leases already on the bucket get renewed/added by this allocation
            for (k, s2), v in shares.items():
                if k == "im":
                    renew_or_add(v["leases"], 0, rs, cs, now() + RENEW)
            already, writers = ss.allocate_buckets(si_i, rs, cs, {sh}, size)
            writers[sh].write(0, S.rand_bytes(rng, size))
            writers[sh].close()
            shares[("im", sh)] = {"v": 2, "leases": [{"owner": 0, "renew": rs, "cancel": cs, "expiry": int(now() + RENEW)}]}
        else:
            ck.hit("immutable-v1")
            sf = ShareFile(path("im", sh), max_size=size, create=True, schema=S.schema_v1("immutable"))
            sf.write_share_data(0, S.rand_bytes(rng, size))
            sf.add_lease(LeaseInfo(1, rs, cs, int(now() + RENEW), case.nodeid))
            shares[("im", sh)] = {"v": 1, "leases": [{"owner": 1, "renew": rs, "cancel": cs, "expiry": int(now() + RENEW)}]}
        env.reactor.advance(rng.choice([0, 1, 3600]))
    for sh in sorted(rng.sample(range(4), rng.randint(1, 3))):
        if rng.random() < .5:
            ck.hit("mutable-v1")
            os.makedirs(case.bucket_dir(si_m), exist_ok=True)
            MutableShareFile(path("mu", sh), ss, schema=S.schema_v1("mutable")).create(case.nodeid, we)
            shares[("mu", sh)] = {"v": 1, "leases": []}
        else:
            ck.hit("mutable-v2")
            rs, cs = secret(), secret()
            ok, _ = ss.slot_testv_and_readv_and_writev(si_m, (we, rs, cs), {sh: ([], [(0, S.rand_bytes(rng, 40))], None)}, [])
            assert ok
            shares[("mu", sh)] = {"v": 2, "leases": [{"owner": 1, "renew": rs, "cancel": cs, "expiry": int(now() + RENEW)}]}
    setup = {"%s%d" % k: "v%d" % v["v"] for k, v in shares.items()}

    # ------------------------------------------------------------ oracle
    def real_leases(kind, sh):
        if kind == "im":
            return list(ShareFile(path(kind, sh)).get_leases())
        return list(MutableShareFile(path(kind, sh)).get_leases())

    def raw(kind, sh):
        return (S.parse_immutable if kind == "im" else S.parse_mutable)(path(kind, sh))

    def check_all(after):
        for (kind, sh), v in sorted(shares.items()):
            p = path(kind, sh)
            if not os.path.exists(p):
                viol("share-vanished", "%s share %d disappeared (after %s)" % (kind, sh, after))
            want = v["leases"]
            real = real_leases(kind, sh)
            r = raw(kind, sh)
            if v["v"] == 2:
                ck.mon("no-cleartext-in-v2")
                for s in presented:
                    if s in r.raw:
                        viol("v2-stores-cleartext-secret", "%s share %d (v2 container) contains a client's %s secret "
                             "in cleartext at offset %d (after %s)" % (
                                 kind, sh, "renew/cancel", r.raw.find(s), after))
            else:
                if any(w["renew"] in r.raw for w in want):
                    ck.hit("v1-cleartext-seen")
            ck.mon("lease-table")
            if len(real) != len(want):
                key = "duplicate-lease-appended" if len(real) > len(want) else "lease-lost"
                viol(key, "%s share %d (v%d): %d leases, model has %d (after %s)"
                     % (kind, sh, v["v"], len(real), len(want), after))
            for w in want:
                m = [l for l in real if l.is_renew_secret(w["renew"])]
                if len(m) != 1:
                    viol("lease-secret-match", "%s share %d (v%d): %d leases accept renew secret %s (after %s)"
                         % (kind, sh, v["v"], len(m), w["renew"][:4].hex(), after))
                got = int(m[0].get_expiration_time())
                if got != w["expiry"]:
                    key = "lease-expiry-shortened" if got < w["expiry"] else "lease-expiry-wrong"
                    viol(key, "%s share %d (v%d): lease %s expires %d, model %d (delta %d s) (after %s)"
                         % (kind, sh, v["v"], w["renew"][:4].hex(), got, w["expiry"], got - w["expiry"], after))
                if m[0].owner_num != w["owner"] or not m[0].is_cancel_secret(w["cancel"]):
                    viol("lease-record-changed", "%s share %d: owner/cancel secret of lease %s changed (after %s)"
                         % (kind, sh, w["renew"][:4].hex(), after))
            ck.mon("raw-lease-records")
            if sorted(l["expiry"] for l in r.leases) != sorted(w["expiry"] for w in want) or \
                    (kind == "mu" and not r.wellformed()):
                viol("raw-lease-records-differ", "%s share %d: lease records in the file %r differ from the model %r (after %s)"
                     % (kind, sh, sorted(l["expiry"] for l in r.leases), sorted(w["expiry"] for w in want), after))
            if r.version != v["v"]:
                viol("container-version-changed", "%s share %d is v%r, created as v%d" % (kind, sh, r.version, v["v"]))
            if kind == "mu" and len(want) > 4:
                ck.hit("mutable-leases>4")
                flags.add("mu>4")

    # ------------------------------------------------------------ operations
    def known_secret(kind):
        c = [(l["renew"], l["cancel"]) for (k, sh), v in sorted(shares.items()) if k == kind for l in v["leases"]]
        return rng.choice(c) if c else None

    def op_add_lease():
        kind = rng.choice(["im", "mu"])
        ks = known_secret(kind)
        short = rng.random() < .25
        if ks and rng.random() < .55:
            rs, cs = ks
            if rng.random() < .3:
                cs = secret()          # same renew secret, different cancel secret: still a renewal
            ck.hit("renew-known-via-add_lease")
            flags.add("renew-known")
            if kind == "mu" and "hole" in flags:
                ck.hit("renew-or-add-after-hole")
        else:
            rs, cs = secret(), secret()
            if ks and rng.random() < .15:
                rs = ks[1]         # somebody's cancel secret used as a new renew secret: a new lease
                ck.hit("cancel-secret-as-renew-secret")
            ck.hit("add-fresh")
        dur = RENEW
        if short:
            dur = rng.choice([0, 1, 86400, RENEW - 1])
            ck.hit("backdate-attempt-shorter-duration")
            ck.mon("no-backdating")
        history.append(("add_lease", kind, rs[:3].hex(), "dur=%d" % dur))
        via = rng.random() < .3
        saved = server_mod.DEFAULT_RENEWAL_TIME
        server_mod.DEFAULT_RENEWAL_TIME = dur
        try:
            if via:
                ck.hit("foolscap-wrapper")
                res = fss.remote_add_lease(si_of(kind), rs, cs)
            else:
                res = ss.add_lease(si_of(kind), rs, cs)
        finally:
            server_mod.DEFAULT_RENEWAL_TIME = saved
        for (k, sh), v in shares.items():
            if k == kind:
                renew_or_add(v["leases"], 1, rs, cs, now() + dur)

    def op_renew_lease():
        kind = rng.choice(["im", "mu"])
        mine = [v for (k, sh), v in shares.items() if k == kind]
        ks = known_secret(kind)
        r = rng.random()
        if ks and r < .5:
            rs = ks[0]
        elif ks and r < .65:
            rs = ks[1]             # a *cancel* secret presented as renew secret: unknown
            ck.hit("cancel-secret-as-renew-secret")
        else:
            rs = secret()
        holders = [v for v in mine if any(l["renew"] == rs for l in v["leases"])]
        history.append(("renew_lease", kind, rs[:3].hex(), "%d/%d shares hold it" % (len(holders), len(mine))))
        pre = S.snapshot_dir(case.bucket_dir(si_of(kind)))
        exc = None
        try:
            if rng.random() < .3:
                ck.hit("foolscap-wrapper")
                fss.remote_renew_lease(si_of(kind), rs)
            else:
                ss.renew_lease(si_of(kind), rs)
        except Exception as e:
            exc = e
        post = S.snapshot_dir(case.bucket_dir(si_of(kind)))
        if not holders:
            ck.hit("renew-unknown")
            flags.add("renew-unknown")
            ck.mon("unknown-renew-rejected")
            if exc is None:
                viol("unknown-renew-no-error", "renew_lease with a secret no share knows returned normally")
            if post != pre:
                viol("unknown-renew-changed-files", "renew_lease with an unknown secret raised %s but share files changed: %r"
                     % (type(exc).__name__, sorted(k for k in post if post[k] != pre.get(k))))
        elif len(holders) == len(mine):
            ck.hit("renew_lease-known")
            if kind == "mu" and "hole" in flags:
                ck.hit("renew-or-add-after-hole")
            if exc is not None:
                viol("known-renew-raises", "renew_lease with a secret every share knows raised %s: %s" % (type(exc).__name__, exc))
            for v in mine:
                renew_or_add(v["leases"], None, rs, None, now() + RENEW)
        else:
            # known to some shares only: the statement does not say; adopt what the server did
            ck.skip("renew-secret-known-to-some-shares-only")
            for (k, sh), v in shares.items():
                if k == kind:
                    for l in v["leases"]:
                        if l["renew"] == rs:
                            m = [x for x in real_leases(k, sh) if x.is_renew_secret(rs)]
                            if len(m) == 1 and int(m[0].get_expiration_time()) >= l["expiry"]:
                                l["expiry"] = int(m[0].get_expiration_time())

    def op_file_renew():
        (kind, sh), v = rng.choice(sorted(shares.items()))
        sf = ShareFile(path(kind, sh)) if kind == "im" else MutableShareFile(path(kind, sh), ss)
        if v["leases"] and rng.random() < .75:
            l = rng.choice(v["leases"])
            t = l["expiry"] + rng.choice([-RENEW, -86400, -1, 0, 1, 3600])
            if t < l["expiry"]:
                ck.hit("backdate-attempt-explicit-time")
                ck.mon("no-backdating")
            history.append(("file.renew_lease", kind, sh, l["renew"][:3].hex(), t - l["expiry"]))
            sf.renew_lease(l["renew"], t)
            l["expiry"] = max(l["expiry"], int(t))
        else:
            rs = secret()
            cand = [l["cancel"] for l in v["leases"] if all(x["renew"] != l["cancel"] for x in v["leases"])]
            if cand and rng.random() < .4:
                rs = rng.choice(cand)
                ck.hit("cancel-secret-as-renew-secret")
            history.append(("file.renew_lease-unknown", kind, sh))
            with open(path(kind, sh), "rb") as f:
                pre = f.read()
            ck.mon("unknown-renew-rejected")
            try:
                sf.renew_lease(rs, int(now() + RENEW))
            except IndexError:
                pass
            else:
                viol("unknown-renew-no-error", "%s.renew_lease with an unknown secret returned normally"
                     % type(sf).__name__)
            with open(path(kind, sh), "rb") as f:
                if f.read() != pre:
                    viol("unknown-renew-changed-files", "share file changed by a renewal with an unknown secret")

    def op_write():
        mu = sorted(sh for (k, sh) in shares if k == "mu")
        if not mu:
            return op_add_lease()
        sh = rng.choice(mu)
        v = shares[("mu", sh)]
        r = raw("mu", sh)
        cur = r.data_length
        off = rng.choice([0, cur, cur + 1, cur + rng.choice([100, 5000, 70000]), max(0, r.extra_offset - 468 - 1),
                          r.extra_offset - 468])
        data = S.rand_bytes(rng, rng.choice([1, 10, 300]))
        nl = rng.choice([None, None, None, max(1, (off + len(data)) // 2)])
        renew = rng.random() < .3
        ks = known_secret("mu")
        if renew and ks and rng.random() < .5:
            rs, cs = ks
        else:
            rs, cs = secret(), secret()
        grows = 468 + off + len(data) > r.extra_offset
        history.append(("write", sh, off, len(data), nl, "renew" if renew else "norenew", "grows" if grows else ""))
        if len(v["leases"]) > 4:
            ck.hit("write-with-leases>4")
            flags.add("write>4")
            if grows:
                ck.hit("growth-with-extra-leases")
        ok, _ = ss.slot_testv_and_readv_and_writev(si_m, (we, rs, cs), {sh: ([], [(off, data)], nl)}, [],
                                                   renew_leases=renew)
        if not ok:
            viol("write-refused", "test-less write returned False")
        if renew:
            renew_or_add(v["leases"], 1, rs, cs, now() + RENEW)

    def op_allocate():
        # immutable: allocate one more share (or an existing one): leases on existing shares are renewed/added
        sh = rng.randrange(5)
        ks = known_secret("im")
        if ks and rng.random() < .5:
            rs, cs = ks
        else:
            rs, cs = secret(), secret()
        size = rng.choice([1, 20, 500])
        history.append(("allocate", sh, rs[:3].hex()))
        existing = [v for (k, s2), v in shares.items() if k == "im"]
        if existing:
            ck.hit("allocate-renews-existing")
        already, writers = ss.allocate_buckets(si_i, rs, cs, {sh}, size)
        for v in existing:
            renew_or_add(v["leases"], 0, rs, cs, now() + RENEW)
        if sh in writers:
            t0 = now()
            writers[sh].write(0, S.rand_bytes(rng, size))
            env.reactor.advance(rng.choice([0, 5, 600]))
            writers[sh].close()
            shares[("im", sh)] = {"v": 2, "leases": [{"owner": 0, "renew": rs, "cancel": cs, "expiry": int(t0 + RENEW)}]}

    def op_cancel():
        # The call the lease crawler makes (ShareFile/MutableShareFile.cancel_lease).  What cancel does to
        # the cancelled lease is not in the statement; what it does to every OTHER lease is: they must stay
        # visible, renewable and never get duplicated -- check_all() and the following ops judge that.
        cands = [(k, v) for k, v in sorted(shares.items()) if len(v["leases"]) >= 2]
        if not cands:
            return op_add_lease()
        mu = [c for c in cands if c[0][0] == "mu"]
        (kind, sh), v = rng.choice(mu if mu and rng.random() < .7 else cands)
        # bias towards a lease that is not the most recently added one (a hole below other leases)
        l = rng.choice(v["leases"][:-1]) if rng.random() < .7 else rng.choice(v["leases"])
        history.append(("file.cancel_lease", kind, sh, l["renew"][:3].hex(), "%d leases" % len(v["leases"])))
        ck.hit("cancel")
        before = raw(kind, sh)
        sf = ShareFile(path(kind, sh)) if kind == "im" else MutableShareFile(path(kind, sh), ss)
        sf.cancel_lease(l["cancel"])
        v["leases"] = [x for x in v["leases"] if x["cancel"] != l["cancel"]]
        flags.add("cancelled")
        if kind == "mu":
            after = raw("mu", sh)
            occ_b = [i for i, sl in enumerate(before.slots) if sl and sl["owner"]]
            occ_a = [i for i, sl in enumerate(after.slots) if sl and sl["owner"]]
            gone = [i for i in occ_b if i not in occ_a]
            if gone and occ_a and min(gone) < max(occ_a):
                ck.hit("mutable-cancel-leaves-hole-below-leases")
                flags.add("hole")
        real = real_leases(kind, sh)
        if any(x.is_renew_secret(l["renew"]) for x in real):
            ck.observe("cancelled-lease-still-present")      # cancel itself is not judged
            raise _Stop()
        ck.mon("leases-survive-cancel")
        hidden = [w["renew"][:4].hex() for w in v["leases"] if not any(x.is_renew_secret(w["renew"]) for x in real)]
        if hidden:
            viol("lease-lost-after-cancel", "%s share %d (v%d): cancelling one lease made %d other lease(s) invisible "
                 "to get_leases(): %r; %d visible, %d expected"
                 % (kind, sh, v["v"], len(hidden), hidden, len(real), len(v["leases"])))

    def op_advance():
        dt = rng.choice([1, 60, 3600, 86400, 10 * 86400, 40 * 86400])
        history.append(("advance", dt))
        env.reactor.advance(dt)

    table = [op_add_lease] * 30 + [op_renew_lease] * 14 + [op_file_renew] * 14 + [op_write] * 18 + \
            [op_allocate] * 6 + [op_cancel] * 9 + [op_advance] * 12
    try:
        check_all("setup")
        for _ in range(rng.randint(40, 90)):
            rng.choice(table)()
            check_all(history[-1][0])
    except _Stop:
        pass
    ck.case("history", key=(repr(sorted(setup.items())), repr(history)),
            nontrivial={"renew-known", "renew-unknown", "write>4"} <= flags,
            sample={"setup": setup, "ops": len(history), "first_ops": history[:6]})


class _Stop(Exception):
    pass


BIG_SIZES = [2 ** 32 - 2, 2 ** 32 - 1, 2 ** 32, 2 ** 32 + 7, 2 ** 32 + 1, 2 ** 32 + 72, 2 ** 33]


def _big_share_family(ck, rng, case, ci):
    """Directed boundary family: immutable shares whose allocated size sits around 2**32, where the 4-byte
    share-data-length header field saturates.  The files are sparse (a few hundred bytes are really written), the
    lease oracle is the usual lease table; files are never read whole (S.ImmutableTail) and are unlinked at the end."""
    from allmydata.storage.immutable import ShareFile
    from allmydata.storage.lease import LeaseInfo
    ss = case.ss
    sizes = BIG_SIZES[:4] + rng.sample(BIG_SIZES[4:], 1)
    rng.shuffle(sizes)
    for size in sizes:
        si = S.rand_si(rng)
        sh = rng.randrange(4)
        path = case.final_path(si, sh)
        v = rng.choice([1, 2, 2])
        tag = "2**32%+d" % (size - 2 ** 32)
        ck.hit("big-share:" + tag)
        ck.hit("big-share-v%d" % v)
        history = [("big-share", tag, "v%d" % v)]
        presented = []

        def secret():
            x = S.rand_bytes(rng, 32)
            presented.append(x)
            return x

        def viol(key, what, **w):
            w["history"] = history[-10:]
            w["size"] = size
            ck.violation(key, "immutable share of allocated size %s (v%d container): %s" % (tag, v, what), w)
            raise _Stop()

        head, tail = S.rand_bytes(rng, 200), S.rand_bytes(rng, 300)
        R, C = secret(), secret()
        leases = []
        try:
            try:
                if v == 2:
                    already, writers = ss.allocate_buckets(si, R, C, {sh}, size)
                    if set(writers) != {sh}:
                        ck.observe("big-share-not-granted")
                        continue
                    writers[sh].write(0, head)
                    writers[sh].write(size - len(tail), tail)
                    writers[sh].close()
                    leases.append({"owner": 0, "renew": R, "cancel": C, "expiry": int(env.reactor.seconds() + RENEW)})
                else:
                    sf = ShareFile(path, max_size=size, create=True, schema=S.schema_v1("immutable"))
                    sf.write_share_data(0, head)
                    sf.write_share_data(size - len(tail), tail)
                    sf.add_lease(LeaseInfo(1, R, C, int(env.reactor.seconds() + RENEW), case.nodeid))
                    leases.append({"owner": 1, "renew": R, "cancel": C, "expiry": int(env.reactor.seconds() + RENEW)})

                def check(after):
                    real = list(ShareFile(path).get_leases())
                    t = S.ImmutableTail(path)
                    ck.mon("lease-table")
                    if len(real) != len(leases):
                        viol("duplicate-lease-appended" if len(real) > len(leases) else "lease-lost",
                             "%d leases visible, model has %d (after %s)" % (len(real), len(leases), after))
                    for w in leases:
                        m = [l for l in real if l.is_renew_secret(w["renew"])]
                        if len(m) != 1:
                            viol("lease-secret-match", "%d leases accept renew secret %s (after %s)"
                                 % (len(m), w["renew"][:4].hex(), after))
                        got = int(m[0].get_expiration_time())
                        if got != w["expiry"]:
                            viol("lease-expiry-shortened" if got < w["expiry"] else "lease-expiry-wrong",
                                 "lease %s expires %d, model %d (after %s)" % (w["renew"][:4].hex(), got, w["expiry"], after))
                        if m[0].owner_num != w["owner"] or not m[0].is_cancel_secret(w["cancel"]):
                            viol("lease-record-changed", "owner/cancel secret of lease %s changed (after %s)"
                                 % (w["renew"][:4].hex(), after))
                    ck.mon("raw-lease-records")
                    if t.filesize != 12 + size + 72 * len(leases) or \
                            sorted(l["expiry"] for l in t.leases) != sorted(w["expiry"] for w in leases):
                        viol("raw-lease-records-differ", "file is %d bytes with lease expiries %r at its end; expected "
                             "%d bytes and %r (after %s)" % (t.filesize, sorted(l["expiry"] for l in t.leases),
                                                             12 + size + 72 * len(leases),
                                                             sorted(w["expiry"] for w in leases), after))
                    if v == 2:
                        ck.mon("no-cleartext-in-v2")
                        if any(x in t.tail for x in presented):
                            viol("v2-stores-cleartext-secret", "a client's lease secret is stored in cleartext (after %s)" % after)
                    # leases survive / do not damage the share data
                    ck.mon("big-share-data-intact")
                    sf = ShareFile(path)
                    if sf.read_share_data(0, len(head)) != head or \
                            sf.read_share_data(size - len(tail), len(tail) + 100) != tail:
                        viol("lease-op-damaged-share-data", "head/tail of the share data read back differently, or lease "
                             "bytes are served as data (after %s)" % after)

                check("upload")
                steps = ["add-known", "renew-known", "add-fresh", "renew-unknown", "allocate-known", "file-renew-back",
                         "add-known", "renew-known"]
                rng.shuffle(steps)
                for step in steps:
                    env.reactor.advance(rng.choice([1, 3600, 86400, 5 * 86400]))
                    now = env.reactor.seconds()
                    history.append(step)
                    if step == "add-known":
                        k = rng.choice(leases)
                        ss.add_lease(si, k["renew"], rng.choice([k["cancel"], secret()]))
                        k["expiry"] = max(k["expiry"], int(now + RENEW))
                        ck.hit("renew-known-via-add_lease")
                    elif step == "renew-known":
                        k = rng.choice(leases)
                        try:
                            ss.renew_lease(si, k["renew"])
                        except IndexError as e:
                            viol("known-renew-raises", "renew_lease with the secret of an existing lease raised IndexError: %s" % e)
                        k["expiry"] = max(k["expiry"], int(now + RENEW))
                        ck.hit("renew_lease-known")
                    elif step == "add-fresh":
                        r2, c2 = secret(), secret()
                        ss.add_lease(si, r2, c2)
                        leases.append({"owner": 1, "renew": r2, "cancel": c2, "expiry": int(now + RENEW)})
                        ck.hit("add-fresh")
                    elif step == "renew-unknown":
                        before = S.ImmutableTail(path)
                        ck.mon("unknown-renew-rejected")
                        ck.hit("renew-unknown")
                        try:
                            ss.renew_lease(si, secret())
                        except Exception:
                            pass
                        else:
                            viol("unknown-renew-no-error", "renew_lease with an unknown secret returned normally")
                        after = S.ImmutableTail(path)
                        if (after.filesize, after.head, after.tail) != (before.filesize, before.head, before.tail):
                            viol("unknown-renew-changed-files", "renewal with an unknown secret changed the share file")
                    elif step == "allocate-known":
                        k = rng.choice(leases)
                        already, writers = ss.allocate_buckets(si, k["renew"], k["cancel"], {sh}, size)
                        if writers or sh not in already:
                            viol("alreadygot-mismatch", "second allocate_buckets: alreadygot=%r writers=%r" % (sorted(already), sorted(writers)))
                        k["expiry"] = max(k["expiry"], int(now + RENEW))
                        ck.hit("allocate-renews-existing")
                    else:
                        k = rng.choice(leases)
                        ck.mon("no-backdating")
                        ck.hit("backdate-attempt-explicit-time")
                        ShareFile(path).renew_lease(k["renew"], k["expiry"] - 86400)
                    check(step)
            except _Stop:
                pass
        finally:
            for p in (path, case.incoming_path(si, sh)):
                if os.path.exists(p):
                    os.unlink(p)
        ck.case("big-share", key=(tag, v, tuple(history)), nontrivial=True,
                sample={"size": tag, "container": "v%d" % v, "steps": history[1:]})


# MUST_CATCH -- planted breaks run against scratch copies (VF_REPO), quick tier, seed 0:
#  1. immutable.py / mutable.py renew_lease: backdating allowed (condition -> True)    CAUGHT (lease-expiry-shortened)
#  2. immutable.py / mutable.py renew_lease: `>` -> `>=`          NOT CAUGHT: equivalent mutant (re-writes the same expiry)
#  3. immutable.py / mutable.py add_or_renew_lease: always adds   CAUGHT (duplicate-lease-appended)
#  4. lease_schema.py HashedLeaseSerializer.serialize: cleartext stored in v2   CAUGHT (v2-stores-cleartext-secret)
#  5. lease_schema.py _hash_secret: identity                      CAUGHT (v2-stores-cleartext-secret)
#  6. mutable.py renew_lease: unknown secret returns silently     CAUGHT (unknown-renew-no-error, lease-lost)
#  7. server.py renew_lease: swallows IndexError                  CAUGHT (unknown-renew-no-error)
#  8. mutable.py _change_container_size: extra leases truncated on growth   CAUGHT (op-raises-error in get_leases)
#  9. immutable.py renew_lease: also matches the cancel secret    CAUGHT (unknown-renew-no-error, lease-lost)
# 10. mutable.py renew_lease: unknown secret renews the first lease before raising   CAUGHT (unknown-renew-changed-files)
# 11. mutable.py _enumerate_leases: stops at the first empty slot (seeded C25-4; cancel leaves a hole, leases behind it
#     vanish / get duplicated / cannot be renewed)                                   CAUGHT (lease-lost-after-cancel)
#     -- was MISSED while cancel disagreements were only an observation; cancel is now a judged step.
# 12. immutable.py ShareFile.__init__: saturated 32-bit data-length field trusted (`< 2**32 - 1` -> `< 2**32`, seeded
#     C25-8): for shares of allocated size >= 2**32 the lease area is looked for inside the data
#                                                     CAUGHT (lease-secret-match; big-share family, sizes around 2**32)
#     -- was MISSED while every share was small; _big_share_family() now runs sparse shares of 2**32-2 .. 2**33 bytes
#        (v1 and v2) through the lease oracle (tail-only parser S.ImmutableTail, files unlinked afterwards).
