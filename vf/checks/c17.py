"""C17 key and secret derivations match the specification (function-level differential vs a hashlib-only reference)."""
META = {
    "level": 'exploration',
    "technique": 'differential testing of every real derivation function and of the client/upload/mutable call chains against a hashlib-only reimplementation written from the specification text, plus the 4 published lease vectors',
    "text": 'Executes the real hashutil functions (tagged hashes, storage index, SSK chain, write enablers, lease renewal/cancel chain, convergence key, dirnode child-cap key/salt, block/UEB/plaintext/crypttext hashers, server permutation), the uri.py cap classes, derive_mutable_keys, SecretHolder/_Client.init_secrets, Tahoe2ServerSelector.get_shareholders, immutable Checker(add_lease), MutableFileNode.get_write_enabler/get_renewal_secret/get_cancel_secret and `tahoe debug dump-cap` on seeded random inputs of the documented lengths and on edge lengths; every output is compared byte-for-byte with a reference that uses only hashlib and tag strings re-typed from docs/specifications (lease.rst, file-encoding.rst, derive_renewal_secret.py) and the hashutil.py tag table. Servers in the chain cases have tubid != permutation seed != server id, so a wrong seed choice is visible. Directory child-cap keys are additionally decided on stored bytes: SDMF and MDMF directories are created on an in-process grid through create_dirnode (with and without initial_children), create_subdirectory(initial_children), set_node/set_uri/set_children/set_nodes and a later re-pack; the directory file is downloaded by a fresh client, split into netstrings by the check and every rwcap slot is opened with a hashlib-derived key from the directory write key; it must be the child write cap; the same for clones (A.list() handed to create_dirnode / create_subdirectory / set_nodes / set_children of another directory, and to create_immutable_dirnode, whose slots must be empty). Lease secrets and write enablers are also decided on what a real StorageServer stored after a real client-side upload / check --add-lease / mutable create and overwrite over the in-memory HTTP storage protocol (vf/http.py). Sampled, not exhaustive.',
    "note": 'Trusts hashlib, the 10-line reference in vf/models.py (self-checked against the 4 published vectors before any verdict), and `cryptography` AES-CTR for opening dirnode/privkey ciphertexts. For tags that the prose specification does not spell out (SSK chain, dirnode, segment hashers) the reference pins the strings of the hashutil.py tag table as of the pinned tree: the check then proves stability ("any change would make existing files unreachable"), not agreement with an external document. The wire-level comparison on a running grid is wire_compare(), to be driven by the lead.',
}
LEVEL = "exploration"
BUDGET = {"quick": 45, "thorough": 240}
SHARDS = {"quick": 1, "thorough": 8}

import base64
import hashlib
import io
import os
import shutil
import tempfile

from vf import env  # noqa  (must precede allmydata imports)
from vf.models import netstring, sha256d, tagged_hash as T, tagged_pair_hash as P

# --------------------------------------------------------------------------
# Reference.  Every tag below is typed from the specification text, NOT
# imported from allmydata.  Sources:
#   [L]  docs/specifications/lease.rst lines 25-45, 64-69 and
#        docs/specifications/derive_renewal_secret.py
#   [F]  docs/specifications/file-encoding.rst "Hashes":
#        SI = SHA256d(netstring("allmydata_immutable_key_to_storage_index_v1") + key)
#        "When two separate values need to be combined together in a hash, we wrap each in a netstring."
#   [U]  docs/specifications/uri.rst: "tagged SHA-256d hash, then truncated to 128 bits"
#   [M]  docs/specifications/mutable.rst "SDMF slots overview": privkey -> 16-byte
#        write key -> read key -> 16-byte storage index; pubkey -> fingerprint;
#        write key -> write enabler master -> (master, nodeid) -> write enabler;
#        (IV, readkey) -> 16-byte data key
#   [D]  docs/specifications/dirnodes.rst: rwcap = IV + AES-CTR ciphertext + MAC,
#        key = "tagged hash of the IV and the dirnode's writekey"
#   [H]  the tag table in src/allmydata/util/hashutil.py (comment: "Almost any change
#        will cause a compatibility break, invalidating all outstanding URIs")
# --------------------------------------------------------------------------

def b32(b):
    """[L] 'base64.b32encode lowercased and with trailing = stripped'."""
    return base64.b32encode(b).decode("ascii").lower().rstrip("=")


def unb32(s):
    if isinstance(s, bytes):
        s = s.decode("ascii")
    s = s.upper()
    return base64.b32decode(s + "=" * (-len(s) % 8))


class Ref(object):
    # ---- immutable [F][U][H]
    @staticmethod
    def storage_index_hash(key):
        return T(b"allmydata_immutable_key_to_storage_index_v1", key, 16)

    @staticmethod
    def block_hash(d):
        return T(b"allmydata_encoded_subshare_v1", d)

    @staticmethod
    def uri_extension_hash(d):
        return T(b"allmydata_uri_extension_v1", d)

    @staticmethod
    def plaintext_hash(d):
        return T(b"allmydata_plaintext_v1", d)

    @staticmethod
    def crypttext_hash(d):
        return T(b"allmydata_crypttext_v1", d)

    @staticmethod
    def crypttext_segment_hash(d):
        return T(b"allmydata_crypttext_segment_v1", d)

    @staticmethod
    def plaintext_segment_hash(d):
        return T(b"allmydata_plaintext_segment_v1", d)

    @staticmethod
    def convergence_hash(k, n, segsize, data, convergence):
        # file-encoding.rst: "SHA-256d hash of a single-purpose tag, the encoding parameters,
        # a 'convergence secret', and the contents of the file"; hashutil.py wraps secret and
        # "k,n,segsize" in netstrings inside the tag; AES key = first 16 bytes.
        tag = (b"allmydata_immutable_content_to_key_with_added_secret_v1+"
               + netstring(convergence) + netstring(b"%d,%d,%d" % (k, n, segsize)))
        return T(tag, data, 16)

    # ---- leases [L]
    @staticmethod
    def my_renewal_secret_hash(lease_secret):
        # "client renewal secret is the sha256d tagged digest of (lease secret, client renewal tag)":
        # the *lease secret* is the netstring-wrapped element, the tag follows unmodified.
        return T(lease_secret, b"allmydata_client_renewal_secret_v1")

    @staticmethod
    def my_cancel_secret_hash(lease_secret):
        return T(lease_secret, b"allmydata_client_cancel_secret_v1")

    @staticmethod
    def file_renewal_secret_hash(crs, si):
        return P(b"allmydata_file_renewal_secret_v1", crs, si)

    @staticmethod
    def file_cancel_secret_hash(ccs, si):
        return P(b"allmydata_file_cancel_secret_v1", ccs, si)

    @staticmethod
    def bucket_renewal_secret_hash(frs, peerid):
        return P(b"allmydata_bucket_renewal_secret_v1", frs, peerid)

    @staticmethod
    def bucket_cancel_secret_hash(fcs, peerid):
        return P(b"allmydata_bucket_cancel_secret_v1", fcs, peerid)

    @staticmethod
    def renewal_secret(lease_secret, si, peerid):
        return Ref.bucket_renewal_secret_hash(
            Ref.file_renewal_secret_hash(Ref.my_renewal_secret_hash(lease_secret), si), peerid)

    @staticmethod
    def cancel_secret(lease_secret, si, peerid):
        return Ref.bucket_cancel_secret_hash(
            Ref.file_cancel_secret_hash(Ref.my_cancel_secret_hash(lease_secret), si), peerid)

    # ---- mutable [M][H]
    @staticmethod
    def ssk_writekey_hash(privkey):
        return T(b"allmydata_mutable_privkey_to_writekey_v1", privkey, 16)

    @staticmethod
    def ssk_write_enabler_master_hash(writekey):
        return T(b"allmydata_mutable_writekey_to_write_enabler_master_v1", writekey)

    @staticmethod
    def ssk_write_enabler_hash(writekey, nodeid):
        wem = Ref.ssk_write_enabler_master_hash(writekey)
        return P(b"allmydata_mutable_write_enabler_master_and_nodeid_to_write_enabler_v1", wem, nodeid)

    @staticmethod
    def ssk_pubkey_fingerprint_hash(pubkey):
        return T(b"allmydata_mutable_pubkey_to_fingerprint_v1", pubkey)

    @staticmethod
    def ssk_readkey_hash(writekey):
        return T(b"allmydata_mutable_writekey_to_readkey_v1", writekey, 16)

    @staticmethod
    def ssk_readkey_data_hash(iv, readkey):
        return P(b"allmydata_mutable_readkey_to_datakey_v1", iv, readkey, 16)

    @staticmethod
    def ssk_storage_index_hash(readkey):
        return T(b"allmydata_mutable_readkey_to_storage_index_v1", readkey, 16)

    # ---- dirnodes [D][H]
    @staticmethod
    def mutable_rwcap_key_hash(iv, writekey):
        return P(b"allmydata_mutable_writekey_and_salt_to_dirnode_child_capkey_v1", iv, writekey, 16)

    @staticmethod
    def mutable_rwcap_salt_hash(rwcap):
        return T(b"allmydata_dirnode_child_rwcap_to_salt_v1", rwcap, 16)

    # ---- misc [H]
    @staticmethod
    def backupdb_dirhash(contents):
        return T(b"allmydata_backupdb_dirhash_v1", contents)

    @staticmethod
    def permute_server_hash(psi, seed):
        return hashlib.sha1(psi + seed).digest()

    @staticmethod
    def hmac(tag, data):
        # hashutil.hmac: HMAC-SHA256 construction *without* key padding
        ikey = bytes(c ^ 0x36 for c in tag)
        okey = bytes(c ^ 0x5c for c in tag)
        return hashlib.sha256(okey + hashlib.sha256(ikey + data).digest()).digest()


# [L] derive_renewal_secret.py test(): (lease_secret, storage_index, tubid, expected), all base32
PUBLISHED_VECTORS = [
    ("boity2cdh7jvl3ltaeebuiobbspjmbuopnwbde2yeh4k6x7jioga", "vrttmwlicrzbt7gh5qsooogr7u",
     "v67jiisoty6ooyxlql5fuucitqiok2ic", "osd6wmc5vz4g3ukg64sitmzlfiaaordutrez7oxdp5kkze7zp5zq"),
    ("boity2cdh7jvl3ltaeebuiobbspjmbuopnwbde2yeh4k6x7jioga", "75gmmfts772ww4beiewc234o5e",
     "v67jiisoty6ooyxlql5fuucitqiok2ic", "35itmusj7qm2pfimh62snbyxp3imreofhx4djr7i2fweta75szda"),
    ("boity2cdh7jvl3ltaeebuiobbspjmbuopnwbde2yeh4k6x7jioga", "75gmmfts772ww4beiewc234o5e",
     "lh5fhobkjrmkqjmkxhy3yaonoociggpz", "srrlruge47ws3lm53vgdxprgqb6bz7cdblnuovdgtfkqrygrjm4q"),
    ("vacviff4xfqxsbp64tdr3frg3xnkcsuwt5jpyat2qxcm44bwu75a", "75gmmfts772ww4beiewc234o5e",
     "lh5fhobkjrmkqjmkxhy3yaonoociggpz", "b4jledjiqjqekbm2erekzqumqzblegxi23i5ojva7g7xmqqnl5pq"),
]

# lengths around the SHA-256 block (64) and padding (55/56) boundaries and the documented sizes
EDGE_LENGTHS = [0, 1, 2, 15, 16, 17, 19, 20, 21, 31, 32, 33, 54, 55, 56, 57, 63, 64, 65,
                99, 100, 119, 120, 127, 128, 129, 255, 256, 999, 1000, 1001, 4096, 65537]


def wire_compare(ck, observed):
    """STUB FOR THE LEAD -- wire-level end-to-end comparison (DESIGN §5 C17, not called by run()).

    (Now called by _wire_workload below.)
    `observed` is an iterable of dicts captured at storage servers during E2 grid runs:
        {"op": "allocate_buckets" | "add_lease" | "slot_testv_and_readv_and_writev",
         "lease_secret": <client's 32-byte private/secret>, "storage_index": bytes(16),
         "lease_seed": <server tubid, 20 bytes>, "renew": bytes, "cancel": bytes,
         # mutable writes only:
         "writekey": bytes(16) or None, "write_enabler": bytes or None}
    Every record is judged against Ref.renewal_secret / Ref.cancel_secret /
    Ref.ssk_write_enabler_hash.  Violation keys are per mechanism: wire-renew-secret,
    wire-cancel-secret, wire-write-enabler.  The grid driver that produces `observed`
    does not exist yet; until it does this function has no caller.
    """
    for rec in observed:
        ls, si, seed = rec["lease_secret"], rec["storage_index"], rec["lease_seed"]
        ck.mon("wire-lease-oracle")
        if rec["renew"] != Ref.renewal_secret(ls, si, seed):
            ck.violation("wire-renew-secret", "%s carried a renewal secret that is not the specified "
                         "derivation from (lease secret, SI, server lease seed)" % rec.get("op"), rec)
        if rec["cancel"] != Ref.cancel_secret(ls, si, seed):
            ck.violation("wire-cancel-secret", "%s carried a cancel secret that is not the specified "
                         "derivation" % rec.get("op"), rec)
        if rec.get("write_enabler") is not None and rec.get("writekey") is not None:
            ck.mon("wire-write-enabler-oracle")
            if rec["write_enabler"] != Ref.ssk_write_enabler_hash(rec["writekey"], rec.get("we_seed", seed)):
                ck.violation("wire-write-enabler", "write enabler on the wire is not the specified "
                             "derivation from (writekey, server nodeid)", rec)


def _wire_workload(ck):
    """Run uploads, mutable creates/overwrites, a directory and lease-adding checks on the
    in-process grid and compare every secret that ARRIVES at a storage server with the
    reference derivation from (client lease secret, storage index, server lease seed)."""
    import os
    from vf.grid import VGrid, KEYPOOL
    from allmydata.immutable.upload import Data
    from allmydata.mutable.publish import MutableData
    from allmydata.monitor import Monitor
    from allmydata.util import base32 as rb32
    from allmydata import uri as _uri
    rng = ck.rng("wire")
    ncases = 6 if ck.tier == "quick" else 40
    for case in range(ncases):
        if not ck.mine(case):
            continue
        KEYPOOL.rewind()
        g = VGrid(nservers=rng.randint(2, 6), seed=rng.getrandbits(32), keep_log=False)
        try:
            observed = []
            writekeys = {}   # storage index -> writekey
            c = g.make_client(k=rng.randint(1, 2), happy=1, n=rng.randint(2, 4))
            with open(os.path.join(c.config.get_config_path("private"), "secret"), "rb") as f:
                lease_secret = rb32.a2b(f.read().strip())

            def pre(vs, meth, args, rec):
                base = {"op": meth, "lease_secret": lease_secret, "lease_seed": vs.iserver.get_lease_seed(),
                        "we_seed": vs.iserver.get_foolscap_write_enabler_seed()}
                if meth == "allocate_buckets":
                    observed.append(dict(base, storage_index=args[0], renew=args[1], cancel=args[2]))
                elif meth == "add_lease":
                    observed.append(dict(base, storage_index=args[0], renew=args[1], cancel=args[2]))
                elif meth == "slot_testv_and_readv_and_writev":
                    we, renew, cancel = args[1]
                    observed.append(dict(base, storage_index=args[0], renew=renew, cancel=cancel,
                                         write_enabler=we, writekey=writekeys.get(args[0])))
            g.pre_delivery = pre
            st, res = g.wait(c.upload(Data(rng.randbytes(rng.randint(56, 900)), convergence=b"")))
            if st == "ok":
                node = c.create_node_from_uri(res.get_uri())
                g.wait(node.check(Monitor(), verify=False, add_lease=True))
            for fmt in (None, "mdmf"):
                d = c.create_mutable_file(MutableData(rng.randbytes(rng.randint(1, 300))))
                st, n = g.wait(d)
                if st != "ok":
                    continue
                u = _uri.from_string(n.get_uri())
                writekeys[u.get_storage_index()] = u.writekey
                # the create itself happened before we knew the writekey: judge it retroactively
                for rec in observed:
                    if rec["op"] == "slot_testv_and_readv_and_writev" and rec.get("writekey") is None:
                        rec["writekey"] = writekeys.get(rec["storage_index"])
                g.wait(n.overwrite(MutableData(rng.randbytes(rng.randint(1, 300)))))
                g.wait(n.check(Monitor(), verify=False, add_lease=True))
            st, dn = g.wait(c.create_dirnode())
            if st == "ok":
                du = _uri.from_string(dn.get_uri()).get_filenode_cap()
                writekeys[du.get_storage_index()] = du.writekey
                for rec in observed:
                    if rec["op"] == "slot_testv_and_readv_and_writev" and rec.get("writekey") is None:
                        rec["writekey"] = writekeys.get(rec["storage_index"])
                g.wait(dn.set_uri("child", None, res.get_uri() if hasattr(res, "get_uri") else None))
            wire_compare(ck, observed)
            ck.hit("wire-records", len(observed))
            ck.case("wire", key=("wire", case, len(observed)), nontrivial=bool(observed),
                    sample={"records": len(observed), "ops": sorted(set(r["op"] for r in observed))})
        finally:
            g.close()


# --------------------------------------------------------------------------
def run(ck):
    env.set_thread_sync(True)
    from twisted.internet import defer
    from allmydata.util import hashutil, base32 as real_b32
    from allmydata import uri
    from allmydata.client import SecretHolder, _Client, _valid_config
    from allmydata.node import config_from_string
    from allmydata.storage_client import NativeStorageServer
    from allmydata.immutable import upload
    from allmydata.immutable.checker import Checker
    from allmydata.monitor import Monitor
    from allmydata.mutable.filenode import MutableFileNode
    from allmydata.mutable.common import derive_mutable_keys
    from allmydata.crypto import rsa as real_rsa
    from allmydata import dirnode
    from allmydata.scripts import debug as real_debug
    from cryptography.hazmat.primitives.ciphers import Cipher, algorithms, modes
    from cryptography.hazmat.primitives import serialization
    from vf.checks._c17_keys import KEYS_B64

    ck.rule = ("for each real derivation function: seeded random byte strings of the documented lengths "
               "(key/IV/SI 16, secret/hash 32, peer id 20) mixed with edge lengths around SHA-256 block/padding "
               "boundaries and structured bytes (all-zero, all-0xff, netstring look-alikes); chains use a server "
               "whose tubid, permutation seed and server id all differ; distinct = distinct (function, inputs)")
    rng = ck.rng("c17")
    quick = ck.tier == "quick"

    # ---- 0. the oracle itself must reproduce the published vectors, else nothing is judged
    for ls, si, tub, exp in PUBLISHED_VECTORS:
        if b32(Ref.renewal_secret(unb32(ls), unb32(si), unb32(tub))) != exp:
            ck.inconclusive_because("reference model does not reproduce the published lease vectors")
            return
    if sha256d(b"") != hashlib.sha256(hashlib.sha256(b"").digest()).digest() or netstring(b"abc") != b"3:abc,":
        ck.inconclusive_because("reference primitives broken")
        return
    ck.mon("oracle-self-check")

    def aes_ctr(key, data):
        c = Cipher(algorithms.AES(key), modes.CTR(b"\x00" * 16)).encryptor()
        return c.update(data) + c.finalize()

    def rbytes(n, r=rng):
        style = r.random()
        if style < 0.90 or n == 0:
            return r.randbytes(n)
        if style < 0.93:
            return b"\x00" * n
        if style < 0.96:
            return b"\xff" * n
        # bytes that look like netstring syntax: catches un-wrapped concatenation
        return bytes(r.choice(b"0123456789:,") for _ in range(n))

    def length(doc, r=rng):
        """documented length most of the time, an edge length otherwise."""
        if doc is not None and r.random() < 0.6:
            return doc
        return r.choice(EDGE_LENGTHS if r.random() < 0.8 else [r.randint(0, 300)])

    def compare(fname, got, want, witness, cls=None):
        ck.mon("derivation-oracle")
        ck.hit(fname)
        if got != want:
            ck.violation("mismatch:" + fname,
                         "%s returned a value different from the specified derivation "
                         "(tagged SHA-256d, netstring-wrapped tag, documented truncation)" % fname,
                         dict(witness, got=got, want=want))

    def call(fname, f, *args):
        """Run real code; an exception on a valid input is a violation of 'for all inputs'."""
        try:
            return True, f(*args)
        except Exception as e:  # noqa
            ck.violation("raises:" + fname, "%s raised %s on a valid input: %s" % (fname, type(e).__name__, e),
                         {"args": list(args)})
            return False, None

    # ---- 1. primitives ----------------------------------------------------
    n_prim = 3000 if quick else 60000
    for i in range(n_prim):
        if not ck.mine(i):
            continue
        if ck.out_of_time():
            break
        tag = rbytes(length(None)); val = rbytes(length(None))
        trunc = rng.choice([None, None, 1, 8, 16, 20, 31, 32])
        ok, got = call("tagged_hash", hashutil.tagged_hash, tag, val, trunc)
        if ok:
            compare("tagged_hash", got, T(tag, val, trunc or 32), {"tag": tag, "val": val, "truncate_to": trunc})
        ck.case("tagged_hash", key=(tag, val, trunc))
        v2 = rbytes(length(None))
        ok, got = call("tagged_pair_hash", hashutil.tagged_pair_hash, tag, val, v2, trunc)
        if ok:
            compare("tagged_pair_hash", got, P(tag, val, v2, trunc or 32),
                    {"tag": tag, "val1": val, "val2": v2, "truncate_to": trunc})
        ck.case("tagged_pair_hash", key=(tag, val, v2, trunc))
        # incremental hasher, fed in random chunks, digest() idempotent
        try:
            h = hashutil.tagged_hasher(tag, trunc)
            pos = 0
            while pos < len(val):
                step = rng.randint(1, max(1, len(val)))
                h.update(val[pos:pos + step]); pos += step
            got = h.digest(); again = h.digest()
            compare("tagged_hasher", got, T(tag, val, trunc or 32), {"tag": tag, "val": val, "truncate_to": trunc})
            if again != got:
                ck.violation("mismatch:tagged_hasher-digest-not-idempotent", "second digest() differs", {"tag": tag})
        except Exception as e:  # noqa
            ck.violation("raises:tagged_hasher", "%s: %s" % (type(e).__name__, e), {"tag": tag, "val": val})
        ck.case("tagged_hasher", key=(tag, val, trunc))

    # ---- 2. every derived value in hashutil ----------------------------------
    # (name, arg spec: list of documented lengths, None = arbitrary data)
    TABLE = [
        ("storage_index_hash", [16]),
        ("block_hash", [None]), ("uri_extension_hash", [None]), ("plaintext_hash", [None]),
        ("crypttext_hash", [None]), ("crypttext_segment_hash", [None]), ("plaintext_segment_hash", [None]),
        ("my_renewal_secret_hash", [32]), ("my_cancel_secret_hash", [32]),
        ("file_renewal_secret_hash", [32, 16]), ("file_cancel_secret_hash", [32, 16]),
        ("bucket_renewal_secret_hash", [32, "peerid"]), ("bucket_cancel_secret_hash", [32, "peerid"]),
        ("ssk_writekey_hash", [None]), ("ssk_write_enabler_master_hash", [16]),
        ("ssk_write_enabler_hash", [16, "peerid"]), ("ssk_pubkey_fingerprint_hash", [None]),
        ("ssk_readkey_hash", [16]), ("ssk_readkey_data_hash", [16, 16]), ("ssk_storage_index_hash", [16]),
        ("mutable_rwcap_key_hash", [16, 16]), ("mutable_rwcap_salt_hash", [None]),
        ("backupdb_dirhash", [None]), ("permute_server_hash", [16, 20]), ("hmac", [16, None]),
    ]
    HASHERS = {"block_hash": "block_hasher", "uri_extension_hash": "uri_extension_hasher",
               "plaintext_hash": "plaintext_hasher", "crypttext_hash": "crypttext_hasher",
               "crypttext_segment_hash": "crypttext_segment_hasher",
               "plaintext_segment_hash": "plaintext_segment_hasher"}
    per_fn = 1000 if quick else 30000
    idx = 0
    for fname, spec in TABLE:
        real = getattr(hashutil, fname, None)
        if real is None:
            ck.violation("missing:" + fname, "hashutil.%s no longer exists" % fname, {})
            continue
        ref = getattr(Ref, fname)
        for j in range(per_fn):
            idx += 1
            if not ck.mine(idx):
                continue
            if ck.out_of_time():
                break
            args = []
            for doc in spec:
                if doc == "peerid":
                    args.append(rbytes(20))          # API asserts len == 20 ("binary!")
                else:
                    args.append(rbytes(length(doc)))
            ok, got = call(fname, real, *args)
            if ok:
                compare(fname, got, ref(*args), {"args": args})
            ck.case(fname, key=tuple(args), nontrivial=True,
                    sample={"fn": fname, "args": args, "out": got} if j == 0 else None)
            hn = HASHERS.get(fname)
            if hn and j % 4 == 0:
                d = args[0]
                try:
                    h = getattr(hashutil, hn)()
                    cut = rng.randint(0, len(d))
                    h.update(d[:cut]); h.update(d[cut:])
                    compare(hn, h.digest(), ref(d), {"data": d, "cut": cut})
                except Exception as e:  # noqa
                    ck.violation("raises:" + hn, "%s: %s" % (type(e).__name__, e), {"data": d})
                ck.case(hn, key=(d, cut))
        # inputs the API forbids (peer id not 20 bytes): generated, never judged
        if "peerid" in spec:
            for bad in (0, 19, 21, 32):
                a = [rbytes(32 if s == 32 else 16) if s != "peerid" else rbytes(bad) for s in spec]
                try:
                    real(*a)
                except AssertionError:
                    ck.hit("peerid-length-assert")
                ck.skip("peerid-length-forbidden")

    # ---- 3. convergence key (netstring-wrapped parameters) ----------------------
    n_conv = 1000 if quick else 30000
    for i in range(n_conv):
        idx += 1
        if not ck.mine(idx):
            continue
        if ck.out_of_time():
            break
        n = rng.choice([1, 2, 3, 10, 16, 100, 255, 256, rng.randint(1, 256)])
        k = rng.choice([1, n, max(1, n // 3), rng.randint(1, n)])
        segsize = rng.choice([1, k, 3 * k, 128 * 1024, 131073, 2 ** 32, rng.randint(1, 1 << 21)])
        data = rbytes(length(None))
        conv = rbytes(length(32))
        ok, got = call("convergence_hash", hashutil.convergence_hash, k, n, segsize, data, conv)
        if ok:
            compare("convergence_hash", got, Ref.convergence_hash(k, n, segsize, data, conv),
                    {"k": k, "n": n, "segsize": segsize, "data": data, "convergence": conv})
            try:
                h = hashutil.convergence_hasher(k, n, segsize, conv)
                cut = rng.randint(0, len(data))
                h.update(data[:cut]); h.update(data[cut:])
                compare("convergence_hasher", h.digest(), Ref.convergence_hash(k, n, segsize, data, conv),
                        {"k": k, "n": n, "segsize": segsize, "data": data, "convergence": conv})
            except Exception as e:  # noqa
                ck.violation("raises:convergence_hasher", "%s: %s" % (type(e).__name__, e), {"k": k, "n": n})
        ck.case("convergence_hash", key=(k, n, segsize, data, conv),
                sample={"k": k, "n": n, "segsize": segsize, "len": len(data), "key": got} if i == 0 else None)
    # parameter combinations the API forbids (k>n, <1, >256): must raise, nothing to compare
    for k, n in ((0, 1), (2, 1), (1, 257), (257, 257), (-1, 3)):
        try:
            hashutil.convergence_hasher(k, n, 1024, b"c" * 32)
            ck.observe("convergence-forbidden-params-accepted")
        except ValueError:
            ck.hit("convergence-param-rejection")
        ck.skip("convergence-forbidden-params")

    # ---- 3b. convergence key through the real uploadable (data -> key -> storage index)
    n_up = 100 if quick else 1500
    for i in range(n_up):
        idx += 1
        if not ck.mine(idx):
            continue
        if ck.out_of_time():
            break
        data = rbytes(rng.choice([0, 1, 2, 55, 56, 100, 1000, 70000, 131072, 131073, 200000]))
        conv = rbytes(32)
        n = rng.choice([1, 3, 10, 20]); k = rng.randint(1, n); happy = rng.randint(1, n)
        maxseg = rng.choice([128 * 1024, 1024, 4096])
        res = {}
        try:
            u = upload.Data(data, conv)
            u.set_default_encoding_parameters({"k": k, "happy": happy, "n": n, "max_segment_size": maxseg})
            eu = upload.EncryptAnUploadable(u)
            u.get_all_encoding_parameters().addCallback(lambda p: res.setdefault("params", p))
            u.get_encryption_key().addCallback(lambda x: res.setdefault("key", x))
            eu.get_storage_index().addCallback(lambda x: res.setdefault("si", x))
        except Exception as e:  # noqa
            ck.violation("raises:upload-convergent-key", "%s: %s" % (type(e).__name__, e), {"len": len(data)})
            continue
        if set(res) != {"params", "key", "si"}:
            ck.inconclusive_because("uploadable key derivation did not complete synchronously")
            break
        rk, _rh, rn, rseg = res["params"]
        want_key = Ref.convergence_hash(rk, rn, rseg, data, conv)
        compare("upload.Data.get_encryption_key", res["key"], want_key,
                {"data": data, "convergence": conv, "params": list(res["params"])})
        compare("upload.EncryptAnUploadable.get_storage_index", res["si"], Ref.storage_index_hash(want_key),
                {"data": data, "convergence": conv, "params": list(res["params"])})
        if (rk, rn) != (k, n):
            ck.observe("upload-encoding-params-differ-from-defaults")
        ck.case("upload-convergent-chain", key=(data, conv, k, n, maxseg))

    # ---- 4. cap classes (uri.py) --------------------------------------------
    n_uri = 800 if quick else 20000
    for i in range(n_uri):
        idx += 1
        if not ck.mine(idx):
            continue
        if ck.out_of_time():
            break
        key = rbytes(16); writekey = rbytes(16); fp = rbytes(32); ueb = rbytes(32)
        want_rk = Ref.ssk_readkey_hash(writekey)
        want_si = Ref.ssk_storage_index_hash(want_rk)
        try:
            c = uri.CHKFileURI(key, ueb, 3, 10, 1234)
            compare("uri.CHKFileURI.storage_index", c.get_storage_index(), Ref.storage_index_hash(key), {"key": key})
            compare("uri.CHKFileURI.verifier-si", c.get_verify_cap().get_storage_index(),
                    Ref.storage_index_hash(key), {"key": key})
            c2 = uri.from_string(c.to_string())
            compare("uri.from_string(CHK).storage_index", c2.get_storage_index(), Ref.storage_index_hash(key), {"key": key})
            for wcls, rcls in ((uri.WriteableSSKFileURI, uri.ReadonlySSKFileURI),
                               (uri.WriteableMDMFFileURI, uri.ReadonlyMDMFFileURI)):
                w = wcls(writekey, fp)
                nm = wcls.__name__
                compare("uri.%s.readkey" % nm, w.readkey, want_rk, {"writekey": writekey})
                compare("uri.%s.storage_index" % nm, w.get_storage_index(), want_si, {"writekey": writekey})
                ro = w.get_readonly()
                compare("uri.%s.get_readonly.readkey" % nm, ro.readkey, want_rk, {"writekey": writekey})
                compare("uri.%s.get_readonly.storage_index" % nm, ro.get_storage_index(), want_si, {"writekey": writekey})
                compare("uri.%s.get_readonly.fingerprint" % nm, ro.fingerprint, fp, {"writekey": writekey})
                vc = w.get_verify_cap()
                compare("uri.%s.get_verify_cap.storage_index" % nm, vc.get_storage_index(), want_si, {"writekey": writekey})
                compare("uri.%s.get_verify_cap.fingerprint" % nm, vc.fingerprint, fp, {"writekey": writekey})
                # a read cap given a *read key* derives the SI from that key directly
                r = rcls(writekey, fp)
                compare("uri.%s.storage_index" % rcls.__name__, r.get_storage_index(),
                        Ref.ssk_storage_index_hash(writekey), {"readkey": writekey})
                # through the string form
                w2 = uri.from_string(w.to_string())
                compare("uri.from_string(%s).storage_index" % nm, w2.get_storage_index(), want_si, {"writekey": writekey})
                # directory caps wrap the same chain
                dcls = uri.DirectoryURI if wcls is uri.WriteableSSKFileURI else uri.MDMFDirectoryURI
                dn = dcls(w)
                compare("uri.%s.storage_index" % dcls.__name__, dn.get_storage_index(), want_si, {"writekey": writekey})
                compare("uri.%s.get_readonly.storage_index" % dcls.__name__,
                        dn.get_readonly().get_storage_index(), want_si, {"writekey": writekey})
        except Exception as e:  # noqa
            ck.violation("raises:uri-derivation", "%s: %s" % (type(e).__name__, e), {"key": key, "writekey": writekey})
        ck.case("uri-chain", key=(key, writekey, fp),
                sample={"writekey": writekey, "readkey": want_rk, "si": want_si} if i == 0 else None)

    # ---- 5. dirnode child-cap encryption --------------------------------------
    n_dir = 500 if quick else 10000
    for i in range(n_dir):
        idx += 1
        if not ck.mine(idx):
            continue
        if ck.out_of_time():
            break
        writekey = rbytes(16)
        rwcap = rng.choice([
            b"URI:SSK:" + real_b32.b2a(rbytes(16)) + b":" + real_b32.b2a(rbytes(32)),
            b"URI:DIR2:" + real_b32.b2a(rbytes(16)) + b":" + real_b32.b2a(rbytes(32)),
            rbytes(length(None)),
        ])
        ok, blob = call("dirnode._encrypt_rw_uri", dirnode._encrypt_rw_uri, writekey, rwcap)
        if ok:
            salt = Ref.mutable_rwcap_salt_hash(rwcap)
            dkey = Ref.mutable_rwcap_key_hash(salt, writekey)
            want = salt + aes_ctr(dkey, rwcap)
            want += Ref.hmac(dkey, want)
            compare("dirnode._encrypt_rw_uri", blob, want, {"writekey": writekey, "rwcap": rwcap})
            # and the reference key opens what the real code produced (IV || ct || MAC, MAC 32 bytes)
            if len(blob) >= 48:
                opened = aes_ctr(Ref.mutable_rwcap_key_hash(blob[:16], writekey), blob[16:-32])
                compare("dirnode-rwcap-opens-with-reference-key", opened, rwcap, {"writekey": writekey, "rwcap": rwcap})
        ck.case("dirnode-rwcap", key=(writekey, rwcap))

    # ---- 6. derive_mutable_keys on real RSA keys ----------------------------
    keys = []
    for b in KEYS_B64:
        keys.append(("fixed", base64.b64decode("".join(b) if not isinstance(b, str) else b)))
    n_fresh = 1 if quick else 2
    for _ in range(n_fresh):
        try:
            priv, _pub = real_rsa.create_signing_keypair(2048)
            keys.append(("fresh", real_rsa.der_string_from_signing_key(priv)))
        except Exception as e:  # noqa
            ck.violation("raises:create_signing_keypair", "%s: %s" % (type(e).__name__, e), {})
    for kind, der in keys:
        # independent serialisation with `cryptography` (PKCS8 / SubjectPublicKeyInfo DER, mutable.rst)
        pk = serialization.load_der_private_key(der, password=None)
        priv_der = pk.private_bytes(serialization.Encoding.DER, serialization.PrivateFormat.PKCS8,
                                    serialization.NoEncryption())
        pub_der = pk.public_key().public_bytes(serialization.Encoding.DER,
                                               serialization.PublicFormat.SubjectPublicKeyInfo)
        try:
            priv, pub = real_rsa.create_signing_keypair_from_string(der)
            writekey, encprivkey, fingerprint = derive_mutable_keys((pub, priv))
        except Exception as e:  # noqa
            ck.violation("raises:derive_mutable_keys", "%s: %s" % (type(e).__name__, e), {"kind": kind})
            continue
        want_wk = Ref.ssk_writekey_hash(priv_der)
        compare("derive_mutable_keys.writekey", writekey, want_wk, {"kind": kind})
        compare("derive_mutable_keys.fingerprint", fingerprint, Ref.ssk_pubkey_fingerprint_hash(pub_der), {"kind": kind})
        compare("derive_mutable_keys.encprivkey", aes_ctr(want_wk, encprivkey), priv_der, {"kind": kind})
        # complete chain: private key -> write cap -> read cap -> storage index
        try:
            w = uri.WriteableSSKFileURI(writekey, fingerprint)
            want_rk = Ref.ssk_readkey_hash(want_wk)
            compare("keypair->cap.readkey", w.get_readonly().readkey, want_rk, {"kind": kind})
            compare("keypair->cap.storage_index", w.get_storage_index(), Ref.ssk_storage_index_hash(want_rk), {"kind": kind})
        except Exception as e:  # noqa
            ck.violation("raises:uri-derivation", "%s: %s" % (type(e).__name__, e), {"kind": kind})
        ck.case("derive_mutable_keys", key=(der if kind == "fixed" else None),
                nontrivial=(kind == "fixed"))

    # ---- 7. lease chain through the client objects ----------------------------
    cfg = config_from_string("/nonexistent-vf-c17", "", "[client]\n", _valid_config())
    proto_v1 = {b"http://allmydata.org/tahoe/protocols/storage/v1": {b"maximum-immutable-share-size": 2 ** 40}}

    class FakeStorage(object):
        """Stands where the remote storage server is: records what would go on the wire."""
        def __init__(self, log, name):
            self.log = log; self.name = name

        def get_buckets(self, si):
            return defer.succeed({})

        def allocate_buckets(self, si, renew, cancel, sharenums, size, canary=None):
            self.log.append(("allocate_buckets", self.name, si, renew, cancel))
            return defer.succeed((set(), {}))

        def add_lease(self, si, renew, cancel):
            self.log.append(("add_lease", self.name, si, renew, cancel))
            return defer.succeed(None)

    def make_server(log, tubid, pseed, name):
        """A real NativeStorageServer built from an announcement; tubid != permutation seed != server id."""
        furl = "pb://%s@tcp:127.0.0.1:1/%s" % (b32(tubid), b32(hashlib.sha256(name).digest()[:10]))
        ann = {"anonymous-storage-FURL": furl, "permutation-seed-base32": b32(pseed), "nickname": "n"}
        sid = b"v0-" + b32(hashlib.sha256(b"sid" + name).digest()).encode("ascii")
        s = NativeStorageServer(sid, ann, None, {}, cfg)
        fs = FakeStorage(log, name)
        s.get_storage_server = lambda: fs
        s.get_version = lambda: proto_v1
        return s

    class Broker(object):
        def __init__(self, servers):
            self.servers = servers

        def get_servers_for_psi(self, si, for_upload=False):
            return list(self.servers)

    def pump():
        for _ in range(6):
            env.evq._turn()
            env.reactor.advance(0.01)

    def triple_cases():
        for ls, si, tub, exp in PUBLISHED_VECTORS:
            yield "published-vector", unb32(ls), unb32(si), unb32(tub), unb32(exp)
        n = 250 if quick else 4000
        for _ in range(n):
            yield "random", rbytes(32), rbytes(16), rbytes(20), None

    ti = 0
    for kind, lease_secret, si, tubid, expected in triple_cases():
        ti += 1
        if kind != "published-vector":
            if not ck.mine(ti):
                continue
            if ck.out_of_time():
                break
        want_r = Ref.renewal_secret(lease_secret, si, tubid)
        want_c = Ref.cancel_secret(lease_secret, si, tubid)
        wit = {"lease_secret": lease_secret, "storage_index": si, "tubid": tubid}
        if expected is not None:
            # the real functions on the published vectors
            try:
                got = hashutil.bucket_renewal_secret_hash(
                    hashutil.file_renewal_secret_hash(hashutil.my_renewal_secret_hash(lease_secret), si), tubid)
                ck.mon("published-vector-oracle")
                if got != expected:
                    ck.violation("mismatch:published-lease-vector",
                                 "hashutil chain does not reproduce a vector of docs/specifications/derive_renewal_secret.py",
                                 dict(wit, got=got, want=expected))
            except Exception as e:  # noqa
                ck.violation("raises:published-lease-vector", "%s: %s" % (type(e).__name__, e), wit)
        # SecretHolder
        sh = SecretHolder(lease_secret, b"C" * 32)
        ok, got = call("SecretHolder.get_renewal_secret", sh.get_renewal_secret)
        if ok:
            compare("SecretHolder.get_renewal_secret", got, Ref.my_renewal_secret_hash(lease_secret), wit)
        ok, got = call("SecretHolder.get_cancel_secret", sh.get_cancel_secret)
        if ok:
            compare("SecretHolder.get_cancel_secret", got, Ref.my_cancel_secret_hash(lease_secret), wit)

        log = []
        pseed = hashlib.sha1(b"pseed" + tubid).digest()
        server = make_server(log, tubid, pseed, b"srv" + tubid)
        decoy = make_server(log, hashlib.sha1(b"other" + tubid).digest(), tubid, b"decoy" + tubid)
        if server.get_lease_seed() == server.get_permutation_seed():
            ck.inconclusive_because("test server does not separate lease seed and permutation seed")
        # ---- immutable upload: Tahoe2ServerSelector.get_shareholders -> allocate_buckets
        try:
            sel = upload.Tahoe2ServerSelector("c17", upload_status=upload.UploadStatus(), reactor=env.reactor)
            d = sel.get_shareholders(Broker([server, decoy]), sh, si, 1000, 100, 1, 3, 1, 1, 500)
            d.addBoth(lambda r: None)     # fake servers grant nothing: UploadUnhappinessError expected
            pump()
        except Exception as e:  # noqa
            ck.violation("raises:upload.get_shareholders", "%s: %s" % (type(e).__name__, e), wit)
        seen = [r for r in log if r[0] == "allocate_buckets" and r[1] == b"srv" + tubid]
        if not seen:
            ck.observe("upload-sent-no-allocate_buckets")
        for _op, _nm, osi, orenew, ocancel in seen:
            ck.hit("upload-allocate_buckets-observed")
            compare("upload.allocate_buckets.storage_index", osi, si, wit)
            compare("upload.allocate_buckets.renew_secret", orenew, want_r, wit)
            compare("upload.allocate_buckets.cancel_secret", ocancel, want_c, wit)
        for _op, _nm, osi, orenew, ocancel in [r for r in log if r[0] == "allocate_buckets" and r[1] != b"srv" + tubid]:
            dt = hashlib.sha1(b"other" + tubid).digest()
            compare("upload.allocate_buckets.renew_secret", orenew, Ref.renewal_secret(lease_secret, si, dt), wit)
        # ---- immutable checker with add_lease
        del log[:]
        try:
            vcap = uri.CHKFileVerifierURI(si, b"U" * 32, 1, 3, 1000)
            c = Checker(vcap, [server], False, True, sh, Monitor())
            c.start().addBoth(lambda r: None)
            pump()
        except Exception as e:  # noqa
            ck.violation("raises:checker.add_lease", "%s: %s" % (type(e).__name__, e), wit)
        for _op, _nm, osi, orenew, ocancel in [r for r in log if r[0] == "add_lease"]:
            ck.hit("checker-add_lease-observed")
            compare("checker.add_lease.storage_index", osi, si, wit)
            compare("checker.add_lease.renew_secret", orenew, want_r, wit)
            compare("checker.add_lease.cancel_secret", ocancel, want_c, wit)
        # ---- mutable node (what publish.py:278-281/480-483 and servermap.py:610-611 send)
        writekey = rbytes(16); fp = rbytes(32)
        try:
            node = MutableFileNode(None, sh, {"k": 3, "n": 10}, None)
            node.init_from_cap(uri.WriteableSSKFileURI(writekey, fp))
            msi = node.get_storage_index()
            compare("MutableFileNode.get_storage_index", msi,
                    Ref.ssk_storage_index_hash(Ref.ssk_readkey_hash(writekey)), {"writekey": writekey})
            compare("MutableFileNode.get_write_enabler", node.get_write_enabler(server),
                    Ref.ssk_write_enabler_hash(writekey, tubid), {"writekey": writekey, "tubid": tubid})
            rsi = Ref.ssk_storage_index_hash(Ref.ssk_readkey_hash(writekey))
            compare("MutableFileNode.get_renewal_secret", node.get_renewal_secret(server),
                    Ref.renewal_secret(lease_secret, rsi, tubid), dict(wit, writekey=writekey))
            compare("MutableFileNode.get_cancel_secret", node.get_cancel_secret(server),
                    Ref.cancel_secret(lease_secret, rsi, tubid), dict(wit, writekey=writekey))
        except Exception as e:  # noqa
            ck.violation("raises:MutableFileNode-secrets", "%s: %s" % (type(e).__name__, e), wit)
        # ---- `tahoe debug dump-cap --client-secret --nodeid`
        if ti % 3 == 0 or expected is not None:
            try:
                out = io.StringIO()
                real_debug.dump_uri_instance(uri.WriteableSSKFileURI(writekey, fp), tubid, lease_secret, out)
                printed = {}
                for line in out.getvalue().splitlines():
                    if ":" in line:
                        a, b = line.split(":", 1)
                        printed[a.strip()] = b.strip()
                rsi = Ref.ssk_storage_index_hash(Ref.ssk_readkey_hash(writekey))
                compare("dump-cap.write_enabler", printed.get("write_enabler"),
                        b32(Ref.ssk_write_enabler_hash(writekey, tubid)), {"writekey": writekey, "tubid": tubid})
                compare("dump-cap.lease renewal secret", printed.get("lease renewal secret"),
                        b32(Ref.renewal_secret(lease_secret, rsi, tubid)), wit)
                compare("dump-cap.lease cancel secret", printed.get("lease cancel secret"),
                        b32(Ref.cancel_secret(lease_secret, rsi, tubid)), wit)
                compare("dump-cap.storage index", printed.get("storage index"), b32(rsi), {"writekey": writekey})
            except Exception as e:  # noqa
                ck.violation("raises:dump-cap", "%s: %s" % (type(e).__name__, e), wit)
        ck.case("lease-triple:" + kind, key=(lease_secret, si, tubid, writekey),
                sample=dict(wit, renew=want_r, cancel=want_c) if ti in (1, 5) else None)
        # cancel stale virtual timers of this case
        for dc in env.reactor.getDelayedCalls():
            dc.cancel()

    # ---- 8. the node reads private/secret and private/convergence as base32 ---------
    n_cfg = 20 if quick else 60
    for i in range(n_cfg):
        idx += 1
        if not ck.mine(idx):
            continue
        if ck.out_of_time():
            break
        lease_secret = rbytes(32); conv = rbytes(32)
        base = tempfile.mkdtemp(prefix="vf-")
        try:
            os.mkdir(os.path.join(base, "private"))
            with open(os.path.join(base, "private", "secret"), "w") as f:
                f.write(b32(lease_secret) + "\n")
            with open(os.path.join(base, "private", "convergence"), "w") as f:
                f.write(b32(conv) + "\n")

            class Stub(object):
                pass
            stub = Stub()
            stub.config = config_from_string(base, "", "[client]\n", _valid_config())
            _Client.init_secrets(stub)
            compare("_Client.get_renewal_secret", _Client.get_renewal_secret(stub),
                    Ref.my_renewal_secret_hash(lease_secret), {"lease_secret": lease_secret})
            compare("_Client.get_cancel_secret", _Client.get_cancel_secret(stub),
                    Ref.my_cancel_secret_hash(lease_secret), {"lease_secret": lease_secret})
            compare("_Client.convergence", stub._secret_holder.get_convergence_secret(), conv, {"convergence": conv})
        except Exception as e:  # noqa
            ck.violation("raises:_Client.init_secrets", "%s: %s" % (type(e).__name__, e), {"lease_secret": lease_secret})
        finally:
            shutil.rmtree(base, ignore_errors=True)
        ck.case("client-secret-file", key=(lease_secret, conv))

    # ---- wire-level end-to-end comparison on a running in-process grid (added by the lead)
    env.set_thread_sync(False)
    try:
        _wire_workload(ck)
        # ---- directory child-cap keys judged on the stored directory bytes, every creation path (vf/checks/_c17_dir.py)
        from vf.checks._c17_dir import dir_workload
        dir_workload(ck)
        # ---- the same secrets over the HTTP storage protocol, decided on the lease records the server stored
        from vf.checks._c17_http import http_workload
        http_workload(ck)
    finally:
        env.set_thread_sync(True)

    ck.require_monitor("oracle-self-check", "derivation-oracle", "published-vector-oracle",
                       "wire-lease-oracle", "wire-write-enabler-oracle", "dir-child-capkey-oracle",
                       "http-lease-oracle", "http-write-enabler-oracle")
    ck.require_reach("tagged_hash", "tagged_pair_hash", "storage_index_hash", "ssk_write_enabler_hash",
                     "bucket_renewal_secret_hash", "bucket_cancel_secret_hash", "convergence_hash",
                     "mutable_rwcap_key_hash", "derive_mutable_keys.writekey",
                     "upload-allocate_buckets-observed", "checker-add_lease-observed",
                     "MutableFileNode.get_write_enabler", "SecretHolder.get_renewal_secret",
                     "dir-writeable-child-opened", "dir-format:sdmf", "dir-format:mdmf",
                     "dir-path:create_dirnode+set_node", "dir-path:set_uri", "dir-path:set_children", "dir-path:set_nodes",
                     "dir-path:create_dirnode(initial_children)", "dir-path:create_subdirectory(initial_children)",
                     "dir-path:repack-after-initial_children", "dir-path:clone:create_dirnode(A.list())",
                     "dir-path:clone:create_subdirectory(A.list())", "dir-path:clone:set_nodes(A.list())",
                     "dir-path:clone:set_children(A.list()-derived)", "dir-path:clone:create_immutable_dirnode(A.list())",
                     "http-leases:upload.allocate_buckets", "http-leases:checker.add_lease-second-client",
                     "http-leases:mutable-create-sdmf", "http-leases:mutable-overwrite-mdmf")
    ck.exhaustive = False
    ck.assumptions.append("tags that no prose specification spells out are pinned from the hashutil.py tag table of the pinned tree")


# MUST_CATCH (scratch copies under /var/tmp, VF_REPO=..., quick tier; see final report of the author)
#  1. hashutil.my_renewal_secret_hash: tagged_hash(CLIENT_RENEWAL_TAG, my_secret) (tag/value swapped)  -> caught
#  2. hashutil.storage_index_hash: truncate 16 -> 32                                                   -> caught
#  3. hashutil.MUTABLE_READKEY_TAG: "..._v1" -> "..._v2" (changed tag string)                          -> caught
#  4. mutable/filenode.get_renewal_secret: server.get_permutation_seed() instead of get_lease_seed()   -> caught
#  5. hashutil.tagged_pair_hash: second value not netstring-wrapped                                    -> caught
#  6. immutable/upload._make_trackers: cancel secret derived from file_renewal_secret                  -> caught
#  7. hashutil._convergence_hasher_tag: parameters "%d,%d,%d" not wrapped in a netstring               -> caught
#  8. storage_client.get_foolscap_write_enabler_seed: permutation_seed instead of tubid              -> caught
#  9. storage_client._FoolscapStorage.lease_seed: permutation_seed instead of tubid                   -> caught
# 10. seeded/C17-4 and its twins in selftest/breaks_c17.py (mkdir-with-children packs under the READ key / storage index;
#     DirectoryNode._pack_contents under the READ key; salt and key swapped at the call site)            -> caught by the
#     stored-bytes directory workload (vf/checks/_c17_dir.py), keys dir-child-capkey-not-from-writekey:<creation path>
# 11. seeded/C17-5 + twin (A.list() passed as initial_children keeps A's pre-packed entries)      -> caught by the clone paths
#     of vf/checks/_c17_dir.py (dir-child-capkey-not-from-writekey:clone:*, dir-immutable-has-rwcap-slot:clone:*)
# 12. seeded/C17-6 + twins (renew/cancel secrets exchanged in storage/http_client.py: header table, add_lease only,
#     mutable read-test-write only)                                                                -> caught by the HTTP leg
#     vf/checks/_c17_http.py (http-stored-renew-secret:*, http-stored-cancel-secret:*, http-lease-count:*)
