"""C48 configuration values (durations, sizes, dates) parse to their documented meaning; printed sizes parse back."""
META = {
    "level": 'exploration',
    "technique": 'grammar-based generation of documented, lenient and malformed spellings, judged by an independent oracle written from docs/configuration.rst and docs/garbage-collection.rst; print-then-parse of abbreviated sizes',
    "text": 'Executes the real time_format.parse_duration / parse_date / iso_utc / iso_utc_time_to_seconds, abbreviate.parse_abbreviated_size / abbreviate_space / abbreviate_space_both / abbreviate_time, and the real _Client.get_anonymous_storage_server() reading [storage]reserved_space, expire.override_lease_duration and expire.cutoff_date from a tahoe.cfg (the StorageServer constructor is replaced by a recorder, so what the node would hand to the storage server is observed). Inputs: every documented unit/suffix spelling with random numbers, optional single space and case; lenient variants (extra whitespace, non-ASCII digits, upper-case i) that are only required to mean the same if accepted; directed malformed strings (signs, decimals, exponents, unknown units, trailing junk, impossible calendar days, trailing time-of-day); random sizes printed by abbreviate_space and parsed back when the printed form is exact. Oracle: the grammar and numbers stated in the module (day=86400 s, month=31 days, K..E = 1000^1..6, Ki..Ei = 1024^1..6, date = midnight UTC by an independent days-from-civil computation).',
    "note": 'Every violation text quotes the documentation sentence or statement clause it contradicts. The documentation gives no number for a year and only indirectly for a month (the default lease period is called "one month" in webapi.rst/dirnodes.rst and "31 days" in garbage-collection.rst/http-storage-node-protocol.rst): month is judged as 31 days, year only as 365..366 days per year plus linearity and agreement between spellings.',
}
LEVEL = "exploration"
BUDGET = {"quick": 45, "thorough": 200}
SHARDS = {"quick": 1, "thorough": 6}

import shutil
import tempfile
from fractions import Fraction

from vf import env  # noqa

# ---------------------------------------------------------------------------------------------
# The documentation this oracle is written from
# ---------------------------------------------------------------------------------------------
DOC_SIZE = ('docs/configuration.rst, reserved_space: \'This string contains a number, with an optional case-insensitive '
            'scale suffix, optionally followed by "B" or "iB". The supported scale suffixes are "K", "M", "G", "T", "P" '
            'and "E", and a following "i" indicates to use powers of 1024 rather than 1000. So "100MB", "100 M", '
            '"100000000B", "100000000", and "100000kb" all mean the same thing. Likewise, "1MiB", "1024KiB", "1024 Ki", '
            'and "1048576 B" all mean the same thing.\'')
DOC_DURATION = ('docs/garbage-collection.rst, expire.override_lease_duration: \'The value of this setting is a "duration '
                'string", which is a number of days, months, or years, followed by a units suffix, and optionally '
                'separated by a space, such as one of the following: 7days 31day 60 days 2mo 3 month 12 months 2years\'')
DOC_MONTH = ('the default lease period is "one month" (docs/frontends/webapi.rst, docs/specifications/dirnodes.rst) and '
             '"31 days" (docs/garbage-collection.rst; http-storage-node-protocol.rst: "The lease period is hard-coded at 31 days")')
DOC_DATE = ('docs/garbage-collection.rst, expire.cutoff_date: \'This string will be a date in the following format: '
            '2009-01-16 (January 16th, 2009) 2008-02-02 2007-12-25. The actual cutoff time shall be midnight UTC at the '
            'beginning of the given day.\'')
STMT_MALFORMED = "statement: 'malformed values are rejected rather than silently read as something else'"
STMT_PRINTED = "statement: 'Abbreviated sizes that the node prints parse back to the same value.'"

DAY = 86400
MONTH = 31 * DAY            # see DOC_MONTH
YEAR_MIN, YEAR_MAX = 365 * DAY, 366 * DAY
SCALE = {"": 0, "K": 1, "M": 2, "G": 3, "T": 4, "P": 5, "E": 6}

# documented unit spellings (literally in the example list) and the extra spellings the code accepts
DUR_DOC_UNITS = {"day": "day", "days": "day", "mo": "month", "month": "month", "months": "month", "years": "year"}
DUR_PLAUSIBLE_UNITS = {"year": "year"}                       # singular of a documented unit, not listed literally
DUR_UNDOC_UNITS = {"s": "second", "second": "second", "seconds": "second"}   # accepted by the code, not documented


def days_from_civil(y, m, d):
    """Proleptic Gregorian days since 1970-01-01 (H. Hinnant's algorithm); no datetime/calendar involved."""
    y -= m <= 2
    era = (y if y >= 0 else y - 399) // 400
    yoe = y - era * 400
    doy = (153 * (m + (-3 if m > 2 else 9)) + 2) // 5 + d - 1
    doe = yoe * 365 + yoe // 4 - yoe // 100 + doy
    return era * 146097 + doe - 719468


def is_leap(y):
    return y % 4 == 0 and (y % 100 != 0 or y % 400 == 0)


def days_in_month(y, m):
    return [31, 29 if is_leap(y) else 28, 31, 30, 31, 30, 31, 31, 30, 31, 30, 31][m - 1]


def run(ck):
    from twisted.application import service
    import allmydata.client as client_mod
    from allmydata.client import _Client, _valid_config
    from allmydata.node import config_from_string
    from allmydata.util import time_format as tf, abbreviate as ab

    ck.rule = ("spellings are generated from the documented grammars (number x optional single space x unit/suffix x "
               "case), from lenient variants and from directed malformed templates, each with random and edge numbers "
               "(0, 1, 31, 2^31, 2^63, leading zeros); sizes for print-then-parse are chosen so that the two printed "
               "decimals are exact; distinct = distinct input string per parser")
    rng = ck.rng("c48")
    quick = ck.tier == "quick"
    counter = [0]

    def mine():
        counter[0] += 1
        return ck.mine(counter[0])

    def attempt(f, *a):
        try:
            return True, f(*a)
        except Exception as e:  # noqa
            return False, e

    # self-check of the date oracle against datetime (trusted base), nothing judged if it fails
    import datetime
    for (y, m, d) in ((1970, 1, 1), (2000, 2, 29), (2038, 1, 19), (1969, 12, 31), (2400, 12, 31), (1, 1, 1), (9999, 12, 31)):
        if days_from_civil(y, m, d) != datetime.date(y, m, d).toordinal() - datetime.date(1970, 1, 1).toordinal():
            ck.inconclusive_because("days_from_civil reference is wrong")
            return
    ck.mon("oracle-self-check")

    def number():
        r = rng.random()
        if r < 0.35:
            return str(rng.choice([0, 1, 2, 7, 9, 10, 12, 31, 60, 99, 100, 365, 1000, 1024, 2 ** 31 - 1, 2 ** 31, 2 ** 32,
                                   2 ** 63, 10 ** 18, 10 ** 30]))
        if r < 0.9:
            return str(rng.randint(0, 10 ** rng.randint(1, 12)))
        return "0" * rng.randint(1, 3) + str(rng.randint(0, 999))        # leading zeros: still a decimal number

    def randcase(s):
        return "".join(c.upper() if rng.random() < 0.5 else c.lower() for c in s)

    # ------------------------------------------------------------- client path
    class Recorder(object):
        name = "storage"
        calls = []

        def __init__(self, *a, **k):
            Recorder.calls.append(k)

        def setServiceParent(self, parent):
            pass

    class StubNode(service.MultiService):
        STOREDIR = "storage"
        nodeid = b"n" * 20
        stats_provider = None

    def through_client(storage_lines):
        """Let the real _Client read a [storage] section; returns (ok, kwargs-for-StorageServer | exception)."""
        base = tempfile.mkdtemp(prefix="vf-")
        real = client_mod.StorageServer
        Recorder.name = real.name
        try:
            cfg = "[storage]\nenabled = true\n" + "".join(line + "\n" for line in storage_lines)
            node = StubNode()
            node.config = config_from_string(base, "", cfg, _valid_config())
            node.get_config = node.config.get_config
            client_mod.StorageServer = Recorder
            del Recorder.calls[:]
            _Client.get_anonymous_storage_server(node)
            return True, dict(Recorder.calls[-1])
        except Exception as e:  # noqa
            return False, e
        finally:
            client_mod.StorageServer = real
            shutil.rmtree(base, ignore_errors=True)

    def cfg_safe(s):
        """can the string be written after 'key = ' in an ini file and come back unchanged?"""
        return s == s.strip() and s != "" and "\n" not in s and "\r" not in s and "%" not in s and "#" not in s \
            and ";" not in s and s.isprintable()

    # =============================================================== sizes
    def size_section():
        def judge_documented(s, want, has_space, via):
            ck.mon("size-oracle")
            ok, got = attempt(ab.parse_abbreviated_size, s) if via == "direct" else through_client(["reserved_space = " + s])
            if ok and via == "client":
                got = got.get("reserved_space")
            ck.hit("size-documented-spelling")
            if not ok:
                if has_space:
                    ck.violation("size-documented-space-rejected",
                                 "a size written with a space between number and suffix is rejected (%s); contradicts %s"
                                 % (type(got).__name__, DOC_SIZE), {"input": s, "expected_bytes": want, "via": via,
                                                                  "error": "%s: %s" % (type(got).__name__, got)})
                else:
                    ck.violation("size-documented-spelling-rejected",
                                 "a documented size spelling is rejected; contradicts %s" % DOC_SIZE,
                                 {"input": s, "expected_bytes": want, "via": via, "error": "%s: %s" % (type(got).__name__, got)})
            elif got != want:
                ck.violation("size-wrong-value", "a documented size spelling parses to another number of bytes; "
                             "contradicts %s" % DOC_SIZE, {"input": s, "got": got, "want": want, "via": via})

        # the nine spellings printed in the documentation, verbatim
        for s, want in (("100MB", 10 ** 8), ("100 M", 10 ** 8), ("100000000B", 10 ** 8), ("100000000", 10 ** 8),
                        ("100000kb", 10 ** 8), ("1MiB", 2 ** 20), ("1024KiB", 2 ** 20), ("1024 Ki", 2 ** 20),
                        ("1048576 B", 2 ** 20), ("1G", 10 ** 9), ("10000000000", 10 ** 10)):
            for via in ("direct", "client"):
                judge_documented(s, want, " " in s, via)
            ck.case("size-documentation-example", key=s, nontrivial=True)

        n_doc = 2500 if quick else 25000
        for i in range(n_doc):
            if not mine():
                continue
            if ck.out_of_time():
                return
            n = number()
            scale = rng.choice(list(SCALE))
            binary = bool(scale) and rng.random() < 0.45
            b = rng.choice(["", "B", "b"])
            space = rng.choice(["", "", " "])
            sc = rng.choice([scale, scale.lower()])
            if not (sc or binary or b):
                space = ""
            s = n + space + sc + ("i" if binary else "") + b
            want = int(n) * (1024 if binary else 1000) ** SCALE[scale]
            judge_documented(s, want, space == " ", "direct")
            if i % 25 == 0 and cfg_safe(s):
                judge_documented(s, want, space == " ", "client")
                ck.hit("size-through-client")
            ck.case("size-documented", key=s, nontrivial=True, sample={"input": s, "bytes": want} if i == 7 else None)
        # lenient variants: only required to mean the same thing if accepted
        n_len = 600 if quick else 6000
        for i in range(n_len):
            if not mine():
                continue
            if ck.out_of_time():
                return
            n = str(rng.randint(0, 10 ** 6))
            scale = rng.choice(["K", "M", "G", "T", "P", "E"])
            kind = rng.choice(["upper-I", "two-spaces", "tab", "lead-space", "trail-space", "trail-newline",
                               "fullwidth-digits", "arabic-digits", "iB-without-scale", "i-without-scale"])
            want = int(n) * 1000 ** SCALE[scale]
            if kind == "upper-I":
                s, want = n + scale + "IB", int(n) * 1024 ** SCALE[scale]
            elif kind == "two-spaces":
                s = n + "  " + scale
            elif kind == "tab":
                s = n + "\t" + scale + "B"
            elif kind == "lead-space":
                s = " " + n + scale
            elif kind == "trail-space":
                s = n + scale + " "
            elif kind == "trail-newline":
                s = n + scale + "\n"
            elif kind == "fullwidth-digits":
                s = "".join(chr(0xFF10 + int(c)) for c in n) + scale
            elif kind == "arabic-digits":
                s = "".join(chr(0x0660 + int(c)) for c in n) + scale
            elif kind == "iB-without-scale":
                s, want = n + "iB", int(n)
            else:
                s, want = n + "i", int(n)
            ck.mon("size-oracle")
            ok, got = attempt(ab.parse_abbreviated_size, s)
            if ok and got != want:
                ck.violation("size-lenient-spelling-wrong-value", "an undocumented spelling is accepted but not as the "
                             "number it denotes; %s" % STMT_MALFORMED, {"input": s, "got": got, "want": want})
            ck.skip("size-lenient:%s:%s" % (kind, "accepted" if ok else "rejected"))
            ck.case("size-lenient", key=s, nontrivial=True)

        # malformed
        def malformed():
            n = str(rng.randint(1, 10 ** 6))
            sc = rng.choice(["K", "M", "G", "T", "P", "E", "k", "m", "g"])
            return rng.choice([
                ("sign", "-" + n + sc), ("sign", "+" + n + sc), ("decimal", n + ".5" + sc), ("decimal", "." + n + sc),
                ("exponent", n + "e3"), ("exponent", "1e3" + sc), ("hex", "0x" + n), ("thousands-separator", "1," + n + sc),
                ("thousands-separator", "1_" + n + sc), ("inner-space", n[:1] + " " + n[1:] + "0" + sc),
                ("no-number", sc), ("no-number", sc + "B"), ("no-number", "B"), ("no-number", "iB"),
                ("double-scale", n + sc + sc), ("double-scale", n + "KM"), ("double-B", n + sc + "BB"),
                ("wrong-order", n + "B" + sc), ("wrong-order", n + "i" + sc), ("wrong-order", n + "Bi"),
                ("unknown-scale", n + "Z"), ("unknown-scale", n + "Y"), ("unknown-scale", n + "H"), ("unknown-scale", n + "kilo"),
                ("unknown-unit", n + sc + "bytes"), ("unknown-unit", n + sc + "b/s"), ("unknown-unit", n + "%"),
                ("trailing-junk", n + sc + "B x"), ("trailing-junk", n + sc + "!"), ("trailing-junk", n + sc + "B1"),
                ("leading-junk", "x" + n + sc), ("leading-junk", "=" + n + sc),
                ("two-values", n + sc + " " + n + sc), ("negative-zero", "-0"), ("words", "unlimited"), ("words", "none"),
                ("superscript-digit", n + "²" + sc), ("roman", "Ⅷ" + sc),
            ])
        n_mal = 1200 if quick else 12000
        for i in range(n_mal):
            if not mine():
                continue
            if ck.out_of_time():
                return
            cls, s = malformed()
            ck.mon("size-malformed-oracle")
            ok, got = attempt(ab.parse_abbreviated_size, s)
            if cls == "decimal":
                # the documentation says "a number", and the node itself prints decimals: left open, but an accepted
                # decimal has to denote what it says
                ck.skip("size-decimal-number:%s" % ("accepted" if ok else "rejected"))
                if ok:
                    num = s.rstrip("KMGTPEkmgtpe")
                    exact = Fraction("0" + num if num.startswith(".") else num) * 1000 ** SCALE[s[len(num):].upper()]
                    if exact != got:
                        ck.violation("size-wrong-value", "a decimal size parses to %r, it denotes %s bytes; contradicts %s"
                                     % (got, exact, DOC_SIZE), {"input": s, "got": got})
                ck.case("size-malformed", key=s, nontrivial=True)
                continue
            if ok:
                ck.violation("size-malformed-accepted:" + cls, "a malformed size is read as %r instead of being "
                             "rejected; %s" % (got, STMT_MALFORMED), {"input": s, "got": got})
            else:
                ck.hit("size-malformed-rejected")
                if not isinstance(got, ValueError):
                    ck.observe("size-rejected-with-" + type(got).__name__)
            if i % 40 == 0 and cfg_safe(s):
                okc, gotc = through_client(["reserved_space = " + s])
                ck.mon("size-malformed-oracle")
                if okc:
                    ck.violation("size-malformed-accepted:" + cls, "the node accepts a malformed reserved_space as %r; %s"
                                 % (gotc.get("reserved_space"), STMT_MALFORMED), {"input": s, "via": "client"})
            ck.case("size-malformed", key=s, nontrivial=True)
        # unset / empty: "(str, optional)" -> no reservation; not judged
        for s in (None, ""):
            attempt(ab.parse_abbreviated_size, s)
            ck.skip("size-unset")

    # =============================================================== printed sizes
    def printed_section():
        import re
        from allmydata.web import common as webcommon
        rx = re.compile(r"^(\d+)(?:\.(\d+))? ?(k|M|G|T|P|E|)(i?)B$")

        def read_printed(text):
            """(value denoted by the printed string, half a unit of its last printed digit), both exact Fractions."""
            m = rx.match(text)
            if not m:
                return None, None
            whole, frac, sc, i = m.groups()
            unit = (1024 if i else 1000) ** {"": 0, "k": 1, "M": 2, "G": 3, "T": 4, "P": 5, "E": 6}[sc]
            frac = frac or ""
            val = Fraction(int(whole + frac), 10 ** len(frac)) * unit
            return val, Fraction(unit, 2 * 10 ** len(frac))

        def one(s, si):
            ck.mon("printed-size-oracle")
            ok, text = attempt(ab.abbreviate_space, s, si)
            if not ok:
                ck.violation("abbreviate_space-raises", "abbreviate_space raised %s" % type(text).__name__, {"size": s, "SI": si})
                return
            judge_text(s, si, text, "abbreviate_space")
            # the combined form, judged piecewise: "(<SI print>, <IEC print>)"
            okb, both = attempt(ab.abbreviate_space_both, s)
            if okb and both != "(%s, %s)" % (ab.abbreviate_space(s, True), ab.abbreviate_space(s, False)):
                ck.observe("abbreviate_space_both-differs-from-parts")
                mb = re.match(r"^\((.*), (.*)\)$", both)
                if mb:
                    judge_text(s, True, mb.group(1), "abbreviate_space_both[0]")
                    judge_text(s, False, mb.group(2), "abbreviate_space_both[1]")

        def one_web(s):
            """web.common.abbreviate_size: the printer of the status / storage web pages ("21.8kB", "4.37MB")."""
            ck.mon("printed-size-oracle")
            ck.hit("printed-size-web")
            ok, text = attempt(webcommon.abbreviate_size, s)
            if not ok:
                ck.violation("abbreviate_size-raises", "web.common.abbreviate_size raised %s" % type(text).__name__, {"size": s})
                return
            judge_text(s, True, text, "web.common.abbreviate_size")

        def judge_text(s, si, text, printer):
            val, half_digit = read_printed(text)
            if val is None:
                ck.observe("printed-size-unrecognised-format")
                return
            okp, got = attempt(ab.parse_abbreviated_size, text)
            wit = {"size": s, "SI": si, "printed": text, "printer": printer}
            if val == s:
                ck.hit("printed-size-exact")
                if not okp:
                    mech = "printed-size-with-decimals-unparseable" if "." in text else "printed-size-with-space-unparseable"
                    ck.violation(mech, "%s(%d) prints %r, which denotes exactly %d bytes, but "
                                 "parse_abbreviated_size rejects it (%s); contradicts %s"
                                 % (printer, s, text, s, type(got).__name__, STMT_PRINTED), wit)
                elif got != s:
                    ck.violation("printed-size-parses-to-other-value", "%s(%d) prints %r which parses back to "
                                 "%r; contradicts %s" % (printer, s, text, got, STMT_PRINTED), dict(wit, got=got))
            else:
                # a rounded print cannot come back as the same number; the weakest reading of "parse back to the same
                # value" is: back to within the precision that was printed (half a unit of the last printed digit,
                # plus slack for the float division the printer uses)
                ck.hit("printed-size-rounded")
                if not okp:
                    if val.denominator != 1:
                        ck.skip("printed-size-not-a-whole-number-of-bytes-refused")    # e.g. "1.43 MiB": left open
                    else:
                        ck.violation("printed-size-with-decimals-unparseable", "%s(%d) prints %r, a whole "
                                     "number of bytes, but parse_abbreviated_size rejects it (%s); contradicts %s"
                                     % (printer, s, text, type(got).__name__, STMT_PRINTED), wit)
                else:
                    slack = half_digit + Fraction(abs(s), 10 ** 12) + 1
                    if abs(got - s) > slack:
                        ck.violation("printed-size-parses-to-other-value",
                                     "%s(%d) prints %r, which parses back to %d: off by %d bytes, more than "
                                     "half a unit of the last printed digit (%s bytes); contradicts %s"
                                     % (printer, s, text, got, abs(got - s), int(half_digit), STMT_PRINTED), dict(wit, got=got))
                    else:
                        ck.skip("printed-size-rounded-parses-back-within-printed-precision")

        # every printer over the whole magnitude range with tier-boundary bias
        def boundary_sizes():
            for k in range(0, 7):
                for base in (10 ** (3 * k), 2 ** (10 * k)):
                    for sz in (base - 1, base, base + 1, base + base // 2, 2 * base - 1, 999 * base, 1000 * base - 1,
                               1023 * base, 15 * base // 10, 25 * base // 10):
                        if 0 <= sz <= 2 * 10 ** 18:
                            yield sz
        seen = set()
        for idx, s0 in enumerate(boundary_sizes()):
            if s0 in seen:
                continue
            seen.add(s0)
            one(s0, True); one(s0, False); one_web(s0)
            ck.hit("printed-size-tier-boundary")
            ck.case("printed-size-boundary", key=s0, nontrivial=True)
        n_web = 1500 if quick else 15000
        for i in range(n_web):
            if not mine():
                continue
            if ck.out_of_time():
                return
            mag = rng.randint(0, 18)
            s0 = rng.choice([rng.randint(0, 10 ** mag), rng.randint(1, 9999) * 10 ** max(0, mag - 3),
                             10 ** mag - rng.randint(0, 5), 10 ** mag + rng.randint(0, 5)])
            s0 = max(0, s0)
            one_web(s0)
            ck.case("printed-size-web", key=s0, nontrivial=True,
                    sample={"size": s0, "printed": webcommon.abbreviate_size(s0)} if i in (5, 6) else None)
        # rate and time printers (abbreviate_rate "4.37MBps", web abbreviate_time "1.23s", util abbreviate_time
        # "2 months ago"): the tree has no parser for them and the statement speaks of sizes -> not judged
        attempt(webcommon.abbreviate_rate, 1234567)
        ck.skip("printed-rate-or-time-has-no-parser")

        for s0 in (1999999, 999999, 7998, 2 * 1024 * 1024 - 1, 1024 ** 3 - 1):     # carry into the next whole unit
            for si0 in (True, False):
                one(s0, si0)
                ck.case("printed-size", key=(s0, si0), nontrivial=True)
        for s0 in (123, 0, 1023, 2000, 1500000, 1536 * 1024):       # minimal witnesses first
            one(s0, s0 != 1536 * 1024)
            ck.case("printed-size", key=(s0, s0 != 1536 * 1024), nontrivial=True)
        n_pr = 1500 if quick else 15000
        for i in range(n_pr):
            if not mine():
                continue
            if ck.out_of_time():
                return
            si = rng.random() < 0.5
            r = rng.random()
            if r < 0.2:
                s = rng.choice([0, 1, 9, 10, 999, 1000, 1001, 1023, rng.randint(0, 1023)])
            elif r < 0.85:
                k = rng.randint(1, 6)
                U = 1000 if si else 1024
                c = rng.randint(100, 99999)
                if not si:
                    c -= c % 25                      # c/100 * 1024^k must be an integer
                    c = max(c, 100)
                s = c * U ** k // 100
                if s < 1024:
                    s = 1024 * 2
            elif r < 0.93:
                # fractional part >= 0.995 in the chosen unit: the two decimals round up into the next whole number
                k = rng.randint(1, 6)
                U = 1000 if si else 1024
                j = rng.choice([1, 2, 8, 9, 10, 99, 100, 999, U - 1, U, rng.randint(1, U)])
                s = j * U ** k - rng.choice([1, 2, max(1, U ** k // 200), rng.randint(1, max(1, U ** k // 200))])
                s = max(s, 1024)
                ck.hit("printed-size-just-below-whole-unit")
            else:
                s = rng.randint(1024, 10 ** rng.randint(4, 20))      # mostly inexact
            one(s, si)
            ck.case("printed-size", key=(s, si), nontrivial=True,
                    sample={"size": s, "printed": ab.abbreviate_space(s, si)} if i in (3, 4) else None)
        attempt(ab.abbreviate_space, None)
        ck.skip("printed-size-unknown")

    # =============================================================== durations
    def duration_section():
        unit_seconds = {}        # observed seconds per unit spelling, for agreement checks

        def judge(s, count, kind, documented, via="direct"):
            ck.mon("duration-oracle")
            if via == "direct":
                ok, got = attempt(tf.parse_duration, s)
            else:
                ok, got = through_client(["expire.enabled = true", "expire.mode = age", "expire.override_lease_duration = " + s])
                if ok:
                    got = got.get("expiration_override_lease_duration")
            if not ok:
                if documented:
                    ck.violation("duration-documented-spelling-rejected", "a documented duration spelling is rejected "
                                 "(%s); contradicts %s" % (type(got).__name__, DOC_DURATION),
                                 {"input": s, "via": via, "error": "%s: %s" % (type(got).__name__, got)})
                return None
            ck.hit("duration-accepted:" + kind)
            wit = {"input": s, "got": got, "via": via}
            if kind == "day" and got != count * DAY:
                ck.violation("duration-day-wrong-value", "%r is not %d x 86400 seconds; contradicts %s"
                             % (s, count, DOC_DURATION), dict(wit, want=count * DAY))
            elif kind == "month" and got != count * MONTH:
                ck.violation("duration-month-not-31-days", "%r is not %d x 31 days; the documentation equates one month "
                             "with 31 days: %s" % (s, count, DOC_MONTH), dict(wit, want=count * MONTH))
            elif kind == "year" and not (count * YEAR_MIN <= got <= count * YEAR_MAX):
                ck.violation("duration-year-wrong-value", "%r is not between %d x 365 and %d x 366 days; contradicts %s"
                             % (s, count, count, DOC_DURATION), wit)
            elif kind == "second" and got != count:
                ck.observe("undocumented-seconds-unit-not-seconds")
            return got

        n_doc = 2500 if quick else 25000
        for i in range(n_doc):
            if not mine():
                continue
            if ck.out_of_time():
                return
            n = number()
            unit = rng.choice(list(DUR_DOC_UNITS))
            space = rng.choice(["", " "])
            s = n + space + unit
            got = judge(s, int(n), DUR_DOC_UNITS[unit], True)
            if got is not None and int(n):
                per = Fraction(got, int(n))
                prev = unit_seconds.setdefault(DUR_DOC_UNITS[unit], per)
                ck.mon("duration-linearity-oracle")
                if per != prev:
                    ck.violation("duration-not-linear-or-spellings-disagree", "two spellings of the same unit give "
                                 "different seconds per unit (%s vs %s); contradicts %s" % (per, prev, DOC_DURATION),
                                 {"input": s, "got": got})
            if i % 25 == 0 and cfg_safe(s):
                judge(s, int(n), DUR_DOC_UNITS[unit], True, via="client")
                ck.hit("duration-through-client")
            ck.case("duration-documented", key=s, nontrivial=True, sample={"input": s, "seconds": got} if i == 5 else None)
        for s, cnt, kind in (("7days", 7, "day"), ("31day", 31, "day"), ("60 days", 60, "day"), ("2mo", 2, "month"),
                             ("3 month", 3, "month"), ("12 months", 12, "month"), ("2years", 2, "year")):
            for via in ("direct", "client"):
                judge(s, cnt, kind, True, via)
            ck.case("duration-documentation-example", key=s, nontrivial=True)
        if "year" in unit_seconds:
            ck.extra["seconds_per_year_observed"] = int(unit_seconds["year"])
            if unit_seconds["year"] != 365 * DAY:
                ck.observe("year-is-not-365-days")
        if "month" in unit_seconds:
            ck.extra["seconds_per_month_observed"] = int(unit_seconds["month"])

        # lenient / undocumented variants: if accepted they must mean the same
        n_len = 800 if quick else 8000
        for i in range(n_len):
            if not mine():
                continue
            if ck.out_of_time():
                return
            n = str(rng.randint(0, 10 ** 5))
            allu = dict(DUR_DOC_UNITS); allu.update(DUR_PLAUSIBLE_UNITS); allu.update(DUR_UNDOC_UNITS)
            unit = rng.choice(list(allu))
            kind = rng.choice(["case", "two-spaces", "tab", "lead-space", "trail-space", "trail-newline",
                               "fullwidth-digits", "arabic-digits", "plain"])
            if kind == "plain" and unit in DUR_DOC_UNITS:
                kind = "case"
            u = randcase(unit) if kind == "case" else unit
            num = n
            if kind == "fullwidth-digits":
                num = "".join(chr(0xFF10 + int(c)) for c in n)
            elif kind == "arabic-digits":
                num = "".join(chr(0x0660 + int(c)) for c in n)
            s = {"two-spaces": num + "  " + u, "tab": num + "\t" + u, "lead-space": " " + num + u,
                 "trail-space": num + u + " ", "trail-newline": num + " " + u + "\n"}.get(kind, num + rng.choice(["", " "]) + u)
            got = judge(s, int(n), allu[unit], False)
            ck.skip("duration-lenient:%s:%s" % (kind if unit not in DUR_UNDOC_UNITS else "seconds-unit",
                                                "accepted" if got is not None else "rejected"))
            ck.case("duration-lenient", key=s, nontrivial=True)

        def malformed():
            n = str(rng.randint(1, 10 ** 4))
            u = rng.choice(["days", "day", "mo", "months", "years", "s"])
            return rng.choice([
                ("sign", "-" + n + u), ("sign", "+" + n + " " + u), ("decimal", n + ".5 " + u), ("decimal", "." + n + u),
                ("decimal", n + "," + n + " " + u), ("exponent", n + "e2 " + u), ("hex", "0x" + n + u),
                ("thousands-separator", "1_" + n + " " + u), ("no-number", u), ("no-number", " " + u),
                ("number-after-unit", u + n), ("number-after-unit", u + " " + n),
                ("unknown-unit", n + " weeks"), ("unknown-unit", n + "w"), ("unknown-unit", n + " hours"), ("unknown-unit", n + "h"),
                ("unknown-unit", n + " minutes"), ("unknown-unit", n + "min"), ("unknown-unit", n + "m"), ("unknown-unit", n + "d"),
                ("unknown-unit", n + "y"), ("unknown-unit", n + "yr"), ("unknown-unit", n + " yrs"), ("unknown-unit", n + " fortnights"),
                ("unknown-unit", n + " decades"), ("unknown-unit", n + "ms"), ("unknown-unit", n + " daily"),
                ("misspelt-unit", n + " dayss"), ("misspelt-unit", n + " dais"), ("misspelt-unit", n + " mos"), ("misspelt-unit", n + " mon"),
                ("misspelt-unit", n + " monthes"), ("misspelt-unit", n + " yearss"), ("misspelt-unit", n + " da ys"), ("misspelt-unit", n + " secs"),
                ("trailing-junk", n + " " + u + " ago"), ("trailing-junk", n + u + "!"), ("trailing-junk", n + " " + u + " " + n),
                ("trailing-junk", n + u + "."), ("leading-junk", "~" + n + u), ("leading-junk", "in " + n + " " + u),
                ("two-durations", n + " years " + n + " months"), ("two-durations", n + "mo" + n + "days"),
                ("inner-space-in-number", n[:1] + " " + n[1:] + "1 " + u), ("words", "forever"), ("words", "one month"),
                ("superscript-digit", n + "² " + u), ("roman-numeral", "Ⅷ " + u),
            ])
        n_mal = 1500 if quick else 15000
        for i in range(n_mal):
            if not mine():
                continue
            if ck.out_of_time():
                return
            cls, s = malformed()
            ck.mon("duration-malformed-oracle")
            ok, got = attempt(tf.parse_duration, s)
            if cls == "decimal" and "," not in s:
                # "a number of days, months, or years": fractions are left open; if accepted they must be exact
                ck.skip("duration-decimal-number:%s" % ("accepted" if ok else "rejected"))
                if ok:
                    import re as _re
                    mm = _re.match(r"^(\d*\.\d+)\s*([a-z]+)$", s)
                    per = {"days": DAY, "day": DAY, "mo": MONTH, "months": MONTH, "s": 1}.get(mm.group(2)) if mm else None
                    if per and mm.group(2) != "years" and Fraction("0" + mm.group(1)) * per != got:
                        ck.violation("duration-malformed-accepted:decimal", "a fractional duration is read as %r seconds, "
                                     "not the amount it denotes; %s" % (got, STMT_MALFORMED), {"input": s, "got": got})
                ck.case("duration-malformed", key=s, nontrivial=True)
                continue
            if ok:
                ck.violation("duration-malformed-accepted:" + cls, "a malformed duration is read as %r seconds instead "
                             "of being rejected; %s" % (got, STMT_MALFORMED), {"input": s, "got": got})
            else:
                ck.hit("duration-malformed-rejected")
                if not isinstance(got, ValueError):
                    ck.observe("duration-rejected-with-" + type(got).__name__)
            if i % 40 == 0 and cfg_safe(s):
                okc, gotc = through_client(["expire.enabled = true", "expire.mode = age", "expire.override_lease_duration = " + s])
                ck.mon("duration-malformed-oracle")
                if okc:
                    ck.violation("duration-malformed-accepted:" + cls, "the node accepts a malformed "
                                 "expire.override_lease_duration as %r; %s" % (gotc.get("expiration_override_lease_duration"),
                                                                             STMT_MALFORMED), {"input": s, "via": "client"})
            ck.case("duration-malformed", key=s, nontrivial=True)
        # units that only match through Unicode case folding (LATIN SMALL LETTER LONG S): rejected, but with KeyError
        for s in ("5ſ", "5 dayſ", "5 monthſ", "5 ſeconds", "5 yearſ"):
            ck.mon("duration-malformed-oracle")
            ok, got = attempt(tf.parse_duration, s)
            if ok:
                ck.violation("duration-malformed-accepted:unicode-casefold-unit", "a unit spelt with U+017F is read as "
                             "%r seconds; %s" % (got, STMT_MALFORMED), {"input": s})
            else:
                ck.hit("duration-malformed-rejected")
                if not isinstance(got, ValueError):
                    ck.observe("duration-rejected-with-" + type(got).__name__)
            ck.case("duration-malformed", key=s, nontrivial=True)

    # =============================================================== dates
    def date_section():
        def judge_valid(y, m, d, via="direct"):
            s = "%04d-%02d-%02d" % (y, m, d)
            want = days_from_civil(y, m, d) * DAY
            ck.mon("date-oracle")
            if via == "direct":
                ok, got = attempt(tf.parse_date, s)
            else:
                ok, got = through_client(["expire.enabled = true", "expire.mode = cutoff-date", "expire.cutoff_date = " + s])
                if ok:
                    got = got.get("expiration_cutoff_date")
            ck.hit("date-valid")
            if not ok:
                if 1970 <= y <= 9999:
                    ck.violation("date-documented-format-rejected", "a date in the documented format is rejected (%s); "
                                 "contradicts %s" % (type(got).__name__, DOC_DATE), {"input": s, "via": via})
                else:
                    ck.skip("date-before-epoch-rejected")
            elif got != want:
                ck.violation("date-wrong-instant", "%r parses to %r, midnight UTC of that day is %d; contradicts %s"
                             % (s, got, want, DOC_DATE), {"input": s, "got": got, "want": want, "via": via})
            return s

        edges = [(1970, 1, 1), (1970, 1, 2), (1999, 12, 31), (2000, 1, 1), (2000, 2, 29), (2000, 3, 1), (2004, 2, 29),
                 (2009, 1, 16), (2008, 2, 2), (2007, 12, 25), (2038, 1, 19), (2038, 1, 20), (2100, 2, 28), (2100, 3, 1),
                 (2400, 2, 29), (9999, 12, 31), (1969, 12, 31), (1900, 3, 1), (1, 1, 1)]
        n_val = 1500 if quick else 15000
        for i in range(n_val):
            if not mine():
                continue
            if ck.out_of_time():
                return
            if i < len(edges):
                y, m, d = edges[i]
            else:
                y = rng.choice([rng.randint(1970, 2100), rng.randint(1970, 2100), rng.randint(1, 9999)])
                m = rng.randint(1, 12)
                d = rng.choice([1, days_in_month(y, m), rng.randint(1, days_in_month(y, m))])
            s = judge_valid(y, m, d)
            if i % 25 == 0 and y >= 1970:
                judge_valid(y, m, d, via="client")
                ck.hit("date-through-client")
            ck.case("date-valid", key=s, nontrivial=True, sample={"input": s, "epoch": days_from_civil(y, m, d) * DAY} if i == 7 else None)

        def malformed():
            y = rng.randint(1971, 2099); m = rng.randint(1, 12); d = rng.randint(1, 28)
            good = "%04d-%02d-%02d" % (y, m, d)
            hh, mi, ss = rng.randint(0, 23), rng.randint(0, 59), rng.randint(1, 59)
            nonleap = rng.choice([2009, 2010, 2011, 2100, 1900, 2023])
            m30 = rng.choice([4, 6, 9, 11])
            return rng.choice([
                ("nonexistent-day", "%04d-02-30" % y, "normal"), ("nonexistent-day", "%04d-02-31" % y, "normal"),
                ("nonexistent-day", "%04d-02-29" % nonleap, "normal"), ("nonexistent-day", "%04d-%02d-31" % (y, m30), "normal"),
                ("nonexistent-day", "%04d-%02d-00" % (y, m), "normal"), ("nonexistent-day", "%04d-%02d-%02d" % (y, m, rng.randint(32, 99)), "normal"),
                ("nonexistent-month", "%04d-00-%02d" % (y, d), "plain"), ("nonexistent-month", "%04d-%02d-%02d" % (y, rng.randint(13, 99), d), "plain"),
                ("trailing-time", good + "T%02d:%02d:%02d" % (hh, mi, ss), "time"), ("trailing-time", good + "_%02d:%02d:%02d" % (hh, mi, ss), "time"),
                ("trailing-time", good + " %02d:%02d:%02d" % (hh, mi, ss), "time"), ("trailing-time", good + "T24:00:00", "time"),
                ("trailing-time", good + "T%02d:%02d:%02d.5" % (hh, mi, ss), "time"), ("trailing-time", good + "T00:00:%02d" % ss, "time"),
                ("wrong-separator", good.replace("-", "/"), "plain"), ("wrong-separator", good.replace("-", "."), "plain"),
                ("wrong-separator", good.replace("-", ""), "plain"), ("wrong-separator", good.replace("-", " "), "plain"),
                ("short-field", "%d-%d-%d" % (y, m % 10 or 1, d % 10 or 1), "plain"), ("short-field", "%02d-%02d-%02d" % (y % 100, m, d), "plain"),
                ("field-order", "%02d-%02d-%04d" % (d, m, y), "plain"), ("field-order", "%02d/%02d/%04d" % (m, d, y), "plain"),
                ("trailing-junk", good + "x", "plain"), ("trailing-junk", good + "Z", "plain"), ("trailing-junk", good + " UTC", "plain"),
                ("trailing-junk", good + "-01", "plain"), ("trailing-junk", good + "T", "plain"), ("trailing-junk", good + "+01:00", "plain"),
                ("leading-junk", " " + good, "plain"), ("leading-junk", "x" + good, "plain"), ("leading-junk", "+" + good, "plain"),
                ("leading-junk", "-" + good, "plain"), ("leading-junk", "1" + good, "plain"),
                ("incomplete", "%04d-%02d" % (y, m), "plain"), ("incomplete", "%04d" % y, "plain"), ("incomplete", "", "plain"),
                ("words", "today", "plain"), ("words", "January 16th, 2009", "plain"), ("words", "2009-Jan-16", "plain"),
                ("epoch-number", str(days_from_civil(y, m, d) * DAY), "plain"),
            ])
        CANON = [("nonexistent-day", "2009-02-30", "normal"), ("trailing-time", "2009-01-16T12:34:56", "time"),
                 ("nonexistent-day", "2009-02-29", "normal"), ("nonexistent-day", "2009-04-31", "normal"),
                 ("nonexistent-day", "2009-01-00", "normal"), ("trailing-time", "2009-01-16 12:34:56", "time")]
        n_mal = 1500 if quick else 15000
        for i in range(n_mal):
            if not mine() and i >= len(CANON):
                continue
            if ck.out_of_time():
                return
            cls, s, mode = malformed()
            if i < len(CANON):
                cls, s, mode = CANON[i]
            ck.mon("date-malformed-oracle")
            ok, got = attempt(tf.parse_date, s)
            via = "direct"
            if i % 40 == 0 and cfg_safe(s):
                okc, gotc = through_client(["expire.enabled = true", "expire.mode = cutoff-date", "expire.cutoff_date = " + s])
                ck.hit("date-malformed-through-client")
                if okc != ok or (ok and gotc.get("expiration_cutoff_date") != got):
                    ck.observe("client-and-parse_date-disagree")
            if not ok:
                ck.hit("date-malformed-rejected")
                if not isinstance(got, ValueError):
                    ck.observe("date-rejected-with-" + type(got).__name__)
            else:
                wit = {"input": s, "got": got, "got_utc": tf.iso_utc(got, sep="T") if isinstance(got, int) and abs(got) < 2 ** 40 else None, "via": via}
                if cls == "nonexistent-day":
                    ck.violation("date-nonexistent-day-normalised", "%r names a day that does not exist, yet it is accepted "
                                 "and silently moved to another day (%s); contradicts %s and %s"
                                 % (s, wit["got_utc"], DOC_DATE, STMT_MALFORMED), wit)
                elif cls == "trailing-time":
                    base = s[:10]
                    midnight = days_from_civil(int(base[:4]), int(base[5:7]), int(base[8:10])) * DAY
                    if got == midnight:
                        ck.skip("date-trailing-time-at-midnight-accepted")      # same instant: lenient
                    else:
                        ck.violation("date-trailing-time-accepted", "%r is not in the documented YYYY-MM-DD format, yet it "
                                     "is accepted and read as %s, which is not midnight UTC at the beginning of the day; "
                                     "contradicts %s and %s" % (s, wit["got_utc"], DOC_DATE, STMT_MALFORMED), wit)
                else:
                    ck.violation("date-malformed-accepted:" + cls, "%r is not in the documented format, yet it is read "
                                 "as %s; contradicts %s and %s" % (s, wit["got_utc"], DOC_DATE, STMT_MALFORMED), wit)
            ck.case("date-malformed", key=s, nontrivial=True)
        # lenient: non-ASCII digits that denote the same date
        for y, m, d in ((2009, 1, 16), (2031, 12, 1)):
            s = "".join(chr(0xFF10 + int(c)) if c.isdigit() else c for c in "%04d-%02d-%02d" % (y, m, d))
            ok, got = attempt(tf.parse_date, s)
            ck.mon("date-oracle")
            if ok and got != days_from_civil(y, m, d) * DAY:
                ck.violation("date-wrong-instant", "fullwidth-digit date read as another instant; " + STMT_MALFORMED, {"input": s, "got": got})
            ck.skip("date-lenient:fullwidth-digits:%s" % ("accepted" if ok else "rejected"))
            ck.case("date-lenient", key=s)

        # iso_utc / iso_utc_date / iso_utc_time_to_seconds: what the node prints for a timestamp reads back
        n_iso = 600 if quick else 6000
        for i in range(n_iso):
            if not mine():
                continue
            if ck.out_of_time():
                return
            t = rng.choice([0, 1, 86399, 86400, 951782400, 2 ** 31 - 1, 2 ** 31, rng.randint(0, 4 * 10 ** 9)])
            ck.mon("iso-roundtrip-oracle")
            try:
                for sep in ("_", "T", " "):
                    text = tf.iso_utc(t, sep=sep)
                    back = tf.iso_utc_time_to_seconds(text)
                    if back != t:
                        ck.violation("iso_utc-does-not-read-back", "iso_utc(%d) = %r reads back as %r" % (t, text, back), {"t": t})
                dd = tf.iso_utc_date(t)
                if tf.parse_date(dd) != t - t % DAY:
                    ck.violation("iso_utc_date-does-not-read-back", "iso_utc_date(%d) = %r does not parse to that day's "
                                 "midnight" % (t, dd), {"t": t})
                y, m, d = int(dd[:4]), int(dd[5:7]), int(dd[8:10])
                if days_from_civil(y, m, d) * DAY != t - t % DAY:
                    ck.violation("iso_utc_date-wrong-day", "iso_utc_date(%d) = %r is not the UTC day of that instant" % (t, dd), {"t": t})
                ck.hit("iso-roundtrip")
            except Exception as e:  # noqa
                ck.violation("iso_utc-raises", "%s: %s" % (type(e).__name__, e), {"t": t})
            ck.case("iso-roundtrip", key=t, nontrivial=True)

    # =============================================================== abbreviate_time (printing only; not judged)
    def time_print_section():
        for s in (0, 1, 119, 120, 3 * 3600, 2 * DAY, 59 * DAY, 60 * DAY, 61 * DAY, 62 * DAY, 4 * 365 * DAY):
            ok, text = attempt(ab.abbreviate_time, s)
            if ok and text.endswith(("month", "months")):
                okp, back = attempt(tf.parse_duration, text)
                if okp and back != s:
                    # abbreviate.py counts 30-day months when printing, time_format.py 31-day months when parsing;
                    # the statement only speaks about printed *sizes*
                    ck.observe("abbreviate_time-months-do-not-parse-back-to-the-same-seconds")
            ck.skip("printed-duration-not-covered-by-statement")

    # documented cross-key rule that is about keys, not values (observed only)
    def cross_key_observations():
        ok, got = through_client(["expire.enabled = true", "expire.mode = cutoff-date", "expire.cutoff_date = 2009-01-16",
                                  "expire.override_lease_duration = 2mo"])
        if ok:
            ck.observe("override_lease_duration-not-rejected-in-cutoff-date-mode")   # docs: "It will be rejected if cutoff-date expiration is in use."
        ok, got = through_client(["expire.enabled = true", "expire.mode = age", "expire.cutoff_date = 2009-01-16"])
        if ok:
            ck.observe("cutoff_date-not-rejected-in-age-mode")

    for name, fn in (("size", size_section), ("printed", printed_section), ("duration", duration_section),
                     ("date", date_section), ("time-print", time_print_section), ("cross-key", cross_key_observations)):
        try:
            fn()
        except Exception:  # noqa
            import traceback
            ck.inconclusive_because("harness exception in section %s: %s" % (name, traceback.format_exc()[-1200:]))

    ck.require_monitor("oracle-self-check", "size-oracle", "size-malformed-oracle", "printed-size-oracle",
                       "duration-oracle", "duration-linearity-oracle", "duration-malformed-oracle",
                       "date-oracle", "date-malformed-oracle", "iso-roundtrip-oracle")
    ck.require_reach("size-documented-spelling", "size-through-client", "size-malformed-rejected", "printed-size-exact",
                     "printed-size-rounded", "printed-size-just-below-whole-unit", "printed-size-web", "printed-size-tier-boundary",
                     "duration-accepted:day", "duration-accepted:month", "duration-accepted:year",
                     "duration-through-client", "duration-malformed-rejected", "date-valid", "date-through-client",
                     "date-malformed-rejected", "iso-roundtrip")
    ck.exhaustive = False
    ck.extra["oracle_numbers"] = {"day_s": DAY, "month_s": MONTH, "year_s_range": [YEAR_MIN, YEAR_MAX],
                                  "K..E": "1000^1..6", "Ki..Ei": "1024^1..6"}
    ck.assumptions.append("month = 31 days is derived from the documentation calling the default lease period both "
                          "'one month' and '31 days'; a year is only bounded (365..366 days)")


# MUST_CATCH (scratch copies under /var/tmp, VF_REPO=..., quick tier; "caught" = a violation key that the
# unchanged tree does not produce)
#  1. time_format.parse_duration: MONTH = 30*DAY                          -> caught (duration-month-not-31-days)
#  2. time_format.parse_duration: YEAR = 360*DAY                          -> caught (duration-year-wrong-value)
#  3. time_format.parse_duration: regex without the final `$`             -> caught (duration-malformed-accepted:trailing-junk, :two-durations, ...)
#  4. abbreviate.parse_abbreviated_size: "K": 1024                        -> caught (size-wrong-value)
#  5. abbreviate.parse_abbreviated_size: regex without the final `$`      -> caught (size-malformed-accepted:double-scale, :exponent, ...)
#  6. time_format.parse_date: appends "T12:00:00"                         -> caught (date-wrong-instant)
#  7. client.py: o_l_d = parse_duration(o_l_d) + 1                        -> caught through the client path (duration-day-wrong-value)
#  8. client.py: reads "reserved-space" instead of "reserved_space"       -> caught through the client path (size-malformed-accepted:*, size-wrong-value)
#  9. time_format.parse_duration: "mo" mapped to 60 seconds               -> caught (duration-month-not-31-days, duration-not-linear-or-spellings-disagree)
# 10. seeded/C48-4 and twins in selftest/breaks_c48.py (abbreviate_space: hundredths rounding up to 100 not carried,
#     SI kilobytes divided by 1024, decimals truncated instead of rounded)                          -> caught
#     (printed-size-parses-to-other-value: a rounded print must parse back to within half a unit of its last printed
#     digit; binary prints that are not a whole number of bytes are refused by the parser on the unchanged tree and
#     stay open: dont_care printed-size-not-a-whole-number-of-bytes-refused)
# 11. seeded/C48-6 and twins in selftest/breaks_c48.py (web.common.abbreviate_size: a tier with the wrong divisor,
#     kB tier dividing by 1024, MB tier labelled kB)                                               -> caught
#     (printed-size-parses-to-other-value with printer=web.common.abbreviate_size; every size printer of the tree is now
#     printed-then-parsed over 0..2*10^18 with tier-boundary bias; rate/time printers have no parser and are skipped)
