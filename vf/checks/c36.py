"""C36 any k distinct blocks of a (possibly padded tail) segment decode back to that segment."""
META = {
    "level": 'exploration',
    "technique": 'runtime round-trip oracle on the real CRSEncoder/CRSDecoder (zfec) with the callers\' padding: exhaustive k-subsets (with orderings) for small N, seeded subsets for N<=64, spot checks to N=256; additionally the real padding/stripping code of immutable Encoder/DownloadNode and mutable Publish/Retrieve is driven with stubs',
    "text": 'Executes the real codec.CRSEncoder / CRSDecoder synchronously (defer_to_thread made synchronous). For every 1<=k<=N<=7 (thorough N<=9), segment sizes 1, k-1, k, k+1, 2k-1, 2k+1, a few hundred*k+r and random, padded exactly as immutable/encode.py (next_multiple(tail,k), zero fill of the read) and mutable/publish.py (div_ceil block size, per-piece zero fill) do, every k-subset of the N blocks is decoded (all orderings for k<=5, else sorted/reversed/shuffled) and the joined buffers, truncated to the segment size as downloader/node.py and mutable/retrieve.py do, must equal the segment. Seeded (k,N) up to 64 with random k-subsets in random order, and spot checks up to k<=N=256. A second workload drives the real Encoder._got_all_encoding_parameters/_encode_segment + DownloadNode._calculate_sizes/_decode_blocks and Publish.setup_encoding_parameters/_encode_segment + Retrieve._setup_encoding_parameters/_decode_blocks/_decrypt_segment over multi-segment files with short tails. Exhaustive over subsets within the small bound, sampled beyond.',
    "note": 'Trusts that blocks reach the decoder unmodified and distinct (duplicate share ids are forbidden by the statement and not generated). The caller-level workload reaches into private attributes of Encoder/DownloadNode/Publish/Retrieve only to feed them; verdicts are taken from the bytes they return.',
}
LEVEL = "exploration"
BUDGET = {"quick": 45, "thorough": 300}
SHARDS = {"quick": 1, "thorough": 8}

import itertools
from vf import env  # noqa  MUST be first


def drive(d):
    """Result of an already-fired Deferred (thread jobs are synchronous); raises its failure."""
    out = []
    d.addBoth(out.append)
    if not out:
        raise RuntimeError("Deferred did not fire synchronously")
    from twisted.python.failure import Failure
    if isinstance(out[0], Failure):
        out[0].raiseException()
    return out[0]


# ----------------------------------------------------------------------------- codec-level paths
def encode_immutable(codec, mathutil, data, k, N):
    """encode.py: tail codec gets next_multiple(tail_size, k); _gather_data zero-fills the short read."""
    padded = mathutil.next_multiple(len(data), k)
    enc = codec.CRSEncoder()
    enc.set_params(padded, k, N)
    block = enc.get_block_size()
    read_size = k * block
    buf = data + b"\x00" * (read_size - len(data))
    pieces = [buf[i:i + block] for i in range(0, len(buf), block)]
    shares, ids = drive(enc.encode(pieces))
    return shares, ids, block, padded


def decode_immutable(codec, mathutil, shares, ids, size, k, N):
    """downloader/node.py _decode_blocks: decoder gets tail_segment_padded; join; assert; truncate."""
    padded = mathutil.next_multiple(size, k)
    dec = codec.CRSDecoder()
    dec.set_params(padded, k, N)
    buffers = drive(dec.decode(shares, ids))
    segment = b"".join(buffers)
    return segment[:size], len(segment), padded


def encode_mutable(codec, mathutil, data, k, N):
    """publish.py: tail_fec.set_params(tail_segment_size (unpadded), k, N); each piece zero-filled to block size."""
    enc = codec.CRSEncoder()
    enc.set_params(len(data), k, N)
    piece_size = enc.get_block_size()
    pieces = []
    for i in range(k):
        piece = data[i * piece_size:(i + 1) * piece_size]
        pieces.append(piece + b"\x00" * (piece_size - len(piece)))
    shares, ids = drive(enc.encode(pieces))
    return shares, ids, piece_size, k * piece_size


def decode_mutable(codec, mathutil, shares, ids, size, k, N):
    """retrieve.py: tail decoder gets next_multiple(tail_data_size, k); join; segment[:tail_data_size]."""
    dec = codec.CRSDecoder()
    dec.set_params(mathutil.next_multiple(size, k), k, N)
    buffers = drive(dec.decode(shares, ids))
    segment = b"".join(buffers)
    return segment[:size], len(segment), mathutil.next_multiple(size, k)


PATHS = {"immutable": (encode_immutable, decode_immutable), "mutable": (encode_mutable, decode_mutable)}


def sizes_for(k, rng, extra_large=False):
    s = set([1, k - 1, k, k + 1, 2 * k - 1, 2 * k, 2 * k + 1, 3 * k + 2, 257 * k + (k // 2), rng.randint(1, 40 * k)])
    if extra_large:
        s.add(131072 + 1)
        s.add(131073 - (131073 % k) if 131073 % k else 131072)
    return sorted(x for x in s if x >= 1)


def run(ck):
    from allmydata import codec
    from allmydata.util import mathutil
    env.set_thread_sync(True)
    ck.rule = ("a case is one decode of k distinct blocks (a k-subset of the N encoded blocks in a given order) of one segment; "
               "segment = random bytes of a boundary-biased size, encoded through the immutable or the mutable padding path; "
               "all k-subsets for N<=7 (thorough 9) with all orderings for k<=5; seeded subsets for N<=64; spot checks N up to 256; "
               "distinct = (path,k,N,size,ordered share ids); non-trivial = k<N or size%k != 0")
    rng = ck.rng("c36")
    thorough = ck.tier == "thorough"
    stats = {"encodings": 0}

    def classify(path, k, N, data, shares, order, exc, got, joined_len, expect_len):
        """Deterministic mechanism key for a failed round trip."""
        padded = (len(data) % k) != 0
        if exc is not None:
            return "decode-raises-padded-tail" if padded else "decode-raises"
        if joined_len != expect_len:
            return "decoded-length-wrong"
        # does the canonical order work?  then the order handling is at fault
        if list(order) != sorted(order):
            try:
                so = sorted(order)
                g2, _, _ = PATHS[path][1](codec, mathutil, [shares[i] for i in so], so, len(data), k, N)
                if g2 == data:
                    return "share-order-dependent-decode"
            except Exception:
                pass
        if padded:
            return "padded-tail-decodes-wrong"
        return "decode-wrong-bytes"

    def encode(path, k, N, data):
        stats["encodings"] += 1
        try:
            shares, ids, block, total = PATHS[path][0](codec, mathutil, data, k, N)
        except Exception as e:
            ck.violation("encode-raises-padded-tail" if len(data) % k else "encode-raises",
                         "%s-path encode of %d bytes with k=%d N=%d raised %s: %s" % (path, len(data), k, N, type(e).__name__, e),
                         {"path": path, "k": k, "N": N, "size": len(data)})
            return None
        ck.mon("encode-shape")
        if list(ids) != list(range(N)) or len(shares) != N or any(len(s) != block for s in shares):
            ck.violation("encoded-blocks-malformed",
                         "encode returned %d blocks, ids %r.., lengths %r.. (expected %d blocks of %d bytes)"
                         % (len(shares), list(ids)[:5], sorted(set(len(s) for s in shares))[:5], N, block),
                         {"path": path, "k": k, "N": N, "size": len(data)})
            return None
        if block * k < len(data):
            ck.violation("block-size-too-small", "k*block = %d < segment size %d" % (k * block, len(data)),
                         {"path": path, "k": k, "N": N, "size": len(data)})
            return None
        if len(data) % k:
            ck.hit("padded-tail-encoded")
        else:
            ck.hit("unpadded-segment-encoded")
        return [bytes(s) for s in shares]

    def decode_case(cls, path, k, N, data, shares, order):
        exc = got = None
        joined = expect = -1
        try:
            got, joined, expect = PATHS[path][1](codec, mathutil, [shares[i] for i in order], list(order), len(data), k, N)
        except Exception as e:
            exc = e
        ck.mon("roundtrip-oracle")
        if any(i >= k for i in order):
            ck.hit("secondary-blocks-used")
        if list(order) != sorted(order):
            ck.hit("unsorted-share-order")
        if exc is not None or got != data or joined != expect:
            key = classify(path, k, N, data, shares, order, exc, got, joined, expect)
            first_diff = None
            if got is not None and got != data:
                first_diff = next((i for i in range(min(len(got), len(data))) if got[i] != data[i]), min(len(got), len(data)))
            ck.violation(key, "%s path k=%d N=%d size=%d shares %r: %s" % (
                path, k, N, len(data), list(order)[:12],
                ("raised %s: %s" % (type(exc).__name__, exc)) if exc is not None else
                ("decoded %d bytes differ from the segment at offset %r" % (len(got), first_diff))),
                {"path": path, "k": k, "N": N, "size": len(data), "share_ids_in_order": list(order)[:64],
                 "segment": data[:64], "decoded": (got or b"")[:64], "joined_len": joined, "expected_joined_len": expect})
        ck.case(cls, key=(path, k, N, len(data), tuple(order)), nontrivial=(k < N or len(data) % k != 0))

    def orderings(sub, k, all_perms_upto):
        if k <= all_perms_upto:
            return list(itertools.permutations(sub))
        out = [tuple(sub), tuple(reversed(sub))]
        for _ in range(3):
            p = list(sub)
            rng.shuffle(p)
            out.append(tuple(p))
        return out

    # ---- exhaustive small: all (k,N), boundary sizes, both padding paths, all k-subsets
    maxN = 9 if thorough else 7
    permk = 6 if thorough else 5
    complete = True
    idx = 0
    for N in range(1, maxN + 1):
        for k in range(1, N + 1):
            for size in sizes_for(k, rng):
                for path in ("immutable", "mutable"):
                    idx += 1
                    if not ck.mine(idx):
                        continue
                    if ck.out_of_time():
                        complete = False
                        break
                    data = rng.randbytes(size)
                    shares = encode(path, k, N, data)
                    if shares is None:
                        continue
                    for sub in itertools.combinations(range(N), k):
                        for order in orderings(sub, k, permk if size <= 3 * k + 2 else 2):
                            decode_case("exhaustive-subsets", path, k, N, data, shares, order)
    ck.extra["exhaustive_bound"] = {"max_N": maxN, "all_orderings_up_to_k": permk, "complete": complete}
    ck.exhaustive = complete

    # ---- seeded (k,N) up to 64
    nenc = 2500 if not thorough else 8000
    for i in range(nenc):
        if ck.out_of_time():
            ck.observe("seeded-part-stopped-on-budget")
            break
        N = rng.choice((8, 10, 10, 16, 17, 31, 32, 33, 63, 64, rng.randint(8, 64), rng.randint(8, 64)))
        k = rng.choice((1, 2, 3, N - 1, N, max(1, N // 2), rng.randint(1, N), rng.randint(1, N)))
        if (k, N) == (3, 10) or i % 40 == 0:
            sizes = sizes_for(k, rng, extra_large=True)
        else:
            sizes = sizes_for(k, rng)
        size = rng.choice(sizes)
        path = ("immutable", "mutable")[i % 2]
        data = rng.randbytes(size)
        shares = encode(path, k, N, data)
        if shares is None:
            continue
        for j in range(14 if size < 100000 else 3):
            sub = rng.sample(range(N), k)          # random subset in random order
            if j == 0:
                sub = list(range(N - k, N))        # only secondary blocks where possible
            elif j == 1:
                sub = sorted(sub)
            decode_case("seeded-subsets", path, k, N, data, shares, tuple(sub))

    # ---- spot checks up to N = 256
    spots = [(1, 256), (2, 256), (3, 256), (127, 256), (128, 256), (129, 256), (255, 256), (256, 256),
             (1, 255), (254, 255), (255, 255), (100, 200), (65, 129), (64, 128), (3, 100)]
    for si, (k, N) in enumerate(spots):
        if not ck.mine(si):
            continue
        if ck.out_of_time():
            ck.observe("spot-checks-stopped-on-budget")
            break
        for size in (1, k - 1, k, k + 1, 5 * k + 3, 40 * k + (k - 1)):
            if size < 1:
                continue
            for path in ("immutable", "mutable"):
                data = rng.randbytes(size)
                shares = encode(path, k, N, data)
                if shares is None:
                    continue
                subs = [list(range(k)), list(range(N - k, N)), sorted(rng.sample(range(N), k)), rng.sample(range(N), k),
                        list(reversed(range(N - k, N)))]
                for sub in subs:
                    decode_case("spot-256", path, k, N, data, shares, tuple(sub))
    ck.extra["encodings"] = stats["encodings"]

    # ---- the callers' own padding / stripping code
    _callers(ck, codec, mathutil)

    ck.require_monitor("roundtrip-oracle", "encode-shape", "caller-roundtrip-immutable", "caller-roundtrip-mutable")
    ck.require_reach("padded-tail-encoded", "unpadded-segment-encoded", "secondary-blocks-used", "unsorted-share-order",
                     "caller-short-tail-immutable", "caller-short-tail-mutable")


# ----------------------------------------------------------------------------- caller-level workload
class _Status(object):
    def __getattr__(self, name):
        return lambda *a, **kw: None


def _callers(ck, codec, mathutil):
    from twisted.internet import defer
    from allmydata.immutable import encode as imm_encode
    from allmydata.immutable.downloader import node as dl_node
    from allmydata.mutable import publish, retrieve
    from allmydata.interfaces import MDMF_VERSION, SDMF_VERSION
    from allmydata.util import hashutil
    rng = ck.rng("callers")
    thorough = ck.tier == "thorough"

    class Uploadable(object):
        def __init__(self, data):
            self.data, self.pos = data, 0

        def read_encrypted(self, n, hash_only=False):
            chunk = self.data[self.pos:self.pos + n]
            self.pos += len(chunk)
            # EncryptAnUploadable returns a list of chunks
            return defer.succeed([chunk[:len(chunk) // 2], chunk[len(chunk) // 2:]])

    class Cap(object):
        pass

    def immutable_file(k, N, segsize, data):
        """Returns list of (segment_bytes, decoded_bytes) per segment, via the real encoder + downloader code."""
        e = imm_encode.Encoder()
        e.file_size = len(data)
        e._uploadable = Uploadable(data)
        e._crypttext_hasher = hashutil.crypttext_hasher()
        e._crypttext_hashes = []
        e._times = {"cumulative_encoding": 0.0}
        e._got_all_encoding_parameters((k, 1, N, segsize))
        nseg = e.num_segments
        # download side
        n = dl_node.DownloadNode.__new__(dl_node.DownloadNode)
        cap = Cap()
        cap.size, cap.needed_shares, cap.total_shares = len(data), k, N
        n._verifycap = cap
        n._download_status = _Status()
        r = n._calculate_sizes(segsize)
        n.segment_size = segsize
        n.tail_segment_size = r["tail_segment_size"]
        n.tail_segment_padded = r["tail_segment_padded"]
        n.num_segments = r["num_segments"]
        n.block_size = r["block_size"]
        n.tail_block_size = r["tail_block_size"]
        n._codec = codec.CRSDecoder()
        n._codec.set_params(segsize, k, N)
        if n.num_segments != nseg:
            return [("num_segments", nseg, n.num_segments)]
        out = []
        for seg in range(nseg):
            shares, ids = drive(e._encode_segment(seg, is_tail=(seg == nseg - 1)))
            sub = rng.sample(range(N), k)
            blocks = dict((i, bytes(shares[i])) for i in sub)      # dict order = arrival order
            segment, _t = drive(n._decode_blocks(seg, blocks))
            out.append((data[seg * segsize:(seg + 1) * segsize], bytes(segment), sub))
        return out

    class MData(object):
        def __init__(self, data):
            self.data, self.pos = data, 0

        def get_size(self):
            return len(self.data)

        def read(self, n):
            c = self.data[self.pos:self.pos + n]
            self.pos += len(c)
            return [c]

    class MNode(object):
        def __init__(self, readkey):
            self.readkey = readkey

        def get_readkey(self):
            return self.readkey

    def mutable_file(k, N, data, version, segsize_override=None):
        p = publish.Publish.__new__(publish.Publish)
        p._log_number = None
        p._version = version
        p.datalength = len(data)
        p.required_shares, p.total_shares = k, N
        p.data = MData(data)
        p._status = _Status()
        p.readkey = b"r" * 16
        if segsize_override is not None:
            saved = publish.DEFAULT_MUTABLE_MAX_SEGMENT_SIZE
            publish.DEFAULT_MUTABLE_MAX_SEGMENT_SIZE = segsize_override
        try:
            p.setup_encoding_parameters()
        finally:
            if segsize_override is not None:
                publish.DEFAULT_MUTABLE_MAX_SEGMENT_SIZE = saved
        segsize = p.segment_size
        r = retrieve.Retrieve.__new__(retrieve.Retrieve)
        r._log_number = None
        r._status = _Status()
        r._node = MNode(p.readkey)
        r.verinfo = (1, b"R" * 32, (b"" if version == MDMF_VERSION else b"I" * 16), segsize, len(data), k, N, b"prefix", ())
        r._offset, r._read_length, r._data_length = 0, len(data), len(data)
        r._setup_encoding_parameters()
        if r._num_segments != p.num_segments:
            return [("num_segments", p.num_segments, r._num_segments)]
        out = []
        for seg in range(p.num_segments):
            (shares_and_ids, salt) = drive(p._encode_segment(seg))
            shares, ids = shares_and_ids
            sub = rng.sample(range(N), k)
            blocks_and_salts = dict((i, (bytes(shares[i]), salt)) for i in sub)
            r._current_segment = seg
            segment_and_salt = drive(r._decode_blocks([blocks_and_salts], seg))
            plain = drive(r._decrypt_segment(segment_and_salt))
            out.append((data[seg * segsize:(seg + 1) * segsize], bytes(plain), sub))
        return out

    def judge(kind, k, N, segsize, size, fn):
        try:
            res = fn()
        except Exception as e:
            import traceback
            tb = traceback.extract_tb(e.__traceback__)
            where = "%s:%d" % (tb[-1].filename.split("/src/")[-1], tb[-1].lineno) if tb else "?"
            if tb and "/vf/checks/" in tb[-1].filename and isinstance(e, (AttributeError, TypeError)):
                # our stub is out of date with the private API: not a verdict
                ck.inconclusive_because("caller-level stub for %s broke: %s: %s at %s" % (kind, type(e).__name__, e, where))
                return
            ck.mon("caller-roundtrip-" + kind)
            ck.violation("caller-%s-raises" % kind,
                         "%s encode/decode of %d bytes (k=%d N=%d segsize=%d) raised %s: %s at %s"
                         % (kind, size, k, N, segsize, type(e).__name__, e, where),
                         {"kind": kind, "k": k, "N": N, "segsize": segsize, "size": size})
            return
        ck.mon("caller-roundtrip-" + kind, max(1, len(res)))
        for si, item in enumerate(res):
            if item[0] == "num_segments":
                ck.violation("caller-%s-segment-count-disagrees" % kind,
                             "writer computes %d segments, reader %d (size %d, k=%d, segsize=%d)" % (item[1], item[2], size, k, segsize),
                             {"kind": kind, "k": k, "N": N, "segsize": segsize, "size": size})
                break
            want, got, sub = item
            tail = si == len(res) - 1
            if tail and len(want) % k:
                ck.hit("caller-short-tail-" + kind)
            if want != got:
                ck.violation("caller-%s-%s-wrong-bytes" % (kind, "padded-tail" if (tail and len(want) % k) else "segment"),
                             "%s segment %d/%d (len %d, k=%d N=%d, shares %r) decoded to %d bytes that differ from what was encoded"
                             % (kind, si, len(res), len(want), k, N, sub[:12], len(got)),
                             {"kind": kind, "k": k, "N": N, "segsize": segsize, "size": size, "segnum": si,
                              "share_ids": sub[:64], "want": want[:48], "got": got[:48], "want_len": len(want), "got_len": len(got)})
                break
        ck.case("caller-" + kind, key=(kind, k, N, segsize, size), nontrivial=True,
                sample={"kind": kind, "k": k, "N": N, "segsize": segsize, "size": size, "segments": len(res)})

    ncases = 1200 if not thorough else 8000
    for i in range(ncases):
        if not ck.mine(i):
            continue
        if ck.out_of_time():
            ck.observe("caller-part-stopped-on-budget")
            break
        N = rng.choice((1, 2, 3, 5, 7, 10, 10, 16, 30, rng.randint(1, 40)))
        k = rng.choice((1, 2, 3, N, max(1, N - 1), rng.randint(1, N)))
        k = min(k, N)
        segsize = mathutil.next_multiple(rng.choice((1, k, 2 * k, 7, 64, 100, 1024)), k)
        nseg = rng.choice((1, 1, 2, 3, 5))
        tail = rng.choice((1, k - 1, k, k + 1, segsize - 1, segsize, rng.randint(1, segsize)))
        tail = min(max(1, tail), segsize)
        size = (nseg - 1) * segsize + tail
        data = rng.randbytes(size)
        judge("immutable", k, N, segsize, size, lambda: immutable_file(k, N, segsize, data))
        # mutable: SDMF = one segment of next_multiple(size,k); MDMF with a small max segment size
        if i % 2:
            judge("mutable", k, N, mathutil.next_multiple(size, k), size, lambda: mutable_file(k, N, data, SDMF_VERSION))
        else:
            judge("mutable", k, N, segsize, size, lambda: mutable_file(k, N, data, MDMF_VERSION, segsize_override=segsize))


# MUST_CATCH -- planted in a scratch copy (VF_REPO); quick tier, seed 0; all caught:
#  codec.CRSEncoder.set_params share_size = data_size // k (floor)         -> block-size-too-small, caller-mutable-padded-tail-wrong-bytes
#  encode.py padded_tail_size rounded down instead of next_multiple        -> caller-immutable-raises (downloader length assert)
#  downloader/node.py tail strip off by one                                -> caller-immutable-padded-tail-wrong-bytes
#  downloader/node.py tail_segment_padded rounded down                     -> caller-immutable-raises
#  codec.CRSDecoder.decode sorts the share ids but not the shares          -> share-order-dependent-decode (+ caller-* wrong bytes)
#  publish.py per-piece zero padding removed                               -> caller-mutable-raises
#  retrieve.py tail truncated to the padded instead of the data size       -> caller-mutable-padded-tail-wrong-bytes
#  publish.py tail_segment_size rounded down to a multiple of k            -> caller-mutable-padded-tail-wrong-bytes, caller-mutable-raises
#  codec.CRSEncoder.encode default ids drop the last share                 -> encoded-blocks-malformed
#  codec.CRSDecoder.decode reverses the shares only when k == N > 200      -> decode-wrong-bytes, padded-tail-decodes-wrong (spot-256 class)
# Hazard seen while self-testing: a break that hands zfec duplicate share ids makes zfec spin forever; the quick tier has no
# watchdog for that (thorough shards have one).  Duplicate ids are outside the statement and never generated.
