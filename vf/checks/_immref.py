"""Reference shares and an independent reader's-eye view of immutable share files (shared by C06 and C45)."""
import struct

from vf import env  # noqa

LEASE_SIZE = 72


def reference_shares(nservers, params, data, key):
    """Honest upload of `data` under `key` on an all-healthy scratch grid, read back after quiescence
    (vf.imm.honest_shares reads the directories as soon as the upload Deferred fires).
    Returns (cap, {shnum: raw share file bytes})."""
    from vf.grid import VGrid
    from vf import imm
    from allmydata import uri
    g = VGrid(nservers=nservers, seed=0, profile="fifo", keep_log=False)
    try:
        c = g.make_client(k=params["k"], happy=1, n=params["n"], max_segment_size=params["segsize"])
        st, res = g.wait(c.upload(imm.FixedKeyData(data, key)))
        if st != "ok":
            raise RuntimeError("scratch upload failed: %r" % (res,))
        g.sched.settle()
        out = {}
        for (vs, shnum, path) in g.find_shares(uri.from_string(res.get_uri()).get_storage_index()):
            with open(path, "rb") as f:
                out[shnum] = f.read()
        return res.get_uri(), out
    finally:
        g.close()


def share_data(raw):
    """Share data region of an immutable share file (without container header and leases)."""
    if len(raw) < 12:
        return None
    (nleases,) = struct.unpack(">L", raw[8:12])
    end = len(raw) - LEASE_SIZE * nleases
    if end < 12:
        return None
    return raw[12:end]


def lease_ids(raw):
    """Set of lease identities (owner number + renew/cancel secret hashes, without the expiry time)."""
    if len(raw) < 12:
        return set()
    (nleases,) = struct.unpack(">L", raw[8:12])
    out = set()
    for i in range(nleases):
        a = len(raw) - LEASE_SIZE * (nleases - i)
        if a < 12:
            continue
        out.add(bytes(raw[a:a + 68]))
    return out


def reader_view(data, block_size, num_segments, tail_block_size):
    """What a reader that follows the share's own offset table obtains: (blocks, ciphertext hash region, block hash
    region, share hash records as a set, URI extension bytes).  Reads are truncated at the end of the share data, as
    the storage server does.  Bytes no reader consults (block-size/data-size header fields, the plaintext hash tree
    area and its offset field, bytes past the URI extension, order of share-hash records) do not appear in the view.
    None when the header cannot be parsed."""
    if data is None or len(data) < 4:
        return None
    (ver,) = struct.unpack(">L", data[:4])
    if ver == 1:
        fs, x, fmt, need = 4, 0x0c, ">L", 0x24
    elif ver == 2:
        fs, x, fmt, need = 8, 0x14, ">Q", 0x44
    else:
        return None
    if len(data) < need:
        return None
    offs = [struct.unpack(fmt, data[x + i * fs:x + (i + 1) * fs])[0] for i in range(6)]
    o_data, _o_pt, o_ct, o_bh, o_sh, o_ueb = offs
    blocks = []
    for i in range(num_segments):
        ln = block_size if i < num_segments - 1 else tail_block_size
        a = o_data + i * block_size
        blocks.append(data[a:a + ln])
    ct = data[o_ct:o_bh] if o_bh >= o_ct else b""
    bh = data[o_bh:o_sh] if o_sh >= o_bh else b""
    shraw = data[o_sh:o_ueb] if o_ueb >= o_sh else b""
    if len(shraw) % 34 or o_ueb - o_sh != len(shraw):
        sh = ("unparseable", shraw)
    else:
        d = {}
        for i in range(0, len(shraw), 34):
            d[shraw[i:i + 2]] = shraw[i + 2:i + 34]     # later records win, as dict() does
        sh = frozenset(d.items())
    lnb = data[o_ueb:o_ueb + fs]
    if len(lnb) != fs:
        ueb = None
    else:
        (ln,) = struct.unpack(fmt, lnb)
        ueb = data[o_ueb + fs:o_ueb + fs + ln]
    return (ver, tuple(blocks), ct, bh, sh, ueb)
