"""C10 mutable reads return only published versions."""
META = {
    "level": "exploration",
    "technique": "runtime monitoring: set-membership oracle (bytes delivered by real mutable reads vs the recorded publish history) and an availability oracle (k untouched newest shares on answering servers) while a share adversary edits, substitutes, re-signs, forges and flaps SDMF/MDMF shares under seeded schedules",
    "text": "A history of 1..4 versions is published through the write-cap on the in-process grid (every plaintext recorded, share directories snapshotted after each publish). Then, per round, the newest snapshot is restored and one adversary family acts on 1, N-k, N-k+1 or all shares: every SDMF/MDMF header field and offset set to directed values, verification key, signature, share-hash chain, block-hash tree, blocks, per-segment salts / SDMF IV, encrypted private key, random flips, truncation, shares of another mutable file, older snapshots of the same share, other share numbers, shares re-signed with a harness RSA key, complete versions forged with the read-cap only (signed with another key, with the harness or the genuine verification key), blocks replaced with a consistently recomputed block-hash tree, servers that answer differently on successive reads (older snapshot, flipped bytes, IV changed after the first answer, no shares), and damage applied between servermap update and retrieve. Reads go through download_best_version() on fresh read-only, fresh read-write and the writer's node, get_best_readable_version().read(consumer, offset, size), and get_servermap(MODE_READ)+download_version() with the servermap itself and with ServerMap.copy(). Oracle: a success must deliver exactly (a slice of) one published plaintext, bytes streamed before a failure must be a prefix of such a slice; a failure of download_best_version() is a violation when k shares of the newest version are byte-identical to what the publisher wrote and sit on servers that answer every request.",
    "note": "Ground truth is the harness's own record (plaintexts it published, bytes it changed, snapshots it installed) and an independent struct-level share parser; forging uses the repository's hash/FEC/AES/RSA primitives as tools only. RSA keys come from a fixed pool and publish salts from a seeded stream so runs are reproducible. Sampled exploration.",
}
LEVEL = "exploration"
BUDGET = {"quick": 42, "thorough": 240}
SHARDS = {"quick": 1, "thorough": 12}

from vf import env  # noqa
import struct

FAMILIES = ["none", "hdr-field", "forged", "salt-iv", "rehash-block", "resign", "phase", "crossversion",
            "hdr-field", "block", "signature", "pubkey", "sharehash", "blockhash", "flap", "crossfile",
            "hdr-field", "forged", "phase", "encprivkey", "randflip", "truncate", "swapshnum", "delete",
            "server-fault", "container", "salt-iv", "flap", "rehash-block", "hdr-field", "dup-bad-copy",
            "truncate-inside", "poison-chain", "truncate-inside", "poison-chain", "truncate-inside",
            "late-segment", "late-segment", "sibling-cap", "sibling-cap"]

MAX_STEPS = 15000     # scheduler steps per read: a read of these sizes needs a few hundred

READ_KINDS = ["dbv-ro-fresh", "dbv-rw-fresh", "dbv-writer", "version-read", "smap-dlv", "smap-copy-dlv"]


def run(ck):
    import allmydata.mutable.publish as publish_mod
    default_seg = publish_mod.DEFAULT_MUTABLE_MAX_SEGMENT_SIZE
    real_os = publish_mod.os
    from vf.checks._mut import virtual_time_on
    undo_time = virtual_time_on()
    ck.rule = ("history = (format, k<=N, 1..N+2 servers, MDMF segment size, 1..4 published plaintexts incl. equal "
               "lengths, one- and many-segment, shares below and above the 4000-byte mapupdate read); round = newest "
               "snapshot restored + one adversary family on a subset of shares/servers (+ optionally a second damage "
               "between servermap update and retrieve) + 1..2 reads of a generated kind/range; distinct = (family, "
               "detail, format, k, N, sizes, read kind, range); non-trivial = something was damaged, substituted, "
               "forged or answered falsely")
    counter = [ck.shard * 7, ck.shard * 3, ck.shard * 5, ck.shard, ck.shard]
    i = 0
    try:
        while ck.more(min_cases=600 if ck.tier == "quick" else 0):   # not by wall clock alone (load: see DESIGN 8.4b)
            i += 1
            if not ck.mine(i):
                continue
            rng = ck.rng("case", i)
            # every fifth history is built for the mechanisms that need a particular shape of file and grid (several
            # MDMF segments, intact shares out of reach of a first bounded survey): directed cases, not chance
            h = History(ck, rng, counter, publish_mod, directed=((i // max(1, ck.nshards)) % 5 == 2))
            try:
                with ck.watchdog(240, "history %d %r" % (i, h.p)):
                    h.run()
            finally:
                h.close()
                publish_mod.DEFAULT_MUTABLE_MAX_SEGMENT_SIZE = default_seg
                publish_mod.os = real_os
            if ck.tier == "quick" and ck.evaluations >= 1100:
                break
    finally:
        publish_mod.DEFAULT_MUTABLE_MAX_SEGMENT_SIZE = default_seg
        publish_mod.os = real_os
        undo_time()
    ck.observe("eventual-exceptions", len(env.evq.exceptions))
    ck.require_monitor("membership-oracle", "availability-oracle", "prefix-oracle")
    ck.require_reach("read-ok-despite-damage", "read-failed", "must-succeed", "forged-version-not-delivered",
                     "resigned-share-not-delivered", "older-version-delivered", "newest-delivered",
                     "uncached-reader-read", "damage-between-mapupdate-and-retrieve", "sdmf", "mdmf",
                     "multi-segment-mdmf", "share-larger-than-mapupdate-read", "partial-read-ok",
                     "sibling-cap-read-ok", "late-segment-read-succeeded-on-its-second-survey",
                     "directed:late-sibling-rehash", "directed:sig-multi", "directed:dup-primary",
                     "directed:prefix-after-honest", "directed:sibling-cap", "directed:poison-chain",
                     "directed:truncate-inside")


def gen_params(rng, tier):
    fmt = rng.choice(["SDMF", "MDMF"])
    k, n = rng.choice([(1, 1), (1, 2), (1, 4), (2, 3), (2, 4), (2, 6), (3, 5), (3, 10), (2, 4), (1, 3)])
    nservers = max(1, rng.choice([n, n, n + 1, n + 2, n - 1, max(1, n // 2), 2 * k + 1]))
    segsize = rng.choice([16, 60, 100, 128, 1000, 4096])
    nver = rng.choice([1, 2, 2, 3, 3, 4])
    sizes = []
    for j in range(nver):
        r = rng.random()
        if sizes and r < .3:
            sizes.append(sizes[-1])                # same length, other content: blocks interchangeable by size
        elif r < .4:
            sizes.append(rng.randint(1, 20))
        elif r < .8:
            sizes.append(rng.randint(20, 700))
        elif r < .9:
            sizes.append(rng.choice([segsize, segsize + 1, 2 * segsize, 3 * segsize - 1, k * 7]))
        else:
            sizes.append(rng.randint(4200, 9000 if tier == "quick" else 30000))
    if fmt == "MDMF":
        while max(sizes) // max(1, (segsize + k - 1) // k * k) > 40:
            segsize *= 4
    if fmt == "SDMF" and rng.random() < .04:
        sizes[rng.randrange(len(sizes))] = 0
    return dict(fmt=fmt, k=k, n=n, nservers=nservers, segsize=segsize, sizes=sizes,
                profile=rng.choice(["fifo", "per-server-fifo", "free"]))


class Damage(object):
    """What one adversary action did (ground truth for the oracles)."""

    def __init__(self):
        self.desc = []
        self.changed = 0
        self.older = False          # validly signed shares of an older version may be visible
        self.lying = set()          # server indexes whose answers are altered or that fail requests
        self.forged = False
        self.resigned = False
        self.hung = False
        self.sibling = None         # a forged read-cap (same read key, the harness's fingerprint) opened first

    def note(self, s):
        if len(self.desc) < 8:
            self.desc.append(s)


class History(object):
    def __init__(self, ck, rng, counter, publish_mod, directed=False):
        self.ck, self.rng, self.counter, self.publish_mod = ck, rng, counter, publish_mod
        self.p = gen_params(rng, ck.tier)
        self.directed = None
        if directed:
            shape = counter[4] % 4
            counter[4] += 1
            prof = rng.choice(["fifo", "per-server-fifo", "free"])
            if shape == 0:
                # several MDMF segments, more servers than 2k + k: intact shares can lie beyond a first bounded survey
                k, n = rng.choice([(1, 4), (2, 6), (1, 3), (3, 10), (1, 4)])
                segsize = rng.choice([60, 100, 128, 250])
                seg = (segsize + k - 1) // k * k
                self.p = dict(fmt="MDMF", k=k, n=n, nservers=n + rng.choice([1, 2, 3]), segsize=segsize,
                              sizes=[rng.randint(2, 7) * seg + rng.randint(1, seg - 1) for _ in range(rng.choice([1, 2]))],
                              profile=prof)
                self.directed = ["late-segment", "late-sibling-rehash", "late-segment", "sibling-cap", "late-segment",
                                 "late-sibling-rehash", "poison-chain", "late-segment"]
            elif shape == 1:
                # fewer servers than shares: every server holds several shares
                k, n = rng.choice([(2, 4), (2, 6), (3, 6), (1, 4), (2, 8)])
                self.p = dict(fmt=rng.choice(["SDMF", "MDMF"]), k=k, n=n, nservers=max(1, n // 2), segsize=rng.choice([60, 128]),
                              sizes=[rng.randint(20, 500) for _ in range(rng.choice([1, 2]))], profile=prof)
                self.directed = ["sig-multi", "sig-multi", "hdr-field", "sig-multi", "signature", "sig-multi", "crossfile",
                                 "sig-multi"]
            elif shape == 2:
                # k >= 2: a second, damaged copy of a PRIMARY share (share number < k) on another server
                k, n = rng.choice([(2, 4), (3, 5), (2, 3), (3, 10), (2, 6)])
                self.p = dict(fmt=rng.choice(["SDMF", "MDMF"]), k=k, n=n, nservers=n + rng.choice([1, 2]),
                              segsize=rng.choice([60, 128]), sizes=[rng.randint(40, 600) for _ in range(rng.choice([1, 2]))],
                              profile=prof)
                self.directed = ["dup-primary", "dup-primary", "dup-bad-copy", "dup-primary", "block", "dup-primary",
                                 "dup-primary", "rehash-block"]
            else:
                # SDMF: a signed field other than seqnum / root hash edited in all shares but one or two
                k, n = rng.choice([(1, 4), (2, 4), (2, 6), (3, 10), (1, 3)])
                self.p = dict(fmt="SDMF", k=k, n=n, nservers=n + rng.choice([0, 1, 2]), segsize=128,
                              sizes=[rng.randint(20, 600) for _ in range(rng.choice([1, 2]))], profile=prof)
                self.directed = ["prefix-after-honest", "prefix-after-honest", "salt-iv", "prefix-after-honest",
                                 "hdr-field", "prefix-after-honest", "resign", "prefix-after-honest"]
        self.g = None

    def close(self):
        if self.g is not None:
            self.g.close()
            self.g = None

    # ------------------------------------------------------------ build
    def build(self):
        from vf.grid import VGrid
        from vf.checks import _mut as M
        from allmydata.mutable.publish import MutableData
        from allmydata.crypto import rsa
        ck, rng, p = self.ck, self.rng, self.p
        self.M = M
        keys = M.use_fixed_keypool(rng.randrange(10))
        self.k2 = keys[5]
        self.k2_der = rsa.der_string_from_verifying_key(self.k2[1])
        self.publish_mod.os = M.DetOS(ck.rng("salts", rng.getrandbits(32)))
        self.publish_mod.DEFAULT_MUTABLE_MAX_SEGMENT_SIZE = p["segsize"]
        self.g = g = VGrid(nservers=p["nservers"], seed=rng.getrandbits(32), profile=p["profile"], keep_log=True)
        self.c = c = g.make_client(k=p["k"], happy=1, n=p["n"], mutable_format=p["fmt"])
        self.plain = [rng.randbytes(s) for s in p["sizes"]]
        for j in range(1, len(self.plain)):            # distinct contents
            while self.plain[j] in self.plain[:j] and len(self.plain[j]) > 0:
                self.plain[j] = rng.randbytes(len(self.plain[j]))
        st, node = g.wait(c.create_mutable_file(MutableData(self.plain[0])))
        if st != "ok":
            ck.observe("create-failed")
            return False
        self.node = node
        self.si = node.get_storage_index()
        self.snaps = [M.snapshot(g, self.si)]
        for j in range(1, len(self.plain)):
            if rng.random() < .25:
                new = self.plain[j]
                st, r = g.wait(node.modify(lambda old, sm, first, new=new: new))
            else:
                st, r = g.wait(node.overwrite(MutableData(self.plain[j])))
            if st != "ok":
                ck.observe("publish-failed")
                self.plain = self.plain[:j]
                break
            self.snaps.append(M.snapshot(g, self.si))
        self.published = list(self.plain)
        self.rw_uri = node.get_uri()
        self.ro_uri = node.get_readonly_uri()
        self.readkey = node.get_readkey()
        # another mutable file (other key) for cross-file substitution
        st, other = g.wait(c.create_mutable_file(MutableData(rng.randbytes(max(1, p["sizes"][-1])))))
        self.other = M.snapshot(g, other.get_storage_index()) if st == "ok" else {}
        # ground truth about the newest version, from the harness's own parser
        newest = [ms for (_, _, ms) in M.disk_shares(g, self.si)]
        if not newest or newest[0].fmt is None:
            ck.observe("no-shares-after-publish")
            return False
        self.k_newest = p["k"]
        self.genuine_ivs = {}
        for j, snap in enumerate(self.snaps):
            for idx, d in snap.items():
                for shnum, raw in d.items():
                    v = M.MutShare(raw=raw)
                    if v.fmt == "SDMF":
                        self.genuine_ivs[j] = bytes(v.f["IV"])
        self.injected_ivs = set()
        ck.hit(p["fmt"].lower())
        if p["fmt"] == "MDMF" and newest[0].num_segments() > 1:
            ck.hit("multi-segment-mdmf")
        if len(newest[0].data) > 4000:
            ck.hit("share-larger-than-mapupdate-read")
        return True

    # ------------------------------------------------------------ rounds
    def run(self):
        if not self.build():
            return
        rounds = 5 if self.ck.tier == "quick" else 8
        self.runaway = False
        for r in range(rounds):
            if not self.ck.more(min_cases=600 if self.ck.tier == "quick" else 0) or self.runaway:
                break
            if self.directed:
                fam = self.directed[r % len(self.directed)]
            else:
                fam = FAMILIES[self.counter[0] % len(FAMILIES)]
                self.counter[0] += 1
            if fam == "hdr-field":
                self.counter[1] += 1
            if fam == "truncate-inside":
                self.counter[2] += 1
            if fam == "poison-chain":
                self.counter[3] += 1
            self.one_round(fam, self.counter[2] if fam == "truncate-inside" else
                           (self.counter[3] if fam == "poison-chain" else self.counter[1]))

    def reset(self):
        g = self.g
        self.M.install_all(g, self.si, self.snaps[-1])
        g.mutate_response = None
        g.pre_delivery = None
        g.post_delivery = None
        for vs in g.servers:
            vs.faults = []
            vs.hung = []
            if not vs.connected:
                vs.start()
            vs.zombie = False
            vs.hidden = False

    def one_round(self, fam, sweep):
        ck, rng, g, p = self.ck, self.rng, self.g, self.p
        g.sched.settle()
        self.reset()
        dmg = Damage()
        between = None
        if fam == "phase":
            kind = rng.choice(["version-read", "smap-dlv", "smap-copy-dlv", "smap-copy-dlv"])
            sub = rng.choice(["salt-iv", "salt-iv", "crossversion", "block", "randflip", "crossfile", "hdr-field",
                              "rehash-block", "forged"])
            between = lambda: self.apply(sub, dmg, sweep)   # noqa: E731
            dmg.note("between-phases:" + sub)
        else:
            try:
                self.apply(fam, dmg, sweep)
            except Skip as e:
                dmg.note("skipped(%s)" % e)
            kind = rng.choice(READ_KINDS + ["dbv-ro-fresh", "dbv-rw-fresh"])
            if fam == "flap" and rng.random() < .5:
                kind = rng.choice(["smap-copy-dlv", "version-read", "dbv-ro-fresh"])
            if fam in ("truncate-inside", "poison-chain"):
                kind = rng.choice(["dbv-ro-fresh", "dbv-rw-fresh", "dbv-writer", "dbv-rw-fresh"])
            if fam == "late-segment":
                kind = rng.choice(["dbv-rw-fresh", "dbv-writer", "dbv-rw-fresh", "dbv-ro-fresh"])
            if fam == "sibling-cap":
                kind = rng.choice(["dbv-ro-fresh", "dbv-ro-fresh", "version-read", "smap-dlv"])
            if fam in ("late-sibling-rehash", "sig-multi", "dup-primary", "prefix-after-honest"):
                kind = rng.choice(["dbv-ro-fresh", "dbv-rw-fresh", "dbv-rw-fresh", "dbv-writer"])
            if rng.random() < .15 and kind in ("version-read", "smap-dlv", "smap-copy-dlv"):
                sub = rng.choice(["salt-iv", "crossversion", "block"])
                between = lambda: self.apply(sub, dmg, sweep)   # noqa: E731
                dmg.note("between-phases:" + sub)
        nreads = 1 if kind.startswith("smap") else rng.choice([1, 1, 2])
        for _ in range(nreads):
            if self.runaway:
                break
            self.read(kind, fam, dmg, between)
            between = None

    # ------------------------------------------------------------ adversary
    def victims(self, need_parsed=True):
        rng = self.rng
        shares = self.M.disk_shares(self.g, self.si)
        if need_parsed:
            shares = [s for s in shares if s[2].fmt is not None]
        if not shares:
            raise Skip("no shares")
        k = self.k_newest
        nd = rng.choice([1, 1, max(1, len(shares) - k), max(1, len(shares) - k + 1), len(shares), len(shares)])
        return rng.sample(shares, min(len(shares), nd)), shares

    def apply(self, fam, dmg, sweep=0):
        """Apply one adversary family to the grid; record ground truth in dmg."""
        M, rng, g, p = self.M, self.rng, self.g, self.p
        newest_j = len(self.snaps) - 1
        if fam == "none":
            return
        if fam == "delete":
            vic, _ = self.victims(False)
            import os
            for (idx, shnum, ms) in vic:
                os.unlink(ms.path)
                dmg.changed += 1
            dmg.note("deleted %d" % len(vic))
            return
        if fam == "server-fault":
            n = rng.randint(1, max(1, len(g.servers) - 1))
            for vs in rng.sample(g.servers, n):
                act = rng.choice(["raise", "raise-nth", "disconnect", "delay", "dead", "hang"])
                dmg.lying.add(vs.index)
                if act == "raise":
                    vs.add_fault("raise", method="slot_readv")
                elif act == "raise-nth":
                    vs.add_fault("raise", method="slot_readv", nth=rng.randint(1, 3))
                elif act == "disconnect":
                    vs.add_fault("disconnect", method="slot_readv", nth=rng.randint(1, 2))
                elif act == "delay":
                    vs.add_fault("delay", method="slot_readv", delay=rng.choice([0.5, 5.0, 30.0]))
                elif act == "dead":
                    vs.disconnect()
                    vs.zombie = rng.random() < .5
                else:
                    vs.add_fault("hang", method="slot_readv", nth=rng.randint(1, 2))
                    dmg.hung = True
                dmg.note("s%d:%s" % (vs.index, act))
                dmg.changed += 1
            return
        if fam == "flap":
            self.install_flap(dmg)
            return
        if fam == "container":
            vic, _ = self.victims(False)
            for (idx, shnum, ms) in vic[:2]:
                raw = bytearray(ms.raw0)
                what = rng.choice(["magic", "data_length", "extra_lease_offset", "write_enabler"])
                if what == "magic":
                    raw[rng.randrange(32)] ^= 1 << rng.randrange(8)
                elif what == "data_length":
                    raw[84:92] = struct.pack(">Q", rng.choice([0, 1, len(ms.data) - 1, len(ms.data) + 1, 2 ** 40]))
                elif what == "extra_lease_offset":
                    raw[92:100] = struct.pack(">Q", rng.choice([0, 468, len(raw) + 5, 2 ** 40]))
                else:
                    raw[52 + rng.randrange(32)] ^= 1
                with open(ms.path, "wb") as f:
                    f.write(bytes(raw))
                if what != "write_enabler":
                    dmg.lying.add(idx)        # the server may fail or truncate every answer for this bucket
                dmg.changed += 1
                dmg.note("s%d sh%d container.%s" % (idx, shnum, what))
            return

        if fam == "truncate-inside":
            # shares the Retrieve will activate first (lowest share numbers), cut short at a position walked
            # deterministically through every structural boundary -1/0/+1 and through aligned and non-aligned
            # positions inside every variable-length section
            shares = sorted([x for x in M.disk_shares(g, self.si) if x[2].fmt is not None], key=lambda x: x[1])
            if not shares:
                raise Skip("no shares")
            k = self.k_newest
            nv = rng.choice([1, 1, max(1, min(k, len(set(x[1] for x in shares)) - k))])
            lowest = sorted(set(x[1] for x in shares))[:nv]
            for (idx, shnum, ms) in shares:
                if shnum not in lowest:
                    continue
                cands = set()
                for name, (s_, e_) in ms.regions().items():
                    if e_ <= s_ or s_ > len(ms.data):
                        continue
                    e2 = min(e_, len(ms.data))
                    cands.update([s_ - 1, s_, s_ + 1, e2 - 1])
                    es = {"share_hash_chain": 34, "block_hash_tree": 32}.get(name)
                    if es:
                        for j in range(min(8, max(1, (e2 - s_) // es))):
                            base = s_ + es * j
                            cands.update([base, base + 1, base + 2, base + es // 2, base + es - 1])
                    else:
                        cands.update([s_ + (e2 - s_) // 2, s_ + (e2 - s_) // 3 + 1, s_ + 16, s_ + 17])
                cands = sorted(c for c in cands if 0 <= c < len(ms.data))
                pos = cands[sweep % len(cands)]
                where = [n for n, (s_, e_) in ms.regions().items() if s_ <= pos < e_]
                ms.truncate_data(pos)
                ms.save()
                dmg.changed += 1
                dmg.note("s%d sh%d cut@%d (%s+%d)" % (idx, shnum, pos, where[0] if where else "?",
                                                     pos - ms.regions()[where[0]][0] if where and ms.fmt else 0))
            return
        if fam == "poison-chain":
            self.poison(dmg, sweep)
            return
        if fam == "sibling-cap":
            # A holder of the read-cap (with the servers' help) stores a complete version signed with HIS key under the
            # file's storage index, encrypted under the file's read key, and hands the victim the sibling cap
            # <same read key>:<fingerprint of his key>.  The victim's client opens that cap first and keeps the node alive;
            # a read through the genuine read-cap must still never deliver his text.
            from allmydata.util import hashutil
            from allmydata import uri as _uri
            shares = [x for x in M.disk_shares(g, self.si) if x[2].fmt is not None]
            if not shares:
                raise Skip("no shares")
            sample = shares[0][2]
            text = b"SIBLING:" + rng.randbytes(rng.choice([20, 300, len(self.published[-1]) or 20]))
            forged = M.forge_version(p["fmt"], self.readkey, self.k2[0], self.k2_der,
                                     sample.f["seqnum"] + rng.choice([0, 1, 5]), text, sample.f["k"], sample.f["N"],
                                     p["segsize"], rng)
            keep_genuine = rng.choice([0, 0, 1, max(0, sample.f["k"] - 1)])
            for n_, (idx, shnum, ms) in enumerate(sorted(shares, key=lambda x: -x[1])):
                if n_ < keep_genuine or shnum not in forged:
                    continue
                ms.replace_data(forged[shnum])
                ms.save()
                dmg.changed += 1
            genuine = _uri.from_string(self.ro_uri)
            fp = hashutil.ssk_pubkey_fingerprint_hash(self.k2_der)
            dmg.sibling = genuine.__class__(genuine.readkey, fp).to_string()
            dmg.forged = True
            dmg.note("forged version under the harness key in every share but %d; sibling cap with that key's "
                     "fingerprint opened first by the same client" % keep_genuine)
            return
        if fam == "late-segment":
            # multi-segment file: the shares a first (bounded) survey finds are all damaged in a block of a LATER
            # segment, so a read delivers the first segment(s) and only then runs out of shares; k intact shares sit on
            # the servers last in permuted order, where only the retry's wider survey looks
            shares = [x for x in M.disk_shares(g, self.si) if x[2].fmt is not None]
            if not shares or shares[0][2].num_segments() < 2:
                raise Skip("single segment")
            k = self.k_newest
            order = [s_.vserver.index for s_ in self.c.storage_broker.get_servers_for_psi(self.si)]
            by_server = {}
            for x in shares:
                by_server.setdefault(x[0], []).append(x)
            keep, kept = set(), set()
            for idx in reversed(order):              # intact shares: on the last servers, k distinct share numbers
                if len(kept) >= k:
                    break
                if idx in by_server:
                    keep.add(idx)
                    kept |= set(x[1] for x in by_server[idx])
            nseg = shares[0][2].num_segments()
            seg = rng.choice([1, nseg - 1, rng.randrange(1, nseg)])
            for (idx, shnum, ms) in shares:
                if idx in keep:
                    continue
                salt_span, (bs, be) = ms.block_span(seg)
                if be <= bs:
                    continue
                ms.flip(bs + rng.randrange(be - bs), 1 << rng.randrange(8))
                ms.save()
                dmg.changed += 1
            dmg.note("block of segment %d flipped in every share except those on servers %s" % (seg, sorted(keep)))
            return
        if fam == "late-sibling-rehash":
            # k = 1, several segments: share 0 is fine up to a later segment, where one block bit is flipped; share 1 (its
            # sibling leaf: after share 0 was validated the share hash tree holds everything on share 1's path, so no
            # chain is fetched for it) carries forged blocks under a consistently recomputed block hash tree
            shares = {x[1]: x for x in M.disk_shares(g, self.si) if x[2].fmt is not None}
            if self.k_newest != 1 or 0 not in shares or 1 not in shares or shares[0][2].num_segments() < 2:
                raise Skip("needs k=1 and several segments")
            nseg = shares[0][2].num_segments()
            seg = rng.randrange(1, nseg)
            ms0, ms1 = shares[0][2], shares[1][2]
            _, (bs, be) = ms0.block_span(seg)
            ms0.flip(bs + rng.randrange(be - bs), 1 << rng.randrange(8))
            ms0.save()
            for s_ in range(nseg):
                _, (bs, be) = ms1.block_span(s_)
                ms1.write_at(bs, rng.randbytes(be - bs))
            if not M.rehash_blocks(ms1):
                raise Skip("rehash")
            ms1.save()
            dmg.changed += 2
            dmg.note("sh0 block of segment %d flipped; sh1 all blocks forged with a recomputed block hash tree" % seg)
            return
        if fam == "sig-multi":
            # servers that hold several shares: on each of them all shares but one get a signed header field edited
            # (found by the survey); the untouched ones are enough to read the file
            by_server = {}
            for x in M.disk_shares(g, self.si):
                if x[2].fmt is not None:
                    by_server.setdefault(x[0], []).append(x)
            for idx, lst in sorted(by_server.items()):
                if len(lst) < 2:
                    continue
                keep = rng.choice(lst)[1]
                for (idx_, shnum, ms) in lst:
                    if shnum == keep:
                        continue
                    name = rng.choice(["seqnum", "root_hash", "datalen"])
                    if name == "root_hash":
                        b = bytearray(ms.f["root_hash"])
                        b[rng.randrange(32)] ^= 1 << rng.randrange(8)
                        ms.set_field(name, bytes(b))
                    else:
                        ms.set_field(name, ms.f[name] + 1)
                    ms.save()
                    dmg.changed += 1
            if not dmg.changed:
                raise Skip("one share per server")
            dmg.note("on every server all shares but one: signed header field edited")
            return
        if fam == "prefix-after-honest":
            # SDMF: the IV (signed, but neither seqnum nor root hash) set to ff..ff in all shares but one or two: the
            # edited shares claim the same (seqnum, root hash) as the honest ones that may be processed before them
            shares = [x for x in M.disk_shares(g, self.si) if x[2].fmt == "SDMF"]
            if len(shares) < 2:
                raise Skip("needs SDMF with two shares")
            honest = set(x[1] for x in rng.sample(shares, rng.choice([1, 1, 2]) if len(shares) > 2 else 1))
            iv = rng.choice([b"\xff" * 16, b"\xff" * 15 + b"\xfe", bytes([255 - rng.randrange(3)]) + rng.randbytes(15)])
            for (idx, shnum, ms) in shares:
                if shnum in honest:
                    continue
                ms.set_field("IV", iv)
                ms.save()
                dmg.changed += 1
            self.injected_ivs.add(iv)
            dmg.note("IV replaced in every share but %s" % sorted(honest))
            return
        if fam in ("dup-bad-copy", "dup-primary"):
            # the same share number on two servers, one of the two copies damaged below the signed prefix
            shares = [x for x in M.disk_shares(g, self.si) if x[2].fmt is not None and x[2].num_segments() > 0]
            if fam == "dup-primary":
                shares = [x for x in shares if x[1] < self.k_newest]
            if not shares:
                raise Skip("no shares")
            for (idx, shnum, ms) in rng.sample(shares, min(len(shares), rng.choice([1, 1, 2, len(shares)]))):
                cands = [vs for vs in g.servers if vs.index != idx and shnum not in vs.shares_of(self.si)]
                if not cands:
                    continue
                vs2 = rng.choice(cands)
                copy = M.MutShare(raw=ms.raw0)
                copy.container[32:52] = vs2.serverid
                copy.container[52:84] = self.node.get_write_enabler(vs2.iserver)
                victim = rng.choice([ms, copy])
                salt_span, (bs, be) = victim.block_span(rng.randrange(victim.num_segments()))
                if salt_span and rng.random() < .3:
                    victim.flip(salt_span[0] + rng.randrange(16), 1 << rng.randrange(8))
                else:
                    victim.flip(bs + rng.randrange(max(1, be - bs)), 1 << rng.randrange(8))
                import os
                os.makedirs(vs2.sharedir(self.si), exist_ok=True)
                copy.save(os.path.join(vs2.sharedir(self.si), "%d" % shnum))
                ms.save()
                dmg.changed += 1
                dmg.note("sh%d on s%d and s%d, %s copy damaged" % (shnum, idx, vs2.index,
                                                                 "original" if victim is ms else "second"))
            return
        vic, allshares = self.victims()
        # one decision per action so that the same edit hits every victim consistently
        plan = {}
        if fam == "forged":
            sample = allshares[0][2]
            variant = rng.choice(["k2-key", "k2-key", "genuine-key-k2-sig", "genuine-key-garbage-sig"])
            seq = sample.f["seqnum"] + rng.choice([1, 1, 0, 5, 1000, -1])
            text = b"FORGED:" + rng.randbytes(rng.choice([10, len(self.published[-1]) or 10, 500]))
            pub = self.k2_der if variant == "k2-key" else sample.region_bytes("verification_key")
            encpriv = sample.region_bytes("enc_privkey") if rng.random() < .5 else None
            plan["forged"] = M.forge_version(p["fmt"], self.readkey, self.k2[0], pub, max(1, seq), text,
                                             sample.f["k"], sample.f["N"], p["segsize"], rng, encprivkey=encpriv,
                                             bad_signature=(variant == "genuine-key-garbage-sig"))
            dmg.forged = True
            dmg.note("forged %s seq=%d len=%d" % (variant, seq, len(text)))
            if rng.random() < .5:
                vic = allshares            # a complete forged version, nothing genuine left
        for (idx, shnum, ms) in vic:
            try:
                d = self.edit_share(fam, ms, idx, shnum, dmg, plan, sweep, allshares)
            except Skip as e:
                d = "skipped(%s)" % e
            except (struct.error, ValueError, IndexError, KeyError) as e:
                d = "skipped(%s)" % type(e).__name__
            if d and not d.startswith("skipped"):
                dmg.changed += 1
            dmg.note("s%d sh%d %s" % (idx, shnum, d))
        # remember every IV the harness planted into an SDMF header (to classify wrong-plaintext witnesses)
        for (_, _, ms) in M.disk_shares(g, self.si):
            if ms.fmt == "SDMF" and bytes(ms.f["IV"]) not in self.genuine_ivs.values():
                self.injected_ivs.add(bytes(ms.f["IV"]))

    def edit_share(self, fam, ms, idx, shnum, dmg, plan, sweep, allshares):
        M, rng = self.M, self.rng
        newest_j = len(self.snaps) - 1

        def once(key, fn):
            if key not in plan:
                plan[key] = fn()
            return plan[key]

        if fam == "hdr-field":
            names = ms.field_names()
            name = once("name", lambda: names[sweep % len(names)])
            old = ms.f[name]
            if isinstance(old, bytes):
                mode = once("mode", lambda: rng.choice(["flipbit", "random", "zero"]))
                pos, bit = once("pos", lambda: (rng.randrange(len(old)), 1 << rng.randrange(8)))
                if mode == "flipbit":
                    b = bytearray(old)
                    b[pos] ^= bit
                    new = bytes(b)
                elif mode == "random":
                    new = once("rnd", lambda: rng.randbytes(len(old)))
                else:
                    new = b"\x00" * len(old)
            else:
                width = ms.field_span(name)[1]
                other = once("otherfield", lambda: rng.choice([n for n in names if not isinstance(ms.f[n], bytes)]))
                choice = once("choice", lambda: rng.randrange(9))
                new = [0, old + 1, max(0, old - 1), old * 2, (1 << (8 * width)) - 1, ms.f[other], old + 32,
                       len(ms.data), rng.randrange(1 << min(20, 8 * width))][choice]
                if name == "version":
                    new = once("ver", lambda: rng.choice([1 - old if old in (0, 1) else 0, 2, 255]))
            ms.set_field(name, new)
            ms.save()
            return "%s:%r->%r" % (name, old if not isinstance(old, bytes) else old[:4].hex(),
                                  new if not isinstance(new, bytes) else new[:4].hex())
        if fam == "salt-iv":
            if ms.fmt == "SDMF":
                pos, bit = once("pos", lambda: (rng.randrange(16), 1 << rng.randrange(8)))
                iv = bytearray(ms.f["IV"])
                iv[pos] ^= bit
                ms.set_field("IV", bytes(iv))
                ms.save()
                return "IV^%d@%d" % (bit, pos)
            nseg = ms.num_segments()
            if not nseg:
                raise Skip("empty")
            seg = once("seg", lambda: rng.choice([0, nseg - 1, rng.randrange(nseg)]))
            pos, bit = once("pos", lambda: (rng.randrange(16), 1 << rng.randrange(8)))
            (ss, se), _ = ms.block_span(seg)
            ms.flip(ss + pos, bit)
            ms.save()
            return "salt[%d]^%d@%d" % (seg, bit, pos)
        if fam in ("pubkey", "signature", "encprivkey", "blockhash"):
            region = {"pubkey": "verification_key", "signature": "signature", "encprivkey": "enc_privkey",
                      "blockhash": "block_hash_tree"}[fam]
            s, e = ms.regions()[region]
            if e <= s or e > len(ms.data):
                raise Skip("empty region")
            mode = once("mode", lambda: rng.choice(["flip", "flip", "random", "zero", "k2"]))
            if mode == "k2" and fam == "pubkey" and e - s == len(self.k2_der):
                ms.set_region(region, self.k2_der)
            elif mode == "k2" and fam == "signature":
                from allmydata.crypto import rsa
                sig = rsa.sign_data(self.k2[0], ms.prefix())
                if len(sig) != e - s:
                    raise Skip("siglen")
                ms.set_region(region, sig)
            elif mode == "random":
                ms.set_region(region, rng.randbytes(e - s))
            elif mode == "zero":
                ms.set_region(region, b"\x00" * (e - s))
            else:
                mode = "flip"
                off = once("off", lambda: rng.randrange(e - s))
                ms.flip(s + min(off, e - s - 1), 1 << rng.randrange(8))
            ms.save()
            return "%s %s" % (region, mode)
        if fam == "sharehash":
            s, e = ms.regions()["share_hash_chain"]
            n = (e - s) // 34
            if n <= 0:
                raise Skip("no chain")
            j = rng.randrange(n)
            act = once("act", lambda: rng.choice(["num", "hash", "swap", "zero", "drop-all"]))
            if act == "num":
                ms.write_at(s + j * 34, struct.pack(">H", rng.choice([0, 1, 2, 0xFFFF, rng.randrange(64)])))
            elif act == "hash":
                ms.flip(s + j * 34 + 2 + rng.randrange(32), 1 << rng.randrange(8))
            elif act == "swap" and n > 1:
                j2 = (j + 1) % n
                a = bytes(ms.data[s + j * 34:s + j * 34 + 34])
                b = bytes(ms.data[s + j2 * 34:s + j2 * 34 + 34])
                ms.write_at(s + j * 34, b)
                ms.write_at(s + j2 * 34, a)
            elif act == "drop-all":
                # an empty chain: offsets say the chain has zero length
                if ms.fmt == "SDMF":
                    ms.set_field("o_block_hash_tree", ms.f["o_share_hash_chain"])
                else:
                    ms.set_field("o_signature", ms.f["o_share_hash_chain"])
            else:
                ms.write_at(s + j * 34 + 2, b"\x00" * 32)
            ms.save()
            return "chain %s[%d]" % (act, j)
        if fam in ("block", "rehash-block"):
            nseg = ms.num_segments()
            if not nseg:
                raise Skip("empty")
            seg = once("seg", lambda: rng.choice([0, nseg - 1, rng.randrange(nseg)]))
            _, (bs, be) = ms.block_span(seg)
            if be <= bs or be > len(ms.data):
                raise Skip("noblock")
            mode = rng.choice(["flip", "random", "zero", "other-seg"])
            if mode == "flip":
                ms.flip(bs + rng.randrange(be - bs), 1 << rng.randrange(8))
            elif mode == "random":
                ms.write_at(bs, rng.randbytes(be - bs))
            elif mode == "zero":
                if bytes(ms.data[bs:be]) == b"\x00" * (be - bs):
                    ms.write_at(bs, b"\x01" * (be - bs))
                else:
                    ms.write_at(bs, b"\x00" * (be - bs))
            else:
                _, (b2s, b2e) = ms.block_span(rng.randrange(nseg))
                src = bytes(ms.data[b2s:b2e]).ljust(be - bs, b"\x07")[:be - bs]
                if src == bytes(ms.data[bs:be]):
                    src = bytes(x ^ 1 for x in src)
                ms.write_at(bs, src)
            if fam == "rehash-block":
                if not M.rehash_blocks(ms):
                    raise Skip("rehash")
            ms.save()
            return "%s seg%d %s" % (fam, seg, mode)
        if fam == "randflip":
            offs = []
            for _ in range(rng.randint(1, 4)):
                off = rng.randrange(len(ms.data))
                ms.flip(off, 1 << rng.randrange(8))
                offs.append(off)
            ms.parse()
            ms.save()
            return "flips@%s" % offs
        if fam == "truncate":
            cands = [0, 1, 74, 75, 106, 107, 122, 123, len(ms.data) - 1, rng.randrange(len(ms.data))]
            for (s, e) in ms.regions().values():
                cands += [s - 1, s, s + 1, e - 1]
            newlen = max(0, min(len(ms.data) - 1, rng.choice(cands)))
            ms.truncate_data(newlen)
            ms.save()
            return "truncate@%d" % newlen
        if fam == "crossfile":
            cands = [(i2, sh2, raw) for i2, d in self.other.items() for sh2, raw in d.items()]
            if not cands:
                raise Skip("no other file")
            same = [c for c in cands if c[1] == shnum]
            (i2, sh2, raw) = rng.choice(same if same and rng.random() < .7 else cands)
            if rng.random() < .5:
                ms.replace_data(M.share_data_of(raw))     # other file's share inside this slot's container
                ms.save()
            else:
                with open(ms.path, "wb") as f:               # whole container file copied
                    f.write(raw)
            return "other-file sh%d" % sh2
        if fam == "crossversion":
            if newest_j == 0:
                raise Skip("single version")
            j = once("j", lambda: rng.randrange(newest_j))
            old = self.snaps[j].get(idx, {}).get(shnum)
            if old is None:
                cands = [raw for d in self.snaps[j].values() for sh2, raw in d.items() if sh2 == shnum]
                if not cands:
                    raise Skip("no older share")
                old = cands[0]
            with open(ms.path, "wb") as f:
                f.write(old)
            dmg.older = True
            return "snapshot v%d" % j
        if fam == "swapshnum":
            others = [x for x in allshares if x[1] != shnum]
            if not others:
                raise Skip("single share")
            (i2, sh2, ms2) = rng.choice(others)
            ms.replace_data(bytes(ms2.raw0[M.DATA_OFFSET:M.DATA_OFFSET + ms2.data_length]))
            ms.save()
            return "content-of-sh%d" % sh2
        if fam == "resign":
            fields = once("fields", lambda: rng.choice([None, {"seqnum": ms.f["seqnum"] + 1},
                                                        {"seqnum": ms.f["seqnum"] + 100}, {"datalen": max(1, ms.f["datalen"] - 1)}]))
            M.resign(ms, self.k2[0], self.k2_der, fields)
            ms.save()
            dmg.resigned = True
            return "resigned %r" % (fields,)
        if fam == "forged":
            forged = plan["forged"]
            if shnum not in forged:
                raise Skip("shnum")
            ms.replace_data(forged[shnum])
            ms.save()
            return "forged"
        raise Skip("unknown family " + fam)

    def poison(self, dmg, sweep):
        """Share hash chains of the form (valid node number, WRONG hash) ... (out-of-range number, junk): the
        carrier share is rejected, but if the wrong hash were left in the share hash tree that one Retrieve shares
        across all shares it would make honest shares fail (variant 'availability': node 1 or 2 of the tree, carriers =
        the k shares activated first) or let a re-hashed forged block of another share through (variant 'integrity':
        the leaf of the share activated next, whose own chain repeats the planted value)."""
        import struct as _s
        M, rng, g = self.M, self.rng, self.g
        shares = sorted([x for x in M.disk_shares(g, self.si) if x[2].fmt is not None], key=lambda x: x[1])
        if not shares:
            raise Skip("no shares")
        by_shnum = {}
        for x in shares:
            by_shnum.setdefault(x[1], []).append(x)
        ref = shares[0][2]
        k, N = ref.f["k"], ref.f["N"]
        nentries = len(ref.share_hash_chain())
        L = 1
        while L < N:
            L *= 2
        first_leaf = L - 1
        nodes = 2 * L - 1
        if nentries < 2 or ref.num_segments() == 0:
            raise Skip("chain too short to carry a two-step poison")

        def write_chain(ms, entries):
            s_, e_ = ms.regions()["share_hash_chain"]
            raw = b"".join(_s.pack(">H32s", n_, h_) for (n_, h_) in entries)
            assert len(raw) == e_ - s_
            ms.data[s_:e_] = raw
            ms.parse()
            ms.save()

        def junk_tail(n):
            return [((0xFFFF - j) if j % 2 == 0 else (nodes + j), rng.randbytes(32)) for j in range(n)]

        variant = "integrity" if (sweep % 2 == 0 and k <= 2 and N >= k + 1 and k in by_shnum) else "availability"
        if variant == "availability":
            target = rng.choice([1, 2])
            carriers = sorted(by_shnum)[:k]
            wrong = rng.randbytes(32)
            for shnum in carriers:
                for (idx, sh, ms) in by_shnum[shnum]:
                    write_chain(ms, [(target, wrong)] + junk_tail(nentries - 1))
                    dmg.changed += 1
            dmg.note("poison availability: node %d via carriers %s, then out-of-range numbers" % (target, carriers))
        else:
            # carrier = share 0 (activated first); forged share X = k (activated when the carrier is dropped)
            X = k
            victim_list = by_shnum[X]
            forged_leaf = None
            for (idx, sh, ms) in victim_list:
                _, (bs, be) = ms.block_span(0)
                if forged_leaf is None:
                    self._forged_block = rng.randbytes(be - bs)
                ms.write_at(bs, self._forged_block)
                if not M.rehash_blocks(ms):
                    raise Skip("rehash")
                forged_leaf = ms.block_hash_nodes()[0]
                write_chain(ms, [(first_leaf + X, forged_leaf)] * nentries)
                dmg.changed += 1
            for (idx, sh, ms) in by_shnum[sorted(by_shnum)[0]]:
                write_chain(ms, [(first_leaf + X, forged_leaf)] + junk_tail(nentries - 1))
                dmg.changed += 1
            dmg.note("poison integrity: carrier sh%d plants leaf of sh%d (forged block, re-hashed tree, chain repeats "
                     "the planted leaf)" % (sorted(by_shnum)[0], X))

    def install_flap(self, dmg):
        M, rng, g = self.M, self.rng, self.g
        newest_j = len(self.snaps) - 1
        modes = ["flip", "iv-later", "empty-later", "short", "garbage-later"]
        if newest_j > 0:
            modes += ["older-later", "older-first", "older-alternate", "older-later"]
        mode = rng.choice(modes)
        targets = set(rng.sample(range(len(g.servers)), rng.randint(1, len(g.servers))))
        j = rng.randrange(newest_j) if newest_j > 0 else 0
        counts = {}
        prob = rng.choice([1.0, .5])
        dmg.lying |= targets
        dmg.changed += 1
        if mode.startswith("older"):
            dmg.older = True
        dmg.note("flap %s on %s (v%d)" % (mode, sorted(targets), j))
        si = self.si
        older = self.snaps[j]

        def mutate(vs, meth, args, res, obj):
            if meth != "slot_readv" or vs.index not in targets or not isinstance(res, dict) or args[0] != si:
                return res
            n = counts[vs.index] = counts.get(vs.index, 0) + 1
            shnums, readv = args[1], args[2]
            if mode == "older-later" and n >= 2 or mode == "older-first" and n == 1 or \
                    mode == "older-alternate" and n % 2 == 0:
                return M.readv_from_raw(older.get(vs.index, {}), shnums, readv)
            if mode == "empty-later" and n >= 2:
                return {}
            out = {}
            for shnum, vecs in res.items():
                vecs = list(vecs)
                for vi, (o, l) in enumerate(readv):
                    v = vecs[vi]
                    if not v:
                        continue
                    if mode == "flip" and rng.random() < prob:
                        b = bytearray(v)
                        b[rng.randrange(len(b))] ^= 1 << rng.randrange(8)
                        vecs[vi] = bytes(b)
                    elif mode == "short" and rng.random() < prob:
                        vecs[vi] = v[:rng.randrange(len(v))]
                    elif mode == "garbage-later" and n >= 2:
                        vecs[vi] = rng.randbytes(len(v))
                    elif mode == "iv-later" and n >= 2 and o == 0 and len(v) >= 57 and v[0] == 0:
                        b = bytearray(v)          # SDMF header: change the IV and nothing else
                        b[41] ^= 0x01
                        vecs[vi] = bytes(b)
                        self.injected_ivs.add(bytes(b[41:57]))
                out[shnum] = vecs
            return out
        g.mutate_response = mutate

    # ------------------------------------------------------------ ground truth
    def truth(self, dmg):
        """(intact share numbers of the newest version on answering servers, older version visible?)"""
        newest = self.snaps[-1]
        newest_data = {}
        for d in newest.values():
            for shnum, raw in d.items():
                newest_data[shnum] = (raw[:32], self.M.share_data_of(raw))
        good = set()
        older_raws = set()
        for snap in self.snaps[:-1]:
            for d in snap.values():
                older_raws.update(self.M.share_data_of(raw) for raw in d.values())
        older = dmg.older
        for vs in self.g.servers:
            files = vs.shares_of(self.si)
            for shnum, path in files.items():
                with open(path, "rb") as f:
                    raw = f.read()
                if len(raw) >= 92 and self.M.share_data_of(raw) in older_raws:
                    older = True
                if vs.index in dmg.lying or not vs.connected:
                    continue
                if newest.get(vs.index, {}).get(shnum) == raw:
                    good.add(shnum)
                elif shnum in newest_data and len(raw) >= 100 and raw[:32] == newest_data[shnum][0] and \
                        self.M.share_data_of(raw) == newest_data[shnum][1] and \
                        raw[52:84] == self.node.get_write_enabler(vs.iserver):
                    good.add(shnum)      # an intact copy in a well-formed container of this server
        return good, older

    # ------------------------------------------------------------ reads
    def read(self, kind, fam, dmg, between):
        from vf import imm
        from allmydata.mutable.common import MODE_READ
        ck, rng, g, p = self.ck, self.rng, self.g, self.p
        newest = self.published[-1]
        c2 = g.make_client(k=p["k"], happy=1, n=p["n"], mutable_format=p["fmt"])
        sibling_node = None
        if dmg.sibling is not None:
            # the same client (one NodeMaker, one node cache) meets the forged sibling cap first and keeps the node
            sibling_node = c2.create_node_from_uri(dmg.sibling)
            st_s, r_s = g.wait(sibling_node.download_best_version(), horizon=4 * 3600.0, max_steps=MAX_STEPS)
            ck.hit("sibling-cap-read-" + st_s)
            self._keep_alive = sibling_node
        good0, older0 = self.truth(dmg)
        del g.calls[:]
        steps0 = g.sched.steps
        off, size = 0, None
        streamed = None
        status, res, data = None, None, None
        two_phase = kind in ("version-read", "smap-dlv", "smap-copy-dlv")
        did_between = False

        def run_between():
            nonlocal did_between
            if between is not None:
                try:
                    between()
                except Skip as e:
                    dmg.note("skipped(%s)" % e)
                did_between = True
                ck.hit("damage-between-mapupdate-and-retrieve")

        if kind.startswith("dbv"):
            if kind == "dbv-writer":
                node = self.node
            else:
                node = c2.create_node_from_uri(self.ro_uri if kind == "dbv-ro-fresh" else self.rw_uri)
            status, res = g.wait(node.download_best_version(), horizon=4 * 3600.0, max_steps=MAX_STEPS)
            data = res if status == "ok" else None
        elif kind == "version-read":
            node = c2.create_node_from_uri(self.ro_uri if (rng.random() < .6 or dmg.sibling) else self.rw_uri)
            status, ver = g.wait(node.get_best_readable_version(), horizon=4 * 3600.0)
            res = ver
            if status == "ok":
                run_between()
                L = len(newest)
                if L and rng.random() < .7:
                    seg = p["segsize"] if p["fmt"] == "MDMF" else L
                    off = rng.choice([0, 1, seg - 1, seg, L - 1, rng.randrange(L), 2 * seg + 1])
                    off = max(0, min(L - 1, off))
                    size = rng.choice([None, 1, seg, rng.randint(1, L - off), L - off])
                    if size is not None:
                        size = max(1, min(L - off, size))
                cons = imm.RecordingConsumer()
                status, res = g.wait(ver.read(cons, off, size), horizon=4 * 3600.0, max_steps=MAX_STEPS)
                data = cons.value() if status == "ok" else None
                streamed = cons.value()
        else:
            node = c2.create_node_from_uri(self.ro_uri if (rng.random() < .6 or dmg.sibling) else self.rw_uri)
            status, smap = g.wait(node.get_servermap(MODE_READ), horizon=4 * 3600.0)
            res = smap
            if status == "ok":
                best = smap.best_recoverable_version()
                if best is None:
                    status, res = "err", None
                else:
                    run_between()
                    use = smap.copy() if kind == "smap-copy-dlv" else smap
                    if kind == "smap-copy-dlv":
                        ck.hit("uncached-reader-read")
                    status, res = g.wait(node.download_version(use, best), horizon=4 * 3600.0, max_steps=MAX_STEPS)
                    data = res if status == "ok" else None
        if fam in ("late-sibling-rehash", "sig-multi", "dup-primary", "prefix-after-honest", "sibling-cap",
                   "poison-chain", "truncate-inside") and dmg.changed and status in ("ok", "err"):
            ck.hit("directed:" + fam)
        if fam == "late-segment" and status == "ok" and dmg.changed:
            per = {}
            for r_ in g.calls:
                if r_["method"] == "slot_readv" and r_["args"][2] and r_["args"][2][0] == (0, 4000):
                    per[r_["server"]] = per.get(r_["server"], 0) + 1
            if any(v >= 2 for v in per.values()):
                ck.hit("late-segment-read-succeeded-on-its-second-survey")
        if status in ("ok", "err"):
            ck.extra["max_scheduler_steps_of_a_completed_read"] = max(
                g.sched.steps - steps0, ck.extra.get("max_scheduler_steps_of_a_completed_read", 0))
        good1, older1 = self.truth(dmg)
        good = good0 & good1
        older = older0 or older1
        damaged = dmg.changed > 0 or did_between
        errname = None
        if status == "err" and res is not None:
            errname = res.type.__name__
        w = dict(params={k_: v for k_, v in p.items()}, family=fam, damage=list(dmg.desc), read_kind=kind,
                 range=(off, size), status=status, error=(errname + ": " + str(res.value)[:160]) if errname else None,
                 published_lengths=[len(x) for x in self.published], intact_newest_shares=sorted(good),
                 delivered=data)

        # ---- membership oracle
        ck.mon("membership-oracle")
        which = None
        if status == "ok":
            which = self.match(data, off, size)
            if which is None:
                ck.violation(self.classify_wrong(data, off, size, fam, kind),
                             "%s delivered %d bytes that are not (a slice of) any published plaintext (family %s)"
                             % (kind, len(data), fam), w)
            else:
                if damaged:
                    ck.hit("read-ok-despite-damage")
                if which == len(self.published) - 1:
                    ck.hit("newest-delivered")
                else:
                    ck.hit("older-version-delivered")
                if dmg.forged:
                    ck.hit("forged-version-not-delivered")
                if dmg.resigned:
                    ck.hit("resigned-share-not-delivered")
                if (off, size) != (0, None):
                    ck.hit("partial-read-ok")
        elif status == "err":
            ck.hit("read-failed")
            ck.hit("err:" + (errname or "no-recoverable-version"))
            if dmg.forged:
                ck.hit("forged-version-not-delivered")
            if dmg.resigned:
                ck.hit("resigned-share-not-delivered")
        # ---- prefix oracle on everything streamed to a consumer, also before a failure
        if streamed is not None:
            ck.mon("prefix-oracle")
        if streamed is not None and status != "ok" and streamed:
            if not any(self.slice_of(P, off, size)[:len(streamed)] == streamed for P in self.published
                       if self.slice_of(P, off, size) is not None):
                ck.violation("streamed-unpublished-bytes-before-failure/" + fam,
                             "consumer received %d bytes that are not a prefix of any published version's range, then "
                             "the read failed" % len(streamed), w)
        # ---- availability oracle
        ck.mon("availability-oracle")
        must = len(good) >= self.k_newest
        if not must:
            ck.skip("fewer-than-k-intact-newest-shares")
        elif two_phase and damaged:
            ck.skip("availability-not-judged-for-reads-bound-to-an-earlier-servermap")
        else:
            ck.hit("must-succeed")
            if status == "err":
                ck.violation(self.classify_unavailable(kind, dmg, good, errname),
                             "%s failed (%s) although shares %s of the newest version (k=%d) are byte-identical to "
                             "what the publisher wrote and sit on servers that answer every request"
                             % (kind, w["error"], sorted(good), self.k_newest), w)
            elif status != "ok":
                if dmg.hung:
                    ck.skip("read-waits-for-a-server-that-never-answers")
                else:
                    ck.violation("read-never-completes" + ("/bad-copy-of-a-duplicated-share-number-retried-forever"
                                                           if fam in ("dup-bad-copy", "dup-primary") else ""),
                                 "%s neither succeeded nor failed (%s after %d scheduler steps)" % (kind, status, MAX_STEPS), w)
            elif which is not None and which != len(self.published) - 1 and not older:
                ck.violation("stale-version-although-no-older-share-exists",
                             "delivered published version %d, newest is %d, and the harness left no share of an older "
                             "version anywhere" % (which, len(self.published) - 1), w)
        if status not in ("ok", "err") and not must:
            if dmg.hung:
                ck.skip("read-waits-for-a-server-that-never-answers")
            else:
                ck.violation("read-never-completes" + ("/bad-copy-of-a-duplicated-share-number-retried-forever"
                                                       if fam in ("dup-bad-copy", "dup-primary") else ""),
                             "%s neither succeeded nor failed (%s after %d scheduler steps)" % (kind, status, MAX_STEPS), w)
        if status not in ("ok", "err"):
            self.runaway = True      # something may still be looping inside the client: abandon this grid
        ck.case(fam, key=(fam, tuple(dmg.desc[:4]), p["fmt"], p["k"], p["n"], tuple(p["sizes"]), kind, off, size),
                nontrivial=damaged,
                sample=dict(fmt=p["fmt"], k=p["k"], n=p["n"], nservers=p["nservers"], sizes=p["sizes"], family=fam,
                            damage=dmg.desc[:4], read=kind, range=(off, size), status=status, error=errname))

    @staticmethod
    def slice_of(P, off, size):
        if off == 0 and size is None:
            return P
        if off > len(P):
            return None
        if size is None:
            return P[off:]
        if off + size > len(P):
            return None
        return P[off:off + size]

    def match(self, data, off, size):
        """Index of the newest published plaintext the delivered bytes are the requested slice of, else None."""
        for j in range(len(self.published) - 1, -1, -1):
            s = self.slice_of(self.published[j], off, size)
            if s is not None and s == data:
                return j
        return None

    def classify_wrong(self, data, off, size, fam, kind):
        """Deterministic mechanism class of a wrong-plaintext witness."""
        # was it a genuine ciphertext decrypted under an IV the harness planted into an SDMF header?
        try:
            for j, iv_true in self.genuine_ivs.items():
                if j >= len(self.published):
                    continue
                crypt = self.M.decrypt_with_iv(self.readkey, iv_true, self.published[j])
                for iv in self.injected_ivs:
                    s = self.slice_of(self.M.decrypt_with_iv(self.readkey, iv, crypt), off, size)
                    if s is not None and s == data:
                        cached = "uncached-reader" if kind == "smap-copy-dlv" else "cached-reader"
                        return "sdmf-iv-not-checked-against-signed-prefix-at-retrieve/" + cached
        except Exception:
            pass
        return "delivered-unpublished-bytes/" + fam

    def control_read(self, kind):
        """A fresh node of the same kind reads the grid as it is now, under the schedule most favourable to survey
        coverage (classification only, never a verdict).  True iff it delivers a published plaintext."""
        p, g = self.p, self.g
        c3 = g.make_client(k=p["k"], happy=1, n=p["n"], mutable_format=p["fmt"])
        uri = self.ro_uri if kind == "dbv-ro-fresh" else self.rw_uri
        # deterministic delivery: strictly in send order (profile "fifo"), and before any further local processing
        old, old_profile = g.sched.chooser, g.sched.profile
        g.sched.chooser = self.M.net_first_chooser(self.ck.rng("control"))
        g.sched.profile = "fifo"
        try:
            st3, r3 = g.wait(c3.create_node_from_uri(uri).download_best_version(), horizon=4 * 3600.0, max_steps=MAX_STEPS)
        finally:
            g.sched.chooser, g.sched.profile = old, old_profile
        if st3 not in ("ok", "err"):
            self.runaway = True
        return st3 == "ok" and self.match(r3, 0, None) is not None

    def classify_unavailable(self, kind, dmg, good, errname=None):
        """Mechanism class of an availability failure, from ground truth only."""
        newest = self.snaps[-1]
        if errname in ("ConnectionLost", "ConnectionDone"):
            return "connection-lost-on-another-server-aborts-the-read"
        if errname == "UnrecoverableFileError" and any(vs.zombie for vs in self.g.servers):
            # a listed server whose every call fails at once (DeadReferenceError) and a survey that found nothing
            return "servermap-update-finishes-at-once-when-a-query-fails-synchronously"
        if errname not in (None, "NotEnoughSharesError", "UnrecoverableFileError"):
            return "read-aborted-by-%s-despite-k-intact-shares" % errname
        # a share that carries the newest version's signed prefix but an edited (unsigned) offset table?
        ref = None
        for d in newest.values():
            for raw in d.values():
                ref = self.M.MutShare(raw=raw)
                break
            if ref is not None:
                break
        for (idx, shnum, ms) in self.M.disk_shares(self.g, self.si):
            if ref is not None and ms.fmt == ref.fmt and ms.fmt is not None and ms.prefix() == ref.prefix():
                o1 = bytes(ms.data[ms.prefix_len():ms.regions()["header"][1]])
                o2 = bytes(ref.data[ref.prefix_len():ref.regions()["header"][1]])
                if o1 != o2:
                    return "share-with-edited-unsigned-offset-table-outranks-intact-shares"
        if kind.startswith("dbv") and not self.runaway:
            # control 0: the same grid, the same kind of node, but no answer arrives "late": if that read succeeds the
            # failure was a matter of which answers the bounded survey happened to wait for
            if self.control_read(kind):
                return "intact-shares-not-located-by-the-bounded-survey"
        if kind.startswith("dbv") and not self.runaway:
            # control B: give every damaged share the most ordinary damage there is (the publisher's own share with one
            # flipped block bit: accepted by the survey, dropped by the block check) and read again.  If this
            # succeeds where control 0 failed, the failure was caused by the FORM of the damage in other shares.
            saved = []
            for vs in self.g.servers:
                if vs.index in dmg.lying or not vs.connected:
                    continue
                for shnum, path in vs.shares_of(self.si).items():
                    snap_raw = newest.get(vs.index, {}).get(shnum)
                    with open(path, "rb") as f:
                        now = f.read()
                    if snap_raw is None or now == snap_raw:
                        continue
                    b = self.M.MutShare(raw=snap_raw)
                    if b.fmt is None or b.num_segments() == 0:
                        continue
                    _, (bs_, be_) = b.block_span(0)
                    b.flip(bs_, 1)
                    saved.append((path, now))
                    b.save(path)
            if saved:
                try:
                    okB = self.control_read(kind)
                finally:
                    for path, now in saved:
                        with open(path, "wb") as f:
                            f.write(now)
                if okB:
                    return "damaged-share-breaks-the-validation-of-intact-shares"
        if kind.startswith("dbv"):
            # control experiment (classification only, never a verdict): list only the servers that hold an intact
            # share of the newest version, so that even the bounded surveys (MODE_READ asks 2k servers, the retry of a
            # read-only node repeats that, MODE_WRITE stops k empty servers after the last share it found) must reach
            # them.  If the same kind of node then reads successfully, the failure was one of survey coverage.
            p = self.p
            holders = set()
            for vs in self.g.servers:
                if vs.index in dmg.lying or not vs.connected:
                    continue
                for shnum, path in vs.shares_of(self.si).items():
                    if shnum in good:
                        with open(path, "rb") as f:
                            raw = f.read()
                        if self.M.share_data_of(raw) == self.M.share_data_of(
                                next(d[shnum] for d in newest.values() if shnum in d)):
                            holders.add(vs.index)
            hidden = [vs for vs in self.g.servers if vs.index not in holders and not vs.hidden]
            for vs in hidden:
                vs.hidden = True
            try:
                okA = self.control_read(kind)
            finally:
                for vs in hidden:
                    vs.hidden = False
            if okA:
                return "intact-shares-not-located-by-the-bounded-survey"
        clean = set()
        for vs in self.g.servers:
            if vs.index in dmg.lying or not vs.connected:
                continue
            intact_here, bad_here = set(), False
            for shnum, path in vs.shares_of(self.si).items():
                with open(path, "rb") as f:
                    if f.read() == newest.get(vs.index, {}).get(shnum):
                        intact_here.add(shnum)
                    else:
                        bad_here = True
            if not bad_here:
                clean |= intact_here
        node = "readonly-node" if kind == "dbv-ro-fresh" else ("writecap-node" if kind.startswith("dbv") else kind)
        if len(clean) >= self.k_newest:
            # k intact shares sit on servers that hold nothing else: the reader never got to them
            return "k-intact-shares-on-servers-without-bad-shares-not-used/" + node
        return "intact-shares-discarded-with-a-bad-share-on-the-same-server"


class Skip(Exception):
    pass


# MUST_CATCH (selftest/breaks_c10.py; each produces violation keys that the unchanged tree never shows):
#   c10-skip-fingerprint                    _try_to_set_pubkey accepts any verification key       caught  delivered-unpublished-bytes/forged, /crossfile, /resign
#   c10-skip-signature                      _got_signature_one_share skips verify_signature       caught  delivered-unpublished-bytes/forged, sdmf-iv-.../cached-reader
#   c10-mdmf-salt-not-hashed-reader         _validate_block hashes the block without the salt     caught  (reader-only edit: every MDMF read fails, k-intact-.../version-read etc.)
#   (manual two-file variant: publish.py too) salt edits then deliver garbage                     caught  delivered-unpublished-bytes/salt-iv
#   c10-sharehash-without-leaf              share hash chain accepted without the leaf            caught  delivered-unpublished-bytes/rehash-block
#   c10-block-leaf-not-checked              block-hash leaf never set                             caught  delivered-unpublished-bytes/block, /salt-iv
#   c10-bad-share-aborts-read               _handle_bad_share re-raises BadShareError             caught  read-aborted-by-CorruptShareError-despite-k-intact-shares
#   c10-unknown-pubkey-trusted-after-first  signature only checked for the first version seen     caught  delivered-unpublished-bytes/forged, /crossfile
#   seeded/C10-3 (get_sharehashes lost its struct.error handler)       caught  read-aborted-by-error-despite-k-intact-shares  (family truncate-inside)
#   seeded/C10-4 (IncompleteHashTree.set_hashes no rollback on IndexError) caught  damaged-share-breaks-the-validation-of-intact-shares,
#                                                                              delivered-unpublished-bytes/poison-chain  (family poison-chain)
# History: seven violation classes of the tree this check was written against; five were fixed in /repo (SDMF IV vs signed
# prefix, whole server dropped for one bad share, ConnectionLost aborting a read, bad copy of a duplicated share number retried
# forever, servermap update finishing at once on a synchronous query failure).  Known findings that remain:
#   intact-shares-not-located-by-the-bounded-survey, share-with-edited-unsigned-offset-table-outranks-intact-shares
# Availability failures are classified by control reads (never verdicts) under a deterministic, coverage-favourable
# schedule: same grid (=> survey race/coverage), ordinary damage in place of the actual damage (=> form of damage), only
# holders of intact shares listed (=> coverage).
#   seeded/C10-5 (retry appends to the first attempt's consumer)        caught  delivered-unpublished-bytes/late-segment  (family late-segment)
#   seeded/C10-7 (node cache keyed by storage index, not by cap)          caught  delivered-unpublished-bytes/sibling-cap  (family sibling-cap)
# Every fifth history is built for the mechanisms that need a particular file/grid shape (directed cases with required
# reach counters 'directed:*'): late-segment, late-sibling-rehash (seeded C10-2), sig-multi (C10-6), dup-primary (C10-8),
# prefix-after-honest (C10-1), sibling-cap (C10-7), poison-chain (C10-4), truncate-inside (C10-3).
