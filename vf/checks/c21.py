"""C21 deep traversal visits every reachable object exactly once."""
META = {
    "level": "exploration",
    "technique": "runtime monitoring of build_manifest / start_deep_stats / start_deep_check / deep_traverse(custom walker) on generated directory graphs stored on an in-process grid, compared with an independent reachability model keyed by specification-derived verify-caps",
    "text": "Generates directory graphs of <= 40 objects on real storage servers: trees, DAGs with shared sub-directories and shared files, cycles (self-loop, loop to an ancestor, loop back to the root through its READ-cap), the same object linked through write-cap and read-cap, SDMF/MDMF/immutable/literal directories, CHK/LIT/SDMF/MDMF files, unknown caps, unreachable objects. The root is opened through its write-cap or read-cap and traversed by the real manifest builder, deep-stats, deep-check (verify=False) and a recording walker. In about half of the graphs one byte of block data is then flipped in one share of some mutable directories and files: a deep-check / deep-check-and-repair with verify=True must not report an object healthy that a direct check(verify=True) of the same object on a fresh client reports not healthy. Oracle: identity = verify-cap computed by the independent hash chain; every reachable identity is reported exactly once, identity-less objects (LIT files, LIT directories, unknown nodes) exactly once per link from a visited directory, nothing unreachable is reported; the verify-cap and storage-index sets equal the model's; every manifest (path, cap) resolves in the model and through root.get_child_at_path(path) to that cap; deep-stats counters and sizes (files, directories, immutable, literal, mutable, unknown, size sums, largest file, largest-directory-children, histogram) equal the model's; deep-check and deep-check-and-repair (verify on and off) each hold exactly one result per reachable identity, at a path that resolves to it (health verdicts are not judged); graphs include empty files (size-0 literal, emptied mutable) linked once and twice, and the same mutable object linked from one directory by read-cap and by write-cap under names that sort either way; the walker sees enter_directory once per visited directory with the model's child names.",
    "note": "Which of several paths / caps is reported for a shared object is left open (any path that resolves). size-directories / largest-directory depend on serialisation details and are not judged. Trusts the hash chain in _caps.py.",
}
LEVEL = "exploration"
BUDGET = {"quick": 40, "thorough": 240}
SHARDS = {"quick": 1, "thorough": 6}

import collections
from vf import env  # noqa
from vf.checks import _dir as D


class GObj(object):
    def __init__(self, kind, cap, node=None, size=None, pair=None):
        self.kind, self.cap, self.node, self.size, self.pair = kind, cap, node, size, pair
        self.info = D.CapInfo(cap) if cap is not None else None
        self.children = {}     # name -> (GObj, link)   link: "rw" | "ro" | "imm" | "unknown"
        self.identity = self.info.verify if self.info is not None else None

    @property
    def is_dir(self):
        return self.kind.startswith("dir")

    def acceptable_caps(self):
        if self.kind == "unknown":
            out = set()
            rw, ro = self.pair
            for x in (rw, ro):
                if x:
                    out.add(x)
                    out.add(x if x.startswith((b"ro.", b"imm.")) else b"ro." + x)
                    out.add(b"imm." + (x[3:] if x.startswith(b"ro.") else x[4:] if x.startswith(b"imm.") else x))
            return out
        out = {self.cap}
        if self.info.readonly:
            out.add(self.info.readonly)
        return out


def bucket(size):
    """(min, max) of the two-per-decade histogram documented for deep-stats: (0,0) (1,3) (4,10) (11,31) (32,100) (101,316) ..."""
    if size == 0:
        return (0, 0)
    lo, k = 1, 1
    while True:
        # upper bounds 3, 10, 31, 100, 316, 1000, ... = floor(10**(k/2))
        hi = int((10 ** k) ** 0.5) if k % 2 else 10 ** (k // 2)
        if lo <= size <= hi:
            return (lo, hi)
        lo, k = hi + 1, k + 1


def run(ck):
    from vf.grid import VGrid, KEYPOOL
    ck.rule = ("case = graph (<=40 objects; shape tree/dag/cyclic; object kinds; link caps rw/ro; unreachable extras) x root opener "
               "(write-cap / read-cap) x transport profile; distinct = distinct (shape, kind multiset, edge signature); "
               "non-trivial = some object has two or more links or a cycle exists")
    i = 0
    ncases = 0
    while ck.more(min_cases=20):
        i += 1
        if not ck.mine(i):
            continue
        crng = ck.rng("case", i)
        KEYPOOL.rewind()
        g = VGrid(nservers=crng.choice([3, 4]), seed=crng.getrandbits(32),
                  profile=crng.choice(["fifo", "per-server-fifo", "per-server-fifo", "free"]), keep_log=False)
        try:
            with ck.watchdog(240, "graph %d" % i):
                try:
                    one_case(ck, g, crng, i)
                except D.OpFailed as e:
                    if e.st == "err":
                        ck.violation("directory-operation-failed-on-honest-grid", "no faults injected: %s" % str(e)[:300], {"case": i})
                    else:
                        ck.violation("deep-traversal-did-not-finish", "%s: %s (scheduler %s)" % (e.what, e.st, "quiescent" if e.st == "hang" else "step limit"),
                                     {"case": i})
                    ck.case("graph-aborted", key=i, nontrivial=False)
        finally:
            g.close()
        ncases += 1
        if ck.tier == "quick" and ncases >= 28:
            break
    ck.exhaustive = False
    ck.require_monitor("manifest-exactly-once", "manifest-path-resolves", "verifycap-set", "storage-index-set", "deep-stats-counts",
                       "deep-check-once-per-object", "deep-check-and-repair-once-per-object", "walker-exactly-once",
                       "deep-check-verify-agrees-with-direct-verify")
    ck.require_reach("shared-subdirectory", "shared-file", "same-object-via-write-and-read-cap", "cycle-to-root-via-readcap",
                     "self-loop", "cycle-to-ancestor", "literal-file-linked-twice", "literal-directory-linked-twice", "unknown-node",
                     "immutable-directory", "mdmf-directory", "unreachable-object", "root-opened-via-readcap", "depth>=3",
                     "read-cap-link-sorts-before-write-cap-link", "write-cap-link-sorts-before-read-cap-link", "empty-literal-file",
                     "empty-literal-file-linked-twice", "deep-check-with-verify", "direct-verify-finds-damaged-directory",
                     "direct-verify-finds-damaged-file")


def one_case(ck, g, rng, caseno):
    from allmydata.immutable.upload import Data
    from allmydata.monitor import Monitor
    nserv = len(g.servers)
    c = g.make_client(k=rng.randint(1, 2), happy=1, n=nserv)
    shape = rng.choice(["tree", "dag", "dag", "cyclic", "cyclic", "cyclic"])
    total = rng.choice([6, 12, 20, 30, 40])
    n_mdirs = max(1, min(12, total // rng.choice([3, 4, 5])))
    tagc = [0]

    def tag():
        tagc[0] += 1
        return b"%d" % tagc[0]

    objs = []
    mdirs = []
    for k in range(n_mdirs):
        ver = rng.choice([D.SDMF, D.MDMF])
        node = D.ok(g, c.create_dirnode(version=ver), "create_dirnode")
        o = GObj("dir-mdmf" if ver == D.MDMF else "dir-sdmf", node.get_uri(), node)
        if ver == D.MDMF:
            ck.hit("mdmf-directory")
        mdirs.append(o)
        objs.append(o)
    files = []
    n_files = max(2, (total - n_mdirs) * 2 // 3)
    for k in range(n_files):
        kind = rng.choice(["chk", "chk", "lit", "lit", "ssk", "mdmf"])
        node, data = D.make_file(g, c, rng, kind, tag())
        o = GObj(kind, node.get_uri(), node, size=len(data))
        files.append(o)
        objs.append(o)
    if rng.random() < .8:
        # the empty file: a literal cap with no data at all (size 0)
        o = GObj("lit", D.LIT_EMPTY, c.create_node_from_uri(D.LIT_EMPTY), size=0)
        files.append(o)
        objs.append(o)
        if rng.random() < .4:
            node, data = D.make_file(g, c, rng, "ssk", tag())     # ... and a mutable file whose current contents are empty
            D.ok(g, node.overwrite(__import__("allmydata.mutable.publish", fromlist=["MutableData"]).MutableData(b"")), "truncate")
            o = GObj("ssk", node.get_uri(), node, size=0)
            files.append(o)
            objs.append(o)
    unknowns = []
    for k in range(rng.choice([0, 1, 2, 3])):
        t = tag()
        pair = rng.choice([(None, b"ro.x-tahoe-future:R" + t), (None, b"imm.lafs://from_the_future/R" + t),
                           (b"x-tahoe-future:W" + t, b"x-tahoe-future:R" + t), (b"ro.x-tahoe-future:S" + t, None)])
        o = GObj("unknown", None, None, pair=pair)
        unknowns.append(o)
        objs.append(o)
    # immutable / literal directories, bottom-up
    idirs = []
    n_idirs = max(0, total - len(objs)) if shape != "tree" or rng.random() < .7 else 0
    imm_files = [f for f in files if f.kind in ("chk", "lit")]
    for k in range(min(n_idirs, 8)):
        want_lit = rng.random() < .4
        kids = {}
        if want_lit:
            if rng.random() < .6:
                lf = GObj("lit", D.lit_cap(b"t"), c.create_node_from_uri(D.lit_cap(b"t")), size=1)
                kids["t"] = (lf, "imm")
        else:
            pool = imm_files + idirs + [u for u in unknowns if u.pair[0] is None]
            for _ in range(rng.randint(1, 4)):
                if not pool:
                    break
                t_ = rng.choice(pool)
                kids["i%s" % tag().decode()] = (t_, "unknown" if t_.kind == "unknown" else "imm")
        real = {}
        for n_, (t_, _) in kids.items():
            real[n_] = (c.create_node_from_uri(t_.pair[0], t_.pair[1]) if t_.kind == "unknown" else t_.node, {})
        node = D.ok(g, c.create_immutable_dirnode(real), "create_immutable_dirnode")
        cap = node.get_uri()
        o = GObj("dir-lit" if cap.startswith(b"URI:DIR2-LIT:") else "dir-imm", cap, node)
        o.children = kids
        idirs.append(o)
        objs.append(o)
        ck.hit("immutable-directory" if o.kind == "dir-imm" else "literal-directory")
    root = mdirs[0]

    # ---- edges between mutable directories and everything else
    depth_of = {id(root): 0}
    order = [root]
    unplaced = [o for o in mdirs[1:]]
    leaves = files + idirs + unknowns
    rng.shuffle(leaves)
    edges = collections.defaultdict(dict)    # id(parent) -> name -> (target, link)

    def link_kind(t_):
        if t_.kind == "unknown":
            return "unknown"
        if t_.info.is_write:
            return rng.choice(["rw", "rw", "ro"])
        return "imm"

    def add_edge(parent, t_, name=None, link=None):
        name = name or rng.choice(["c%s", "é%s", "é%s", "x/%s", "%s"]) % tag().decode()
        edges[id(parent)][D.nfc(name)] = (t_, link or link_kind(t_))

    # spanning tree over the mutable directories
    for o in unplaced:
        parent = rng.choice(order)
        add_edge(parent, o)
        depth_of[id(o)] = depth_of[id(parent)] + 1
        order.append(o)
    # leaves: each gets one parent (tree) ...
    keep_unreachable = rng.random() < .5
    for t_ in leaves:
        if keep_unreachable and rng.random() < .15:
            continue
        add_edge(rng.choice(order), t_)
    if shape in ("dag", "cyclic"):
        # ... shared sub-directories / files, write-cap + read-cap links to one object
        for _ in range(rng.randint(2, 6)):
            t_ = rng.choice(leaves + order[1:])
            add_edge(rng.choice(order), t_)
        for _ in range(rng.randint(1, 3)):
            t_ = rng.choice([o for o in order[1:] + files if o.info is not None and o.info.is_write] or [root])
            p1, p2 = rng.choice(order), rng.choice(order)
            add_edge(p1, t_, link="rw")
            add_edge(p2, t_, link="ro")
        if idirs:
            for o_ in [o for o in idirs if o.kind == "dir-lit"][:2]:
                add_edge(rng.choice(order), o_)
                add_edge(rng.choice(order), o_)
        lits = [f for f in files if f.kind == "lit"]
        if lits:
            lf = rng.choice(lits)
            p = rng.choice(order)
            add_edge(p, lf)
            add_edge(p, lf)
    view_pairs = []
    if shape in ("dag", "cyclic"):
        # the SAME mutable object linked twice from ONE directory, once by read-cap and once by write-cap, under names whose
        # order decides which link the walk meets first (children are processed in name order)
        for _ in range(rng.randint(1, 2)):
            dedicated = None
            if total <= 30:
                ver = rng.choice([D.SDMF, D.MDMF])
                vnode = D.ok(g, c.create_dirnode(version=ver), "create_dirnode")
                vd = GObj("dir-mdmf" if ver == D.MDMF else "dir-sdmf", vnode.get_uri(), vnode)
                fnode, fdata = D.make_file(g, c, rng, rng.choice(["ssk", "mdmf"]), tag())
                vf = GObj("ssk" if fnode.get_uri().startswith(b"URI:SSK") else "mdmf", fnode.get_uri(), fnode, size=len(fdata))
                objs.extend([vd, vf])
                mdirs.append(vd)
                files.append(vf)
                edges[id(vd)]["inner"] = (vf, "rw")
                depth_of[id(vd)] = 1
                t_ = rng.choice([vd, vd, vf])
                dedicated = vd
            else:
                t_ = rng.choice([o for o in order[1:] + files if o.info is not None and o.info.is_write] or [root])
            parent = root if rng.random() < .6 else rng.choice(order)
            ro_first = rng.random() < .5
            tg = tag().decode()
            add_edge(parent, t_, name=("a_view%s" if ro_first else "z_view%s") % tg, link="ro")
            add_edge(parent, t_, name=("z_work%s" if ro_first else "a_work%s") % tg, link="rw")
            view_pairs.append(ro_first)
            if dedicated is not None and t_ is not dedicated:
                add_edge(parent, dedicated, name="holder%s" % tg, link="rw")     # keep the dedicated directory reachable
    if shape == "cyclic":
        deep = max(order, key=lambda o: depth_of[id(o)])
        add_edge(deep, root, link="ro")                       # loop back to the root through its READ cap
        if rng.random() < .5:
            add_edge(rng.choice(order), root, link="rw")
        sl = rng.choice(order)
        add_edge(sl, sl, link=rng.choice(["rw", "ro"]))        # self loop
        for _ in range(rng.randint(1, 3)):
            a = rng.choice(order)
            add_edge(a, rng.choice(order), link=rng.choice(["rw", "ro"]))   # arbitrary back / cross edges
    # unreachable mutable directory with content (must never be reported)
    if keep_unreachable:
        node = D.ok(g, c.create_dirnode(), "create_dirnode")
        orphan = GObj("dir-sdmf", node.get_uri(), node)
        objs.append(orphan)
        edges[id(orphan)]["into-the-graph"] = (root, "rw")
        if files:
            edges[id(orphan)]["f"] = (files[0], link_kind(files[0]))
        mdirs.append(orphan)

    # ---- write the edges: one set_children per directory
    for o in mdirs:
        arg = {}
        for name, (t_, link) in edges[id(o)].items():
            if link == "unknown":
                arg[name] = t_.pair
            elif link == "rw":
                arg[name] = (t_.cap, t_.info.readonly)
            elif link == "ro":
                arg[name] = (None, t_.info.readonly)
            else:
                arg[name] = (None, t_.cap)
        if arg:
            D.ok(g, o.node.set_children(arg), "set_children")
        o.children = dict(edges[id(o)])

    # ---- the model: reachability with identity = verify cap
    seen = {root.identity: root}
    visited_dirs = []             # (GObj, instance count)
    per_link = collections.Counter()      # identity-less objects: acceptable-cap frozenset -> expected count
    exp = collections.Counter()
    sizes = {"imm": [], "lit": []}
    maxchildren = [0]
    maxdepth = [0]
    inlinks = collections.Counter()

    def tally(o):
        if o.kind == "unknown":
            exp["count-unknown"] += 1
        elif o.is_dir:
            exp["count-directories"] += 1
        elif o.kind in ("ssk", "mdmf"):
            exp["count-files"] += 1
            exp["count-mutable-files"] += 1
        elif o.kind == "lit":
            exp["count-files"] += 1
            exp["count-literal-files"] += 1
            sizes["lit"].append(o.size)
        else:
            exp["count-files"] += 1
            exp["count-immutable-files"] += 1
            sizes["imm"].append(o.size)

    stack = [(root, 0)]
    tally(root)
    while stack:
        dobj, depth = stack.pop()
        visited_dirs.append(dobj)
        maxchildren[0] = max(maxchildren[0], len(dobj.children))
        maxdepth[0] = max(maxdepth[0], depth)
        for name, (t_, link) in dobj.children.items():
            inlinks[id(t_)] += 1
            if t_.identity is None:
                tally(t_)
                per_link[frozenset(t_.acceptable_caps())] += 1
                if t_.is_dir:
                    stack.append((t_, depth + 1))
                continue
            if t_.identity in seen:
                continue
            seen[t_.identity] = t_
            tally(t_)
            if t_.is_dir:
                stack.append((t_, depth + 1))
    reachable_ids = set(seen)
    # reach counters (behavioural facts about the generated graph)
    for o in objs:
        n_in = inlinks[id(o)]
        if n_in >= 2 and o.identity is not None:
            ck.hit("shared-subdirectory" if o.is_dir else "shared-file")
        if n_in >= 2 and o.kind == "lit":
            ck.hit("literal-file-linked-twice")
        if n_in >= 2 and o.kind == "dir-lit":
            ck.hit("literal-directory-linked-twice")
        if o.kind == "unknown" and n_in:
            ck.hit("unknown-node")
        if o.identity is not None and o.identity not in reachable_ids:
            ck.hit("unreachable-object")
    for d_ in visited_dirs:
        links = collections.defaultdict(set)
        for name, (t_, link) in d_.children.items():
            links[id(t_)].add(link)
            if t_ is d_:
                ck.hit("self-loop")
            elif t_ is root and link == "ro":
                ck.hit("cycle-to-root-via-readcap")
            elif t_.is_dir and t_.identity is not None and id(t_) in depth_of and id(d_) in depth_of and depth_of[id(t_)] < depth_of[id(d_)]:
                ck.hit("cycle-to-ancestor")
    wr = collections.defaultdict(set)
    for d_ in visited_dirs:
        for name, (t_, link) in d_.children.items():
            wr[id(t_)].add(link)
    if any({"rw", "ro"} <= v for v in wr.values()):
        ck.hit("same-object-via-write-and-read-cap")
    if maxdepth[0] >= 3:
        ck.hit("depth>=3")
    for rf in view_pairs:
        ck.hit("read-cap-link-sorts-before-write-cap-link" if rf else "write-cap-link-sorts-before-read-cap-link")
    if any(o.size == 0 and o.kind == "lit" and inlinks[id(o)] for o in objs):
        ck.hit("empty-literal-file")
    if any(o.size == 0 and o.kind == "lit" and inlinks[id(o)] >= 2 for o in objs):
        ck.hit("empty-literal-file-linked-twice")

    sig = (shape, tuple(sorted(collections.Counter(o.kind for o in objs).items())),
           tuple(sorted((d_.kind, tuple(sorted((n_, t_.kind, l_) for n_, (t_, l_) in d_.children.items()))) for d_ in mdirs)))
    desc = {"case": caseno, "shape": shape, "objects": len(objs), "reachable_identities": len(reachable_ids),
            "edges": sum(len(d_.children) for d_ in mdirs + idirs)}

    # ---- the real traversals
    via_ro = rng.random() < .4
    if via_ro:
        ck.hit("root-opened-via-readcap")
    opener = g.make_client(k=1, happy=1, n=nserv) if rng.random() < .5 else c
    rootnode = opener.create_node_from_uri(root.info.readonly if via_ro else root.cap)
    desc["root"] = "read-cap" if via_ro else "write-cap"

    def model_resolve(path):
        o = root
        for name in path:
            if not o.is_dir or name not in o.children:
                return None
            o = o.children[name][0]
        return o

    def judge_visits(label, visits):
        """visits: list of (path tuple, cap bytes)"""
        ck.mon(label)
        ids = collections.Counter()
        idless = collections.Counter()
        for path, cap in visits:
            info = D.CapInfo(cap) if cap else None
            ident = info.verify if info is not None and info.known else None
            if ident is not None:
                ids[ident] += 1
            else:
                idless[cap] += 1
        dup = [k for k, v in ids.items() if v > 1]
        wit = dict(desc, traversal=label)
        if dup:
            o = seen.get(dup[0])
            ck.violation("object-visited-more-than-once", "%s: %s %r reported %d times (paths %r)" % (
                label, o.kind if o else "object", D.show(dup[0])[:60], ids[dup[0]], [p for p, cp in visits if cp and D.CapInfo(cp).verify == dup[0]][:3]), wit)
        missing = reachable_ids - set(ids)
        extra = set(ids) - reachable_ids
        if missing:
            m0 = sorted(missing)[0]
            ck.violation("reachable-object-not-visited", "%s: %d reachable objects missing, e.g. %s %r" % (
                label, len(missing), seen[m0].kind, D.show(m0)[:60]), wit)
        if extra:
            ck.violation("unreachable-object-visited", "%s: reports %r which no path from the root reaches" % (label, D.show(sorted(extra)[0])[:60]), wit)
        # identity-less objects: once per link
        want = collections.Counter()
        got = collections.Counter()
        for capset, n_ in per_link.items():
            want[capset] += n_
        for cap, n_ in idless.items():
            match = [cs for cs in want if cap in cs]
            if not match:
                ck.violation("unreachable-object-visited", "%s: reports %r which the model does not link" % (label, D.show(cap)[:60]), wit)
                continue
            got[match[0]] += n_
        for cs in want:
            if got[cs] != want[cs]:
                ck.violation("linked-literal-or-unknown-count-differs", "%s: %r is linked %d times from visited directories, reported %d times"
                             % (label, D.show(sorted(cs)[0])[:50], want[cs], got[cs]), wit)
                break

    # (1) manifest
    res = D.ok(g, rootnode.build_manifest().when_done(), "build_manifest")
    manifest = [(tuple(p), cap) for (p, cap) in res["manifest"]]
    judge_visits("manifest-exactly-once", manifest)
    ck.mon("verifycap-set")
    if set(res["verifycaps"]) != reachable_ids:
        ck.violation("verifycap-set-differs", "manifest verifycaps: %d entries, model %d (missing %d, extra %d)" % (
            len(res["verifycaps"]), len(reachable_ids), len(reachable_ids - set(res["verifycaps"])), len(set(res["verifycaps"]) - reachable_ids)), desc)
    ck.mon("storage-index-set")
    want_si = {D.b32(o.info.si) for o in seen.values()}
    if set(res["storage-index"]) != want_si:
        ck.violation("storage-index-set-differs", "manifest storage-index set has %d entries, model %d" % (len(res["storage-index"]), len(want_si)), desc)
    if len(set(p for p, _ in manifest)) != len(manifest):
        ck.violation("object-visited-more-than-once", "manifest lists a path twice", desc)
    sample = manifest if len(manifest) <= 30 else [manifest[0]] + rng.sample(manifest[1:], 29)
    for path, cap in sample:
        ck.mon("manifest-path-resolves")
        mo = model_resolve(path)
        wit = dict(desc, path=list(path), cap=D.show(cap))
        if mo is None or cap not in mo.acceptable_caps():
            ck.violation("manifest-path-does-not-lead-to-its-object", "manifest says %r is %r; the model has %s there" % (
                path, D.show(cap)[:50], mo.kind if mo else "nothing"), wit)
            continue
        st, n_ = g.wait(rootnode.get_child_at_path(list(path)))
        if st != "ok" or n_.get_uri() != cap:
            ck.violation("manifest-path-does-not-lead-to-its-object", "get_child_at_path(%r) -> %s %r, manifest says %r" % (
                path, st, D.show(n_.get_uri())[:50] if st == "ok" else D.fdesc(n_), D.show(cap)[:50]), wit)

    # (2) deep-stats, three sources: manifest walker, start_deep_stats, deep-check
    exp_stats = {k: exp[k] for k in ("count-files", "count-directories", "count-immutable-files", "count-literal-files",
                                     "count-mutable-files", "count-unknown")}
    exp_stats["size-immutable-files"] = sum(sizes["imm"])
    exp_stats["size-literal-files"] = sum(sizes["lit"])
    exp_stats["largest-immutable-file"] = max(sizes["imm"] or [0])
    exp_stats["largest-directory-children"] = maxchildren[0]
    hist = collections.Counter(bucket(s_) for s_ in sizes["imm"] + sizes["lit"])
    exp_hist = sorted((lo, hi, n_) for (lo, hi), n_ in hist.items())

    def judge_stats(label, st_):
        ck.mon("deep-stats-counts")
        bad = {k: (st_.get(k), v) for k, v in exp_stats.items() if st_.get(k) != v}
        if bad:
            k0 = sorted(bad)[0]
            ck.violation("deep-stats-differ-from-model", "%s: %s = %r, model %r (%d counters differ)" % (label, k0, bad[k0][0], bad[k0][1], len(bad)),
                         dict(desc, differing={k: list(v) for k, v in bad.items()}))
        got_h = sorted(tuple(x) for x in st_.get("size-files-histogram", []))
        if got_h != exp_hist:
            ck.violation("deep-stats-differ-from-model", "%s: size-files-histogram %r, model %r" % (label, got_h[:6], exp_hist[:6]), desc)

    judge_stats("manifest stats", res["stats"])
    st2 = D.ok(g, rootnode.start_deep_stats().when_done(), "start_deep_stats")
    judge_stats("start_deep_stats", st2)

    # (3) deep-check and deep-check-and-repair (verify on / off): each reachable object exactly once in each walk.
    #     Health verdicts are NOT judged (a read-only mutable node cannot be repaired and reports so).
    def judge_deep_check(label, results, monitor_name):
        ck.mon(monitor_name)
        cnt = results.get_counters()
        allres = results.get_all_results()
        w = dict(desc, walk=label)
        if cnt["count-objects-checked"] != len(reachable_ids) or len(allres) != len(reachable_ids):
            ck.violation("deep-check-object-count-differs", "%s checked %d objects (%d result paths), %d distinct objects are reachable" % (
                label, cnt["count-objects-checked"], len(allres), len(reachable_ids)), w)
        sis = set(D.b32(r.get_storage_index()) for r in allres.values())
        if sis != want_si:
            ck.violation("storage-index-set-differs", "%s results cover %d storage indexes, model %d (missing %d)" % (
                label, len(sis), len(want_si), len(want_si - sis)), w)
        ids = collections.Counter()
        for path in allres:
            mo = model_resolve(path)
            if mo is None or mo.identity is None:
                ck.violation("manifest-path-does-not-lead-to-its-object", "%s has a result for path %r where the model has %s" % (
                    label, path, mo.kind if mo else "nothing"), w)
                continue
            ids[mo.identity] += 1
            if mo.info.si != allres[path].get_storage_index():
                ck.violation("manifest-path-does-not-lead-to-its-object", "%s: result at %r is for another storage index" % (label, path), w)
        miss = reachable_ids - set(ids)
        if miss:
            m0 = sorted(miss)[0]
            ck.violation("reachable-object-not-visited", "%s has no result for %d reachable objects, e.g. %s %r" % (
                label, len(miss), seen[m0].kind, D.show(m0)[:60]), w)
        if any(v > 1 for v in ids.values()):
            ck.violation("object-visited-more-than-once", "%s has two result paths for one object" % label, w)
        if "count-objects-healthy" in cnt and cnt["count-objects-healthy"] != cnt["count-objects-checked"]:
            ck.observe("deep-check-unhealthy-object-on-honest-grid")
        judge_stats(label + " stats", results.get_stats())

    v1 = rng.random() < .3
    dc = D.ok(g, rootnode.start_deep_check(verify=v1).when_done(), "start_deep_check")
    judge_deep_check("deep-check(verify=%s)" % v1, dc, "deep-check-once-per-object")
    v2 = rng.random() < .3
    dr = D.ok(g, rootnode.start_deep_check_and_repair(verify=v2).when_done(), "start_deep_check_and_repair")
    judge_deep_check("deep-check-and-repair(verify=%s)" % v2, dr, "deep-check-and-repair-once-per-object")
    if v1 or v2:
        ck.hit("deep-check-with-verify")

    # (4) recording walker through deep_traverse
    class Recorder(object):
        def __init__(self):
            self.adds, self.enters = [], []

        def set_monitor(self, m):
            self.m = m

        def add_node(self, node, path):
            self.adds.append((tuple(path), node.get_uri()))

        def enter_directory(self, parent, children):
            self.enters.append((parent.get_uri(), sorted(children)))

        def finish(self):
            return self

    rec = D.ok(g, rootnode.deep_traverse(Recorder()).when_done(), "deep_traverse")
    judge_visits("walker-exactly-once", rec.adds)
    ck.mon("walker-enter-directory")
    want_enters = collections.Counter()
    for d_ in visited_dirs:
        want_enters[(d_.identity or d_.cap, tuple(sorted(d_.children)))] += 1
    got_enters = collections.Counter()
    for cap, names in rec.enters:
        info = D.CapInfo(cap)
        got_enters[(info.verify or cap, tuple(names))] += 1
    if got_enters != want_enters:
        diff = (want_enters - got_enters) + (got_enters - want_enters)
        k0 = sorted(diff, key=repr)[0]
        ck.violation("directory-entered-wrong-number-of-times", "enter_directory for %r with children %r: %d times, model %d" % (
            D.show(k0[0])[:50], list(k0[1])[:5], got_enters[k0], want_enters[k0]), desc)

    # (5) verify-only damage: one byte of block data flipped in ONE share of some mutable directories and files.  A deep-check
    #     with verify=True must not call an object healthy that a direct check(verify=True) of the same object finds damaged.
    if rng.random() < .55:
        from allmydata.monitor import Monitor
        muts = [o for o in seen.values() if o.kind in ("dir-sdmf", "dir-mdmf", "ssk", "mdmf")]
        rng.shuffle(muts)
        dirs_ = [o for o in muts if o.is_dir and o.children][:rng.randint(1, 2)]
        files_ = [o for o in muts if not o.is_dir][:rng.randint(0, 2)]
        damaged = []
        for o in dirs_ + files_:
            where = D.damage_block_data(g, o.info.si, rng)
            if where is not None:
                damaged.append((o, where))
        if damaged:
            walker_client = g.make_client(k=1, happy=1, n=nserv)
            direct_client = g.make_client(k=1, happy=1, n=nserv)
            wroot = walker_client.create_node_from_uri(root.info.readonly if via_ro else root.cap)
            # the grid is no longer honest from here on: a walk that fails on it is not C21's business (C10/C14/C47)
            st_, dv = g.wait(wroot.start_deep_check(verify=True).when_done())
            if st_ != "ok":
                ck.observe("deep-check-failed-on-damaged-grid")
                dv = None
            else:
                judge_deep_check("deep-check(verify=True, damaged shares)", dv, "deep-check-once-per-object")
            sample = [o for o, _ in damaged] + [o for o in muts if o not in [x for x, _ in damaged]][:3]
            direct = {}
            for o in sample:
                st_, r_ = g.wait(direct_client.create_node_from_uri(o.cap).check(Monitor(), verify=True))
                if st_ == "ok" and r_ is not None:
                    direct[o.identity] = r_
            dr2 = None
            if rng.random() < .6:
                wroot2 = g.make_client(k=1, happy=1, n=nserv).create_node_from_uri(root.info.readonly if via_ro else root.cap)
                st_, dr2 = g.wait(wroot2.start_deep_check_and_repair(verify=True).when_done())
                if st_ != "ok":
                    ck.observe("deep-check-and-repair-failed-on-damaged-grid")
                    dr2 = None
            dmg = {o.identity: where for o, where in damaged}
            for ident, r_ in direct.items():
                o = seen[ident]
                ck.mon("deep-check-verify-agrees-with-direct-verify")
                if r_.is_healthy():
                    if ident in dmg:
                        ck.observe("direct-verify-calls-damaged-object-healthy")
                    continue
                ck.hit("direct-verify-finds-damaged-" + ("directory" if o.is_dir else "file"))
                for label, results in (("deep-check(verify=True)", dv), ("deep-check-and-repair(verify=True)", dr2)):
                    if results is None:
                        continue
                    try:
                        wr_ = results.get_results_for_storage_index(o.info.si)
                    except KeyError:
                        continue      # judged by the visited-set oracle
                    pre = wr_.get_pre_repair_results() if hasattr(wr_, "get_pre_repair_results") else wr_
                    if pre.is_healthy():
                        ck.violation("deep-check-verify-misses-damage-a-direct-verify-finds",
                                     "%s reports the %s %s healthy (0 corrupt shares listed: %r) although share %r has a flipped byte in its "
                                     "block data and a direct check(verify=True) of the same object reports it not healthy (corrupt shares %d)"
                                     % (label, o.kind, D.show(o.info.verify)[:40], len(pre.get_corrupt_shares()) == 0, dmg.get(ident),
                                        len(r_.get_corrupt_shares())),
                                     dict(desc, object=o.kind, damaged_share=list(dmg.get(ident) or ()), walk=label))

    nontrivial = any(v >= 2 for v in inlinks.values()) or shape == "cyclic"
    ck.case("graph-" + shape, key=sig, nontrivial=nontrivial,
            sample=dict(desc, kinds=dict(collections.Counter(o.kind for o in objs)), manifest_entries=len(manifest)))


# MUST_CATCH (selftest/breaks_c21.py; each exits 1, the unchanged tree exits 0):
#   c21-found-keyed-by-node-object     found holds id(node) instead of the verifier cap -> object-visited-more-than-once, deep-stats-differ-from-model
#   c21-root-not-preseeded             found = set()                                    -> object-visited-more-than-once (root twice on a cycle)
#   c21-no-dedup-for-files             the found test applies to directories only       -> object-visited-more-than-once, deep-stats-differ-from-model
#   c21-lit-deduplicated               identity-less children skipped once seen         -> deep-traversal-did-not-finish / linked-literal-or-unknown-count-differs
#   c21-unknown-not-reported           UnknownNode children skipped                     -> linked-literal-or-unknown-count-differs, deep-stats-differ-from-model
#   c21-child-path-drops-parent        childpath = path[-1:] + [name]                   -> manifest-path-does-not-lead-to-its-object
#   c21-stats-literal-counted-as-chk   DeepStats counts 1-byte LIT files as immutable   -> deep-stats-differ-from-model
#   c21-found-by-readcap               found keyed by get_uri() (write- vs read-cap differ) -> object-visited-more-than-once
#   seeded/C21-3   DeepStats.add_node returns early for size-0 files           -> deep-stats-differ-from-model (empty LIT file)
#   seeded/C21-4   DeepChecker (repair) skips nodes without repair cap         -> deep-check-object-count-differs, reachable-object-not-visited
#   seeded/C14-8   DeepChecker drops verify for mutable directories               -> deep-check-verify-misses-damage-a-direct-verify-finds
