"""Shared harness for the storage checks C22, C23, C24, C25, C28.

Everything here *drives or observes* the real ``allmydata.storage`` code; the
only things re-implemented are (a) the parsers of the raw share files, typed
from the layout comments at the top of ``storage/immutable.py`` and
``storage/mutable.py`` (never from the code's struct strings), (b) a simulated
disk behind ``os.statvfs`` as seen by ``allmydata.util.fileutil`` (so
``fileutil.get_disk_stats``/``get_available_space`` -- and with them the
``reserved_space`` arithmetic -- stay the real code), (c) a ``time`` shim that
gives ``time.time()`` callers of the storage package the virtual clock.
"""
import os
import shutil
import struct
import tempfile
import time as _real_time

from vf import env

# ------------------------------------------------------------------ time


class VTime(object):
    """Stand-in for the ``time`` module: ``time()`` is the virtual reactor's
    clock, everything else is forwarded."""

    def time(self):
        return env.reactor.seconds()

    def __getattr__(self, name):
        return getattr(_real_time, name)


_VTIME = VTime()
# every module of the storage package (and helpers it calls) that does
# ``import time`` and calls ``time.time()``:
#   storage/lease.py       LeaseInfo.get_age
#   storage/immutable.py   BucketReader.read (latency only)
#   storage/crawler.py     ShareCrawler.load_state/start_slice/... (constructed, never started)
#   storage/expirer.py     LeaseCheckingCrawler (constructed, never started)
#   util/time_format.py    iso_utc() used by StorageServer.advise_corrupt_share
# storage/server.py itself only uses ``self._clock.seconds()``.
_TIME_MODULES = ("allmydata.storage.lease", "allmydata.storage.immutable",
                 "allmydata.storage.crawler", "allmydata.storage.expirer",
                 "allmydata.util.time_format")
_saved_time = {}


def install_virtual_time():
    import importlib
    for name in _TIME_MODULES:
        mod = importlib.import_module(name)
        if name not in _saved_time:
            _saved_time[name] = mod.time
        mod.time = _VTIME


def restore_time():
    import sys
    for name, t in _saved_time.items():
        sys.modules[name].time = t
    _saved_time.clear()


# ------------------------------------------------------------ simulated disk

class _OsProxy(object):
    """``os`` as seen by allmydata.util.fileutil: only ``statvfs`` differs."""

    def __init__(self, real_os, hook):
        self.__dict__["_real"] = real_os
        self.__dict__["_hook"] = hook

    def __getattr__(self, name):
        return getattr(self.__dict__["_real"], name)

    def statvfs(self, path):
        disk = self.__dict__["_hook"][0]
        if disk is None:
            return self.__dict__["_real"].statvfs(path)
        return disk.statvfs(path)


class _StatVFS(object):
    def __init__(self, frsize, blocks, bfree, bavail):
        self.f_frsize = frsize
        self.f_bsize = frsize
        self.f_blocks = blocks
        self.f_bfree = bfree
        self.f_bavail = bavail


class SimDisk(object):
    """A disk of ``total`` bytes (allocation unit 1 byte so the arithmetic is
    exact).  used = for every regular file below ``root``: ``sparse[path]``
    when the check registered how many bytes of that (sparse, still being
    uploaded) file are materialised, else its st_size.  ``root_reserve`` is the
    part of the free space only root may use (f_bfree - f_bavail)."""

    def __init__(self, root, total, root_reserve=0):
        self.root = root
        self.total = int(total)
        self.root_reserve = int(root_reserve)
        self.sparse = {}
        self.calls = 0

    def used(self):
        n = 0
        for dp, _dn, fns in os.walk(self.root):
            for fn in fns:
                p = os.path.join(dp, fn)
                if p in self.sparse:
                    n += self.sparse[p]
                else:
                    try:
                        n += os.path.getsize(p)
                    except OSError:
                        pass
        return n

    def free(self):
        """bytes a non-root user may still write (>= 0)."""
        return max(0, self.total - self.used() - self.root_reserve)

    def statvfs(self, path):
        self.calls += 1
        free_root = max(0, self.total - self.used())
        return _StatVFS(1, self.total, free_root, max(0, free_root - self.root_reserve))


_disk_hook = [None]
_fileutil_os_saved = []


def install_disk(disk):
    """Make ``disk`` what allmydata.util.fileutil sees through os.statvfs."""
    from allmydata.util import fileutil
    if not _fileutil_os_saved:
        _fileutil_os_saved.append(fileutil.os)
        fileutil.os = _OsProxy(fileutil.os, _disk_hook)
    _disk_hook[0] = disk


def uninstall_disk():
    from allmydata.util import fileutil
    _disk_hook[0] = None
    if _fileutil_os_saved:
        fileutil.os = _fileutil_os_saved.pop()


# ------------------------------------------------------------------ servers

class Case(object):
    """One temp dir + one real StorageServer (+ optional simulated disk)."""

    def __init__(self, rng, disk_total=None, root_reserve=0, **kw):
        from allmydata.storage.server import StorageServer
        install_virtual_time()
        reset_clock()
        self.tmp = tempfile.mkdtemp(prefix="vf-")
        self.storedir = os.path.join(self.tmp, "storage")
        self.nodeid = bytes(rng.getrandbits(8) for _ in range(20))
        self.disk = None
        if disk_total is None:
            disk_total = 1 << 50      # "plenty", but deterministic
        self.disk = SimDisk(self.storedir, disk_total, root_reserve)
        os.makedirs(self.storedir)
        install_disk(self.disk)
        self.ss = StorageServer(self.storedir, self.nodeid, clock=env.reactor, **kw)
        self.sharedir = self.ss.sharedir
        self.incomingdir = self.ss.incomingdir

    # paths, computed independently of storage_index_to_dir: base32 (RFC 4648
    # alphabet lower-cased, no padding) of the 16-byte SI; prefix = 2 chars.
    def si_dir(self, si):
        s = b32(si)
        return os.path.join(s[:2], s)

    def final_path(self, si, shnum):
        return os.path.join(self.sharedir, self.si_dir(si), "%d" % shnum)

    def incoming_path(self, si, shnum):
        return os.path.join(self.incomingdir, self.si_dir(si), "%d" % shnum)

    def bucket_dir(self, si):
        return os.path.join(self.sharedir, self.si_dir(si))

    def listing(self, base, si):
        """share numbers present as files below base/<prefix>/<si>/."""
        d = os.path.join(base, self.si_dir(si))
        try:
            return sorted(int(f) for f in os.listdir(d) if f.isdigit())
        except OSError:
            return []

    def close(self):
        cancel_timers()
        uninstall_disk()
        shutil.rmtree(self.tmp, ignore_errors=True)


def make_server(tmp, **kw):
    """Real StorageServer on ``tmp``/storage with the virtual clock."""
    from allmydata.storage.server import StorageServer
    install_virtual_time()
    nodeid = kw.pop("nodeid", None) or os.urandom(20)
    return StorageServer(os.path.join(tmp, "storage"), nodeid, clock=env.reactor, **kw)


def reset_clock():
    """Every case starts at env.EPOCH: cases are independent of how far earlier
    cases advanced the (process-global) virtual clock, and lease expiry stamps
    stay inside their 4-byte field however many cases one process runs."""
    cancel_timers()
    env.reactor.rightNow = env.EPOCH


def cancel_timers():
    """Stale BucketWriter timeouts must not fire into later cases."""
    n = 0
    for dc in list(env.reactor.getDelayedCalls()):
        if dc.active():
            dc.cancel()
            n += 1
    return n


_B32 = "abcdefghijklmnopqrstuvwxyz234567"


def b32(data):
    """RFC 4648 base32, lower case, unpadded (what tahoe calls base32.b2a)."""
    bits = "".join("{:08b}".format(b) for b in data)
    bits += "0" * (-len(bits) % 5)
    return "".join(_B32[int(bits[i:i + 5], 2)] for i in range(0, len(bits), 5))


def snapshot_dir(path):
    """{relative path: bytes} of every regular file below path; directories
    that contain no file appear as 'rel/' -> None so that removal of an empty
    bucket dir is visible."""
    out = {}
    if not os.path.isdir(path):
        return out
    for dp, dns, fns in os.walk(path):
        rel = os.path.relpath(dp, path)
        if not fns and not dns and rel != ".":
            out[rel + "/"] = None
        for fn in fns:
            p = os.path.join(dp, fn)
            with open(p, "rb") as f:
                out[os.path.normpath(os.path.join(rel, fn))] = f.read()
    return out


# ------------------------------------------------- independent file parsers
# storage/immutable.py header comment:
#  0x00 version(4) | 0x04 share data length(4, unused by servers >= 1.3.0,
#  saturating) | 0x08 number of leases(4) | 0x0c share data | then the leases:
#  owner(4) renew(32) cancel(32) expiration(4) = 72 bytes each, to end of file.

class ImmutableRaw(object):
    def __init__(self, raw):
        self.raw = raw
        self.version = int.from_bytes(raw[0:4], "big")
        self.length_field = int.from_bytes(raw[4:8], "big")
        self.num_leases = int.from_bytes(raw[8:12], "big")
        self.lease_offset = len(raw) - 72 * self.num_leases
        self.data = raw[12:self.lease_offset]
        self.leases = []
        for i in range(self.num_leases):
            rec = raw[self.lease_offset + 72 * i: self.lease_offset + 72 * (i + 1)]
            self.leases.append({
                "owner": int.from_bytes(rec[0:4], "big"),
                "renew": rec[4:36], "cancel": rec[36:68],
                "expiry": int.from_bytes(rec[68:72], "big")})


def parse_immutable(path):
    with open(path, "rb") as f:
        return ImmutableRaw(f.read())


class ImmutableTail(object):
    """Same layout facts as ImmutableRaw for files too large to read whole
    (multi-GiB sparse shares): header, file size, and the lease records, which
    by the documented layout are the last 72*count bytes of the file.
    ``tail`` holds the last ``keep`` bytes for substring scans."""

    def __init__(self, path, keep=8192):
        self.filesize = os.path.getsize(path)
        with open(path, "rb") as f:
            head = f.read(12)
            self.version = int.from_bytes(head[0:4], "big")
            self.length_field = int.from_bytes(head[4:8], "big")
            self.num_leases = int.from_bytes(head[8:12], "big")
            n = min(self.num_leases, max(0, (self.filesize - 12) // 72))
            self.lease_offset = self.filesize - 72 * self.num_leases
            self.data_length = self.lease_offset - 12
            f.seek(max(0, self.filesize - max(keep, 72 * n)))
            self.tail = f.read()
        self.head = head
        self.leases = []
        recs = self.tail[len(self.tail) - 72 * n:] if n else b""
        for i in range(n):
            rec = recs[72 * i:72 * (i + 1)]
            self.leases.append({
                "owner": int.from_bytes(rec[0:4], "big"),
                "renew": rec[4:36], "cancel": rec[36:68],
                "expiry": int.from_bytes(rec[68:72], "big")})


# storage/mutable.py header comment:
#  0 magic(32) | 32 nodeid(20) | 52 write enabler(32) | 84 data size(8) |
#  92 offset of extra-lease count(8) | 100 four leases of 92 bytes
#  [owner(4) expiration(4) renew(32) cancel(32) nodeid(20)] | 468 data |
#  <extra offset>: count(4) then count*92 bytes of extra leases.

class MutableRaw(object):
    def __init__(self, raw):
        self.raw = raw
        self.magic = raw[0:32]
        self.nodeid = raw[32:52]
        self.write_enabler = raw[52:84]
        self.data_length = int.from_bytes(raw[84:92], "big")
        self.extra_offset = int.from_bytes(raw[92:100], "big")
        self.data = raw[468:468 + self.data_length]
        self.container = raw[468:self.extra_offset]
        self.num_extra = int.from_bytes(raw[self.extra_offset:self.extra_offset + 4], "big")
        recs = [raw[100 + 92 * i: 100 + 92 * (i + 1)] for i in range(4)]
        base = self.extra_offset + 4
        # a corrupt count must not make the parser allocate gigabytes
        fit = max(0, (len(raw) - base) // 92)
        self.count_plausible = (self.num_extra <= fit and len(raw) >= self.extra_offset + 4)
        recs += [raw[base + 92 * i: base + 92 * (i + 1)] for i in range(min(self.num_extra, fit))]
        self.slots = []
        for rec in recs:
            if len(rec) != 92:
                self.slots.append(None)
                continue
            self.slots.append({
                "owner": int.from_bytes(rec[0:4], "big"),
                "expiry": int.from_bytes(rec[4:8], "big"),
                "renew": rec[8:40], "cancel": rec[40:72], "nodeid": rec[72:92]})
        self.leases = [s for s in self.slots if s is not None and s["owner"] != 0]
        self.end_of_leases = base + 92 * self.num_extra

    @property
    def version(self):
        # "Tahoe mutable container v<N>\n"
        try:
            return int(self.magic.split(b"\n")[0].rsplit(b"v", 1)[1])
        except Exception:
            return None

    def wellformed(self):
        """layout facts that must hold for the parse to mean anything."""
        return (self.count_plausible
                and self.extra_offset >= 468 + self.data_length
                and len(self.raw) >= self.end_of_leases
                and all(s is not None for s in self.slots))


def parse_mutable(path):
    with open(path, "rb") as f:
        return MutableRaw(f.read())


# ---------------------------------------------------------------- helpers

def apply_writes(data, datav, new_length):
    """Reference semantics of one mutable share's write vector + new_length
    (growable byte array: zero-extend, overwrite, truncate if smaller)."""
    d = bytearray(data)
    for off, w in datav:
        if off > len(d):
            d.extend(bytes(off - len(d)))
        d[off:off + len(w)] = w
    if new_length is not None and new_length < len(d):
        del d[new_length:]
    return d


def rand_bytes(rng, n):
    return bytes(rng.getrandbits(8) for _ in range(n))


def rand_si(rng, prefix=None):
    """16-byte storage index; ``prefix`` (2 bytes) forces a shared
    shares/<2 chars>/ directory between several storage indexes."""
    si = rand_bytes(rng, 16)
    if prefix is not None:
        si = prefix + si[2:]
    return si


def schema_v1(kind):
    """The repo's own v1 (cleartext leases) container schema object."""
    if kind == "mutable":
        from allmydata.storage import mutable_schema as m
    else:
        from allmydata.storage import immutable_schema as m
    for s in m.ALL_SCHEMAS:
        if s.version == 1:
            return s
    raise RuntimeError("no v1 schema")


class Canary(object):
    """What FoolscapStorageServer.remote_allocate_buckets needs from the
    client connection: notifyOnDisconnect / dontNotifyOnDisconnect."""

    # same contract as foolscap.broker.Broker: markers, tolerant removal,
    # callbacks delivered through the eventual-send queue on disconnect.
    def __init__(self):
        self.watchers = []
        self.disconnected = False
        self.removed = 0

    def notifyOnDisconnect(self, cb, *a, **kw):
        from foolscap.eventual import eventually
        marker = (cb, a, kw)
        if self.disconnected:
            eventually(cb, *a, **kw)
        else:
            self.watchers.append(marker)
        return marker

    def dontNotifyOnDisconnect(self, marker):
        if self.disconnected:
            return
        if marker in self.watchers:
            self.watchers.remove(marker)
            self.removed += 1

    def disconnect(self):
        """connection lost: queue the callbacks, then run the eventual queue."""
        from foolscap.eventual import eventually
        self.disconnected = True
        for (cb, a, kw) in self.watchers:
            eventually(cb, *a, **kw)
        self.watchers = []
        while env.evq.pending():
            env.evq._turn()
